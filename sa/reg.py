"""REG - strict reader model for the registry (.dat) files, driven by what numdb.py actually says.

The grammar (`_line_re`, `_prop_re`), the comment rule and the way a line's properties are built
are read from the syntax tree of stdnum/numdb.py on every run; the registry files are read as
text.  Nothing is imported from the repository."""
import ast
import glob
import os
import re

from .common import REPO, AnalysisError, src
from .match import match_expr
from .minieval import ev, Undecidable

NUMDB = 'stdnum/numdb.py'


class Entry:
    __slots__ = ('low', 'high', 'length', 'props', 'children', 'line', 'depth', 'text', 'parent', 'group')

    def __init__(self, low, high, props, line, depth, text, group):
        self.low, self.high, self.length = low, high, len(low)
        self.props, self.children = props, []
        self.line, self.depth, self.text = line, depth, text
        self.parent = None
        self.group = group     # entries of one multi-range line share props and children

    @property
    def rng(self):
        return self.low if self.low == self.high else '%s-%s' % (self.low, self.high)


class ReaderModel:
    def __init__(self):
        path = os.path.join(REPO, NUMDB)
        if not os.path.exists(path):
            raise AnalysisError('%s vanished' % NUMDB)
        with open(path, encoding='utf-8') as fh:
            self.tree = ast.parse(fh.read())
        self.consts = {}
        for n in self.tree.body:
            if isinstance(n, ast.Assign) and len(n.targets) == 1 and isinstance(n.targets[0], ast.Name):
                b = match_expr('re.compile(E_p)', n.value) or match_expr('re.compile(E_p, E_f)', n.value)
                if b:
                    try:
                        pat = ast.literal_eval(b['E_p'])
                    except Exception:
                        continue
                    flags = 0
                    if 'E_f' in b:
                        for x in ast.walk(b['E_f']):
                            if isinstance(x, ast.Attribute) and hasattr(re, x.attr):
                                flags |= getattr(re, x.attr)
                    self.consts[n.targets[0].id] = (pat, flags)
        funcs = {n.name: n for n in self.tree.body if isinstance(n, ast.FunctionDef)}
        if '_parse' not in funcs:
            raise AnalysisError('%s: _parse vanished' % NUMDB)
        self.parse_fn = funcs['_parse']
        self._derive()

    def _derive(self):
        fn = self.parse_fn
        line_re = prop_re = None
        self.props_expr = None
        self.how = 'search'
        for n in ast.walk(fn):
            if isinstance(n, ast.Assign) and len(n.targets) == 1 and isinstance(n.targets[0], ast.Name):
                for how in ('search', 'match', 'fullmatch'):
                    b = match_expr('V_re.%s(E_subject)' % how, n.value)
                    if b and b['V_re'].id in self.consts and b['V_re'].id != 'x' and 'findall' not in src(n.value):
                        line_re = b['V_re'].id
                        self.how = how
                        self.match_var = n.targets[0].id
                        self.subject_expr = b['E_subject']
                if any(isinstance(x, ast.Attribute) and x.attr == 'findall' for x in ast.walk(n.value)):
                    self.props_expr = n.value
                    self.props_var = n.targets[0].id
                    for x in ast.walk(n.value):
                        if isinstance(x, ast.Attribute) and x.attr == 'findall' and isinstance(x.value, ast.Name) and x.value.id in self.consts:
                            prop_re = x.value.id
        if line_re is None or prop_re is None or self.props_expr is None:
            raise AnalysisError('%s:%d _parse(): line regex / property regex / props expression not found' % (NUMDB, fn.lineno))
        self.line_pat, self.line_flags = self.consts[line_re]
        self.prop_pat, self.prop_flags = self.consts[prop_re]
        self.line_re = re.compile(self.line_pat, self.line_flags)
        self.prop_re = re.compile(self.prop_pat, self.prop_flags)
        self.prop_re_name = prop_re
        # strict variant: the props part must be *completely* consumed by repetitions of the property regex
        self.strict_props = re.compile(r'^(?:\s*(?:%s))*\s*$' % self.prop_pat, self.prop_flags)
        # comment rule
        self.skip_src = None
        for n in ast.walk(fn):
            if isinstance(n, ast.If) and any(isinstance(x, ast.Continue) for x in n.body):
                self.skip_src = src(n.test)
        self.skip_problem = None
        if self.skip_src not in ("line[0] == '#' or line.strip() == ''", "line.strip() == '' or line[0] == '#'",
                                 "line.startswith('#') or line.strip() == ''", "line[0] == '#' or not line.strip()"):
            # another spelling: evaluated on the kinds of line there are; a line is skipped iff it starts with '#' in column 0 or is blank
            from .minieval import ev, Undecidable, Unsupported
            test = next(n.test for n in ast.walk(fn) if isinstance(n, ast.If) and any(isinstance(x, ast.Continue) for x in n.body) and src(n.test) == self.skip_src) \
                if self.skip_src else None
            var = None
            for n in ast.walk(fn):
                if isinstance(n, ast.For) and isinstance(n.target, ast.Name) and test is not None and any(x is test for x in ast.walk(n)):
                    var = n.target.id
            if test is None or var is None:
                raise AnalysisError('%s: comment/blank rule of _parse() not recognised: %r' % (NUMDB, self.skip_src))
            probes = [('# comment\n', True), ('#\n', True), ('\n', True), ('   \n', True), ('\t\n', True), ('', True),
                      ('12 a="b"\n', False), (' 12 a="b"\n', False), (' #1 a="b"\n', False), ('  # a="b"\n', False), ('#1', True), ('1#', False)]
            for text, want in probes:
                try:
                    got = bool(ev(test, {var: text}))
                except (Undecidable, Unsupported) as e:
                    raise AnalysisError('%s: comment/blank rule of _parse() cannot be evaluated: %r (%s)' % (NUMDB, self.skip_src, e))
                if got != want:
                    self.skip_problem = (getattr(test, 'lineno', 0), self.skip_src,
                                         'the line %r is %s by `%s`: lines are comments only when they start with # in the first column, blank lines are '
                                         'skipped, every other line is an entry (an indented entry whose range starts with # would be lost together with the '
                                         'place of the lines nested under it)' % (text, 'skipped' if got else 'not skipped', self.skip_src))
                    break

    def subject(self, line):
        """What the reader actually hands to its line pattern (normally the line itself)."""
        e = self.subject_expr
        if isinstance(e, ast.Name):
            return line
        loopvar = None
        for n in ast.walk(self.parse_fn):
            if isinstance(n, ast.For) and isinstance(n.target, ast.Name):
                loopvar = n.target.id
                break
        try:
            return ev(e, {loopvar or 'line': line})
        except Undecidable as ex:
            raise AnalysisError('%s: argument of the line pattern in _parse() cannot be evaluated: %s' % (NUMDB, ex))

    def skip(self, line):
        return line[0] == '#' or line.strip() == ''

    def props_of(self, text):
        """Properties of a line as the reader builds them (evaluates the extracted props expression
        with `<prop_re>.findall(<props text>)` replaced by the list of matches)."""
        pairs = self.prop_re.findall(text)
        if not hasattr(self, '_pexpr'):
            class Sub(ast.NodeTransformer):
                def visit_Call(s, node):
                    if isinstance(node.func, ast.Attribute) and node.func.attr == 'findall':
                        return ast.Name(id='__pairs__', ctx=ast.Load())
                    return s.generic_visit(node)
            import copy
            e2 = Sub().visit(copy.deepcopy(self.props_expr))
            ast.fix_missing_locations(e2)
            self._pexpr = e2
            self._plain = src(e2) == 'dict(__pairs__)'
        if self._plain:
            return dict(pairs)
        e2 = self._pexpr
        b = match_expr('dict(E_x)', e2)
        try:
            if b is None:
                if isinstance(e2, ast.DictComp) and len(e2.generators) == 1:
                    g = e2.generators[0]
                    out = {}
                    for item in pairs:
                        env = {'__pairs__': pairs}
                        _bind(g.target, item, env)
                        if all(ev(c, env) for c in g.ifs):
                            out[ev(e2.key, env)] = ev(e2.value, env)
                    return out
                raise AnalysisError('%s: props expression `%s` of _parse() is not dict(...) over the property matches' % (NUMDB, src(self.props_expr)))
            inner = b['E_x']
            if isinstance(inner, ast.GeneratorExp) and len(inner.generators) == 1:
                g = inner.generators[0]
                out = []
                for item in pairs:
                    env = {'__pairs__': pairs}
                    _bind(g.target, item, env)
                    if all(ev(c, env) for c in g.ifs):
                        out.append(ev(inner.elt, env))
                return dict(out)
            return dict(ev(inner, {'__pairs__': pairs}))
        except Undecidable as e:
            raise AnalysisError('%s: props expression of _parse() cannot be evaluated: %s' % (NUMDB, e))


def _bind(target, value, env):
    if isinstance(target, ast.Name):
        env[target.id] = value
    elif isinstance(target, (ast.Tuple, ast.List)):
        for t, v in zip(target.elts, value):
            _bind(t, v, env)


class Registry:
    """One .dat file read by the model; records per-line syntax problems and builds the tree the
    way read() does (a deeper line becomes a child of the last entry of the previous level)."""

    def __init__(self, model, path):
        self.path = path
        self.rel = os.path.relpath(path, REPO)
        self.name = os.path.relpath(path, os.path.join(REPO, 'stdnum'))[:-4] if path.startswith(os.path.join(REPO, 'stdnum')) else self.rel
        self.problems = []     # (rule, lineno, text, detail)
        self.lines = 0
        self.roots = []
        self.entries = []
        stack = {0: self.roots}
        parents = {0: None}
        last_indent = 0
        open_levels = {0}
        with open(path, encoding='utf-8', newline='') as fh:
            raw = fh.read()
        for i, line in enumerate(raw.split('\n'), 1):
            if line == '' and i == raw.count('\n') + 1:
                break
            if model.skip(line + '\n'):
                continue
            self.lines += 1
            text = line
            if '\r' in text or '\t' in text:
                self.problems.append(('REG.line', i, text, 'line contains a tab or carriage return'))
            # the registry is read through a codecs stream reader, whose line iteration also breaks at these characters:
            # what follows one of them is read as a line of its own
            brk = [ch for ch in '\x0b\x0c\x1c\x1d\x1e\x85\u2028\u2029' if ch in text]
            if brk:
                self.problems.append(('REG.line', i, text, 'line contains U+%04X, at which numdb\'s reader starts a new line: the rest of the line is read as '
                                      'another entry and the lines below it hang off that' % ord(brk[0])))
            subject = model.subject(line + '\n')
            m = getattr(model.line_re, model.how)(subject.rstrip('\n') if isinstance(subject, str) else line)
            if not m:
                self.problems.append(('REG.line', i, text, 'line is not matched by the reader grammar'))
                continue
            indent = len(m.group('indent'))
            ptext = m.group('props')
            if not model.strict_props.match(ptext):
                junk = model.prop_re.sub('', ptext).strip()
                self.problems.append(('REG.props-consumed', i, text, 'properties are not completely understood: unparsed text %r (the reader silently '
                                      'keeps only what its property pattern finds)' % junk[:60]))
            names = [p[0] for p in model.prop_re.findall(ptext)]
            if len(names) != len(set(names)):
                self.problems.append(('REG.dup-prop', i, text, 'property given twice on one line: %r' % sorted(n for n in set(names) if names.count(n) > 1)))
            props = model.props_of(ptext)
            m0 = getattr(model.line_re, model.how)(line)
            full = dict(model.prop_re.findall(m0.group('props') if m0 else ptext))
            if props != full:
                lost = sorted(k for k in full if k not in props or props[k] != full[k])
                self.problems.append(('REG.reader-complete', i, text, 'the reader (numdb._parse) does not return the properties %r written on this line' % lost))
            # indentation discipline
            if indent > last_indent:
                if not stack.get(last_indent):
                    self.problems.append(('REG.nesting', i, text, 'indented line without a parent entry'))
                    continue
                stack[indent] = stack[last_indent][-1].children
                parents[indent] = stack[last_indent][-1]
                open_levels.add(indent)
            elif indent not in open_levels:
                self.problems.append(('REG.nesting', i, text, 'indentation %d returns to a level that was never opened (open levels %s)' % (indent, sorted(open_levels))))
                continue
            open_levels = {x for x in open_levels if x <= indent}
            last_indent = indent
            group = []
            shared_children = None
            for r in m.group('ranges').split(','):
                if r.count('-') > 1:
                    self.problems.append(('REG.range', i, text, 'range %r has more than one dash' % r))
                    continue
                low, high = r.split('-') if '-' in r else (r, r)
                odd = [c for c in low + high if ord(c) > 126 or ord(c) < 33]
                if odd:
                    # numbers are looked up in their compact form (ASCII after clean()): such an endpoint matches nothing; a look-alike
                    # dash makes one long prefix of what was meant as a range
                    self.problems.append(('REG.range', i, text, 'endpoint of %r contains U+%04X: no compact number can match it (a look-alike of "-" '
                                          'turns a range into a single prefix)' % (r, ord(odd[0]))))
                    continue
                if len(low) != len(high):
                    self.problems.append(('REG.range', i, text, 'endpoints of %r differ in length' % r))
                    continue
                if low > high:
                    self.problems.append(('REG.range', i, text, 'endpoints of %r are not ordered' % r))
                    continue
                depth = sorted(open_levels).index(indent)
                e = Entry(low, high, props, i, depth, text.strip(), group)
                if shared_children is None:
                    shared_children = e.children
                else:
                    e.children = shared_children
                e.parent = parents[indent]
                group.append(e)
                stack[indent].append(e)
                self.entries.append(e)

    def shadowed(self):
        """Entries that no lookup can reach: a strictly shorter sibling range covers their whole range."""
        if hasattr(self, '_shadowed'):
            return self._shadowed
        import bisect
        out = []

        def visit(level):
            bylen = {}
            for e in level:
                bylen.setdefault(e.length, []).append(e)
            index = {}
            for m, es in bylen.items():
                es = sorted(es, key=lambda e: e.low)
                lows = [e.low for e in es]
                pm = []
                best = None
                for e in es:
                    if best is None or e.high > best.high:
                        best = e
                    pm.append(best)
                index[m] = (lows, pm)
            lens = sorted(bylen)
            for e in level:
                for m in lens:
                    if m >= e.length:
                        break
                    lows, pm = index[m]
                    i = bisect.bisect_right(lows, e.low[:m]) - 1
                    if i >= 0 and pm[i].high >= e.high[:m]:
                        out.append((e, pm[i]))
                        break
            seen = set()
            for e in level:
                if e.children and id(e.children) not in seen:
                    seen.add(id(e.children))
                    visit(e.children)
        visit(self.roots)
        self._shadowed = out
        return out

    def effective(self, e):
        """Properties a lookup inside e's range really gets: the merge (in file order) of all
        same-length sibling ranges that cover e's whole range (numdb merges every match of the
        winning length)."""
        level = self.roots if e.parent is None else e.parent.children
        idx = self._level_index(level)
        singles, wides = idx.get(e.length, ({}, []))
        cands = list(wides)
        if e.low == e.high:
            cands += singles.get(e.low, [])
        out = {}
        for s in sorted(cands, key=lambda x: x.line):
            if s.low <= e.low and e.high <= s.high:
                out.update(s.props)
        return out

    def _level_index(self, level):
        cache = self.__dict__.setdefault('_lvl', {})
        k = id(level)
        if k not in cache:
            idx = {}
            for s in level:
                singles, wides = idx.setdefault(s.length, ({}, []))
                if s.low == s.high:
                    singles.setdefault(s.low, []).append(s)
                else:
                    wides.append(s)
            cache[k] = idx
        return cache[k]

    def max_depth(self):
        return max([e.depth for e in self.entries] or [0])


def registry_files():
    return sorted(glob.glob(os.path.join(REPO, 'stdnum', '**', '*.dat'), recursive=True))
