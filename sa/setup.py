"""Offline set-up: nothing to build; warms the Unicode block partition used by STRABS."""
import sys


def main():
    try:
        from .strabs.interp import Interp
        Interp()
        print('sa.setup: block partition ready')
    except Exception as e:  # the checks rebuild it on demand
        print('sa.setup: warm-up skipped (%s)' % e)
    return 0


if __name__ == '__main__':
    sys.exit(main())
