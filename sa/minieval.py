"""Evaluator for *extracted* expression trees over small finite domains.

Used only to tabulate an abstract transformer (the step function of a checksum fold, a
generator's residue -> character map) on every element of its finite domain.  It is not an
interpreter for repository code: statements, calls of repository functions, attribute access
and anything outside the whitelist below raise Undecidable."""
import ast


class Undecidable(Exception):
    """The expression has no value on this element of the domain (an index out of range, int() of a letter, ...)."""


class Unsupported(Undecidable):
    """The expression uses something the evaluator does not model (unknown call, free name, node kind): says nothing about the code."""


SAFE_CALLS = {'int': int, 'str': str, 'len': len, 'sum': sum, 'divmod': divmod, 'tuple': tuple, 'reversed': reversed,
              'abs': abs, 'min': min, 'max': max, 'range': range, 'enumerate': enumerate, 'list': list, 'bool': bool,
              'sorted': sorted, 'zip': zip, 'dict': dict, 'set': set, 'frozenset': frozenset, 'pow': pow, 'all': all, 'any': any}
SAFE_METHODS = {'index', 'upper', 'lower', 'zfill', 'join', 'find', 'get', 'split', 'strip', 'rstrip', 'lstrip', 'partition', 'rsplit', 'replace', 'items', 'keys', 'values'}


def ev(node, env, hooks=None):
    """env: name -> python value; hooks: optional dict name -> callable for symbolic stand-ins
    (e.g. 'checksum' -> lambda *a: current_state)."""
    hooks = hooks or {}
    E = lambda n: ev(n, env, hooks)
    if isinstance(node, ast.Constant):
        return node.value
    if isinstance(node, ast.Name):
        if node.id in env:
            return env[node.id]
        raise Unsupported('free name %s' % node.id)
    if isinstance(node, ast.Tuple):
        return tuple(E(x) for x in node.elts)
    if isinstance(node, ast.List):
        return [E(x) for x in node.elts]
    if isinstance(node, ast.Dict) and all(k is not None for k in node.keys):
        return {E(k): E(v) for k, v in zip(node.keys, node.values)}
    if isinstance(node, ast.Set):
        return {E(x) for x in node.elts}
    if isinstance(node, ast.BinOp):
        a, b = E(node.left), E(node.right)
        op = type(node.op)
        try:
            if op is ast.Add:
                return a + b
            if op is ast.Sub:
                return a - b
            if op is ast.Mult:
                return a * b
            if op is ast.FloorDiv:
                return a // b
            if op is ast.Mod:
                return a % b
            if op is ast.Pow and isinstance(b, int) and 0 <= b < 64:
                return a ** b
        except (TypeError, ZeroDivisionError, ValueError) as e:
            raise Undecidable('arithmetic fails: %s' % e)
        raise Unsupported('operator %s' % op.__name__)
    if isinstance(node, ast.UnaryOp):
        v = E(node.operand)
        if isinstance(node.op, ast.USub):
            return -v
        if isinstance(node.op, ast.Not):
            return not v
        raise Undecidable('unary')
    if isinstance(node, ast.BoolOp):
        v = None
        for x in node.values:
            v = E(x)
            if isinstance(node.op, ast.And) and not v:
                return v
            if isinstance(node.op, ast.Or) and v:
                return v
        return v
    if isinstance(node, ast.IfExp):
        return E(node.body) if E(node.test) else E(node.orelse)
    if isinstance(node, ast.JoinedStr):
        out = ''
        for v in node.values:
            if isinstance(v, ast.Constant):
                out += str(v.value)
            elif isinstance(v, ast.FormattedValue):
                val = E(v.value)
                if not isinstance(val, (str, int)) or isinstance(val, bool):
                    raise Unsupported('f-string field of type %s' % type(val).__name__)
                if v.conversion == 114:
                    val = repr(val)
                elif v.conversion == 115:
                    val = str(val)
                elif v.conversion != -1:
                    raise Unsupported('f-string conversion')
                spec = ''
                if v.format_spec is not None:
                    spec = E(v.format_spec)
                try:
                    out += format(val, spec)
                except (ValueError, TypeError) as e:
                    raise Undecidable('format() fails: %s' % e)
            else:
                raise Unsupported('f-string part')
        return out
    if isinstance(node, ast.Compare):
        left = E(node.left)
        for op, c in zip(node.ops, node.comparators):
            right = E(c)
            t = type(op)
            try:
                r = {ast.Eq: lambda: left == right, ast.NotEq: lambda: left != right, ast.Lt: lambda: left < right,
                     ast.LtE: lambda: left <= right, ast.Gt: lambda: left > right, ast.GtE: lambda: left >= right,
                     ast.In: lambda: left in right, ast.NotIn: lambda: left not in right,
                     ast.Is: lambda: left is right, ast.IsNot: lambda: left is not right}[t]()
            except TypeError as e:
                raise Undecidable(str(e))
            if not r:
                return False
            left = right
        return True
    if isinstance(node, ast.Subscript):
        base = E(node.value)
        try:
            if isinstance(node.slice, ast.Slice):
                s = node.slice
                return base[(E(s.lower) if s.lower else None):(E(s.upper) if s.upper else None):(E(s.step) if s.step else None)]
            return base[E(node.slice)]
        except (IndexError, KeyError, TypeError) as e:
            raise Undecidable('subscript fails: %s' % type(e).__name__)
    if isinstance(node, (ast.GeneratorExp, ast.ListComp, ast.DictComp, ast.SetComp)) and (len(node.generators) > 1 or isinstance(node, (ast.DictComp, ast.SetComp))):
        # nested generators / dict and set comprehensions: environments are extended generator by generator
        envs = [dict(env)]
        for g in node.generators:
            if g.is_async:
                raise Unsupported('async comprehension')
            nxt = []
            for e1 in envs:
                for x in ev(g.iter, e1, hooks):
                    e2 = dict(e1)
                    if isinstance(g.target, ast.Name):
                        e2[g.target.id] = x
                    elif isinstance(g.target, ast.Tuple) and all(isinstance(n, ast.Name) for n in g.target.elts):
                        try:
                            vals = tuple(x)
                        except TypeError:
                            raise Undecidable('unpacking a non-sequence')
                        if len(vals) != len(g.target.elts):
                            raise Undecidable('unpacking %d values into %d names' % (len(vals), len(g.target.elts)))
                        for n, v in zip(g.target.elts, vals):
                            e2[n.id] = v
                    else:
                        raise Unsupported('comprehension target')
                    if all(ev(c, e2, hooks) for c in g.ifs):
                        nxt.append(e2)
            envs = nxt
        if isinstance(node, ast.DictComp):
            out = {}
            for e2 in envs:
                out[ev(node.key, e2, hooks)] = ev(node.value, e2, hooks)
            return out
        vals = [ev(node.elt, e2, hooks) for e2 in envs]
        return set(vals) if isinstance(node, ast.SetComp) else vals
    if isinstance(node, ast.GeneratorExp) or isinstance(node, ast.ListComp):
        g = node.generators[0]
        names = [g.target] if isinstance(g.target, ast.Name) else list(g.target.elts) if isinstance(g.target, ast.Tuple) else []
        if len(node.generators) != 1 or not names or not all(isinstance(n, ast.Name) for n in names):
            raise Undecidable('comprehension shape')
        out = []
        for x in E(g.iter):
            env2 = dict(env)
            if isinstance(g.target, ast.Name):
                env2[g.target.id] = x
            else:
                try:
                    vals = tuple(x)
                except TypeError:
                    raise Undecidable('unpacking a non-sequence')
                if len(vals) != len(names):
                    raise Undecidable('unpacking %d values into %d names' % (len(vals), len(names)))
                for n, v in zip(names, vals):
                    env2[n.id] = v
            if all(ev(c, env2, hooks) for c in g.ifs):
                out.append(ev(node.elt, env2, hooks))
        return out
    if isinstance(node, ast.Call):
        if node.keywords and not (isinstance(node.func, ast.Name) and node.func.id in hooks):
            raise Unsupported('keyword call')
        if isinstance(node.func, ast.Name):
            if node.func.id in hooks:
                return hooks[node.func.id](*[E(a) for a in node.args], **{k.arg: E(k.value) for k in node.keywords})
            f = SAFE_CALLS.get(node.func.id)
            if f is None:
                raise Unsupported('call of %s' % node.func.id)
            args = [E(a) for a in node.args]
            try:
                r = f(*args)
            except (ValueError, TypeError, IndexError) as e:
                raise Undecidable('%s() fails: %s' % (node.func.id, type(e).__name__))
            return tuple(r) if node.func.id in ('reversed', 'enumerate', 'zip') else r
        if isinstance(node.func, ast.Attribute) and isinstance(node.func.value, ast.Name) and node.func.value.id == 're' \
                and node.func.attr in ('match', 'search', 'fullmatch') and 're' not in env:
            import re as _re
            args = [E(a) for a in node.args]
            if len(args) != 2 or not all(isinstance(a, str) for a in args):
                raise Undecidable('re.%s arguments' % node.func.attr)
            return getattr(_re, node.func.attr)(*args)
        if isinstance(node.func, ast.Attribute) and isinstance(node.func.value, ast.Name) and node.func.value.id == 'unicodedata' \
                and node.func.attr == 'lookup' and 'unicodedata' not in env:
            import unicodedata as _u
            args = [E(a) for a in node.args]
            if len(args) != 1 or not isinstance(args[0], str):
                raise Undecidable('unicodedata.lookup arguments')
            try:
                return _u.lookup(args[0])
            except KeyError:
                raise Undecidable('unicodedata.lookup(%r): no such character name' % args[0])
        if isinstance(node.func, ast.Attribute) and isinstance(node.func.value, ast.Name) and node.func.value.id == 'unicodedata' \
                and node.func.attr == 'normalize' and 'unicodedata' not in env:
            import unicodedata as _u
            args = [E(a) for a in node.args]
            if len(args) != 2 or args[0] not in ('NFC', 'NFD', 'NFKC', 'NFKD') or not isinstance(args[1], str):
                raise Undecidable('unicodedata.normalize arguments')
            return _u.normalize(*args)
        if isinstance(node.func, ast.Attribute) and node.func.attr in ('match', 'search', 'fullmatch') and not node.keywords:
            import re as _re
            try:
                obj = E(node.func.value)
            except Unsupported:
                obj = None
            if isinstance(obj, _re.Pattern):
                args = [E(a) for a in node.args]
                if len(args) != 1 or not isinstance(args[0], str):
                    raise Undecidable('pattern.%s arguments' % node.func.attr)
                return getattr(obj, node.func.attr)(args[0])
        if isinstance(node.func, ast.Attribute) and node.func.attr in ('group', 'groups'):
            obj = E(node.func.value)
            import re as _re
            if obj is None:
                raise Undecidable('pattern does not match: None.%s' % node.func.attr)
            if isinstance(obj, _re.Match):
                return getattr(obj, node.func.attr)(*[E(a) for a in node.args])
        if isinstance(node.func, ast.Attribute) and node.func.attr in ('startswith', 'endswith', 'isdigit', 'isalnum', 'isalpha', 'isdecimal', 'isupper', 'islower', 'isspace', 'isascii', 'isnumeric'):
            obj = E(node.func.value)
            if isinstance(obj, str):
                return getattr(obj, node.func.attr)(*[E(a) for a in node.args])
        if isinstance(node.func, ast.Attribute) and node.func.attr in SAFE_METHODS:
            obj = E(node.func.value)
            if not isinstance(obj, (str, tuple, list, dict)):
                raise Undecidable('method on %s' % type(obj).__name__)
            args = [E(a) for a in node.args]
            try:
                r = getattr(obj, node.func.attr)(*args)
            except (ValueError, TypeError, IndexError, AttributeError) as e:
                raise Undecidable('.%s() fails: %s' % (node.func.attr, type(e).__name__))
            return list(r) if node.func.attr in ('items', 'keys', 'values') else r
        raise Unsupported('call')
    raise Unsupported(type(node).__name__)


def compiled_patterns(tree):
    """module-level `NAME = re.compile(<literal pattern>[, <literal flags expression>])` as real pattern objects (constants of the module)."""
    import re as _re
    out = {}
    for st in tree.body:
        if isinstance(st, ast.Assign) and len(st.targets) == 1 and isinstance(st.targets[0], ast.Name) and isinstance(st.value, ast.Call) \
                and ast.unparse(st.value.func) == 're.compile' and st.value.args and not st.value.keywords:
            try:
                pat = ast.literal_eval(st.value.args[0])
                flags = 0
                if len(st.value.args) > 1:
                    flags = eval(compile(ast.Expression(st.value.args[1]), '<flags>', 'eval'), {'re': _re, '__builtins__': {}})
                out[st.targets[0].id] = _re.compile(pat, flags)
            except Exception:
                continue
    return out


class Raised(Exception):
    """The evaluated body executes `raise <name>(...)`."""
    def __init__(self, name):
        Exception.__init__(self, name)
        self.name = name


class _Return(Exception):
    def __init__(self, value):
        self.value = value


def run(stmts, env, hooks=None, fuel=20000):
    """Straight-line / branching / bounded-loop bodies of small pure helpers: Assign, AugAssign, If, For over an evaluated
    sequence, Return, docstrings.  Returns the returned value (None when the body falls off its end); env is updated."""
    state = {'fuel': fuel}

    def assign(target, value):
        if isinstance(target, ast.Name):
            env[target.id] = value
        elif isinstance(target, (ast.Tuple, ast.List)) and all(isinstance(t, ast.Name) for t in target.elts):
            try:
                vals = tuple(value)
            except TypeError:
                raise Undecidable('unpacking a non-sequence')
            if len(vals) != len(target.elts):
                raise Undecidable('unpacking %d values into %d names' % (len(vals), len(target.elts)))
            for t, v in zip(target.elts, vals):
                env[t.id] = v
        else:
            raise Unsupported('assignment target %s' % type(target).__name__)

    def block(body):
        for st in body:
            state['fuel'] -= 1
            if state['fuel'] < 0:
                raise Unsupported('evaluation budget exhausted')
            if isinstance(st, ast.Expr) and isinstance(st.value, ast.Constant):
                continue
            if isinstance(st, ast.Assign):
                v = ev(st.value, env, hooks)
                for t in st.targets:
                    assign(t, v)
            elif isinstance(st, ast.AugAssign) and isinstance(st.target, ast.Name):
                v = ev(ast.BinOp(left=ast.Name(id=st.target.id, ctx=ast.Load()), op=st.op, right=st.value), env, hooks)
                env[st.target.id] = v
            elif isinstance(st, ast.If):
                block(st.body if ev(st.test, env, hooks) else st.orelse)
            elif isinstance(st, ast.For) and not st.orelse:
                for x in ev(st.iter, env, hooks):
                    assign(st.target, x)
                    block(st.body)
            elif isinstance(st, ast.Return):
                raise _Return(ev(st.value, env, hooks) if st.value is not None else None)
            elif isinstance(st, ast.Pass):
                continue
            elif isinstance(st, ast.Raise) and st.exc is not None and st.cause is None:
                e = st.exc.func if isinstance(st.exc, ast.Call) else st.exc
                raise Raised(ast.unparse(e))
            else:
                raise Unsupported('statement %s' % type(st).__name__)
    try:
        block(stmts)
    except _Return as r:
        return r.value
    return None
