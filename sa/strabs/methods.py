"""Method models."""
import ast
from .values import *
from .joins import Maybe
from .expr import DictV
from .subs import AbsIter


class Methods:
    def call_method(self, obj, name, args, kwargs, node, env):
        S = self.ctx.S
        ctx = self.ctx
        a0 = args[0] if args else None
        if isinstance(obj, Str):
            return self.str_method(obj, name, args, kwargs, node, env)
        if isinstance(obj, RegexV):
            if name in ('match', 'search', 'fullmatch'):
                return self.regex_match(obj.lang, name, a0, node, env)
            if name == 'sub':
                rp = S.const_value(env, a0) if isinstance(a0, Str) else None
                src = args[1] if len(args) > 1 else None
                if rp is not None and isinstance(src, Str) and len(args) == 2 and not kwargs:
                    # every character of the result is a character of the source or of the constant replacement; a non-empty
                    # replacement keeps a non-empty source non-empty, and the edges are source edges or replacement edges
                    allc = S.join_cls(env, src) | self.B.cls_of_chars(rp)
                    if not rp:
                        return S.any_str(env, 0, src.hi, allc)
                    lo = 1 if (src.lo or 0) >= 1 else 0
                    if src.fixed:
                        first, last = (env.cls(src.pre[0]), env.cls(src.pre[-1])) if src.pre else (allc, allc)
                    else:
                        first = env.cls(src.pre[0]) if src.pre else allc
                        last = env.cls(src.suf[0]) if src.suf else allc
                    return Str([env.new_cell(first | self.B.cls_of_chars(rp[0]))], env.new_cell(allc), [env.new_cell(last | self.B.cls_of_chars(rp[-1]))], lo, None, True)
                return S.any_str(env)
            if name == 'findall':
                return ListOf(TOP, 0, None)
        if isinstance(obj, MatchV):
            if name == 'group':
                return self.match_group(obj, args, env, node)
            if name == 'groups':
                if obj.maybe_none:
                    ctx.raise_('AttributeError', node, env, 'match may be None')
                if obj.alt is not None:
                    idx = sorted(k for k in obj.alt.groups if isinstance(k, int))
                    return Tup([self.alt_span(obj, obj.alt.groups[k], env) for k in idx])
                return ListOf(S.any_str(env), 0, None)
        if isinstance(obj, RegDB):
            if name == 'info' or name == 'split':
                q = a0
                if not isinstance(q, Str):
                    ctx.raise_('TypeError', node, env, 'numdb query %r' % (q,))
                    q = S.any_str(env)
                lo = 1 if (q.lo or 0) > 0 else 0
                hi = 0 if q.hi == 0 else None
                if name == 'info':
                    return RegInfo(obj.name, lo, hi, q)
                return ListOf(S.any_str(env, 1, q.hi, S.join_cls(env, q)), lo, hi)
        if isinstance(obj, RegDict):
            if name == 'get':
                key = S.const_value(env, a0) if isinstance(a0, Str) else None
                if key is not None and ('haskey', obj.rid, key) in env.facts:
                    return S.any_str(env)
                d = args[1] if len(args) > 1 else RegNone(obj.name, key)
                val = S.any_str(env)
                if key is not None and isinstance(obj.query, Str):
                    val.reg = (obj.name, key, obj.query.sid)
                return Maybe.of(val, d)
            if name in ('items', 'keys', 'values'):
                return ListOf(Tup([S.any_str(env), S.any_str(env)]) if name == 'items' else S.any_str(env), 0, None)
            if name == 'update':
                return NONE
        if isinstance(obj, PyConst):
            v = obj.v
            if isinstance(v, dict):
                if name == 'get':
                    d = args[1] if len(args) > 1 else NONE
                    return self.dict_lookup(v, a0, env, node, strict=False, default=d)
                if name in ('items', 'keys', 'values'):
                    if name == 'items':
                        return Tup([Tup([self.from_py(k, env), self.from_py(x, env)]) for k, x in v.items()]) if len(v) <= 64 else ListOf(TOP, len(v), len(v))
                    seq = list(v.keys() if name == 'keys' else v.values())
                    return self.from_py(tuple(seq), env) if all(isinstance(x, (str, int)) for x in seq) else ListOf(TOP, len(v), len(v))
            if isinstance(v, (tuple, list, str)) and name == 'index':
                return self.seq_index(v, a0, env, node)
            if name in ('union', 'copy'):
                return obj
        if isinstance(obj, DictV):
            if name == 'get':
                key = S.const_value(env, a0) if isinstance(a0, Str) else None
                d = args[1] if len(args) > 1 else NONE
                if key is not None:
                    return obj.d.get(key, d)
                res = d
                for x in obj.d.values():
                    res = self.join(res, x, env)
                return res
            if name == 'items':
                return Tup([Tup([S.const(k), x]) for k, x in obj.d.items()])
            if name in ('update', 'setdefault', 'pop', 'clear'):
                # the key set is no longer known
                env.replace_value(obj, Opaque('dict'))
                return NONE if name in ('update', 'clear') else TOP
        if isinstance(obj, Tup):
            if name in ('append', 'extend', 'insert') and obj.mutable:
                if name == 'append':
                    obj.elems.append(a0)
                elif name == 'extend':
                    kind, data = self.abs_iter(a0, env, node)
                    if kind == 'list':
                        obj.elems.extend(data)
                    else:
                        ctx.unsup(node, 'extend with unknown length')
                return NONE
            if name == 'pop':
                if not obj.elems:
                    ctx.raise_('IndexError', node, env, 'pop from empty list')
                    return TOP
                i = a0.const() if isinstance(a0, Int) else -1
                return obj.elems.pop(i if i is not None else -1)
            if name == 'index':
                ctx.raise_('ValueError', node, env, 'list.index')
                return Int(0, max(len(obj.elems) - 1, 0))
            if name in ('sort', 'reverse'):
                return NONE
        if isinstance(obj, ListOf):
            if name == 'pop':
                if obj.lo < 1:
                    ctx.raise_('IndexError', node, env, 'pop from possibly empty list')
                return obj.elem
            if name in ('append', 'extend', 'sort'):
                return NONE
        if isinstance(obj, Opaque):
            k = obj.kind
            if k in ('date', 'datetime'):
                if name in ('strftime',):
                    return S.any_str(env, 0, None, S.ASCII)
                if name in ('date', 'replace'):
                    if name == 'replace':
                        ctx.raise_('ValueError', node, env, 'date.replace')
                    return obj
            if k == 'hash':
                if name == 'digest':
                    return Opaque('bytes')
                if name == 'hexdigest':
                    return S.any_str(env, 0, None, self.B.cls_of_chars('0123456789abcdef'))
            if k == 'bytes':
                if name in ('decode',):
                    ctx.raise_('UnicodeError', node, env, 'decode')
                    return S.any_str(env)
            if k == 'defaultdict_int':
                if name == 'values':
                    return ListOf(Int(0, None), 0, None)
            if k in ('dict', 'defaultdict', 'json'):
                if name in ('get', 'pop', 'items', 'values', 'keys', 'update', 'setdefault'):
                    return ListOf(TOP, 0, None) if name in ('items', 'values', 'keys') else TOP
            if k in ('soap', 'json', 'stream'):
                return Opaque(k)
            if k.startswith('class.'):
                return self.class_method(obj, name, args, node, env)
        if isinstance(obj, Int):
            if name == 'bit_length':
                return Int(0, None)
        if isinstance(obj, RegInfo):
            if name == 'pop':
                if obj.lo < 1:
                    ctx.raise_('IndexError', node, env, 'pop from possibly empty list')
                return self.elem_of(obj, env)
        ctx.unsup(node, 'method %s on %r' % (name, obj))
        if obj is TOP or obj is NONE:
            ctx.raise_('AttributeError', node, env, '%s of %r' % (name, obj))
        return TOP

    def class_method(self, obj, name, args, node, env):
        # de.stnr._Format: match() -> regex match with \d groups; replace() -> str
        S = self.ctx.S
        if name == 'match':
            return MatchV(None, args[0] if args and isinstance(args[0], Str) else S.any_str(env))
        if name == 'replace':
            return S.any_str(env)
        return TOP

    def seq_index(self, seq, item, env, node):
        S = self.ctx.S
        if isinstance(seq, str):
            if isinstance(item, Str):
                lo, hi = item.lo or 0, item.hi
                if hi is not None and hi <= 1:
                    ok = self.B.cls_of_chars(seq)
                    bad = [self.B.describe(env.cls(c) - ok) for c in item.cells() if not env.cls(c) <= ok]
                    if bad:
                        self.ctx.raise_('ValueError', node, env, '.index() argument may be %s' % ', '.join(sorted(set(bad))[:3]))
                    S.refine_all(env, item, ok)
                    vals = S.enum_values(env, item, 256)
                    if vals:
                        idx = [seq.index(v) for v in vals if v in seq or v == '']
                        if idx:
                            r = Int(min(idx), max(idx))
                            if item.fixed and len(item.pre) == 1 and not isinstance(item.pre[0], frozenset):
                                r.form = ({('index:' + seq, item.pre[0]): 1}, 0)
                            return r
                    r = Int(0, max(len(seq) - 1, 0))
                    r.deps = frozenset(c for c in item.cells() if not isinstance(c, frozenset))
                    return r
            self.ctx.raise_('ValueError', node, env, '.index(%r) on constant string' % (item,))
            return Int(0, max(len(seq) - 1, 0))
        self.ctx.raise_('ValueError', node, env, '.index on sequence')
        return Int(0, max(len(seq) - 1, 0))

    # ------------------------------------------------------------- str methods
    FOLDABLE = {'replace', 'upper', 'lower', 'strip', 'lstrip', 'rstrip', 'zfill', 'startswith', 'endswith', 'isdigit', 'isalpha', 'isalnum',
                'ljust', 'rjust', 'title', 'capitalize', 'swapcase', 'count', 'find', 'rsplit', 'split', 'partition'}

    def str_method(self, s, name, args, kwargs, node, env):
        S = self.ctx.S
        ctx = self.ctx
        a0 = args[0] if args else None
        # constant folding: a method of a constant string with constant arguments
        if name in self.FOLDABLE and not kwargs:
            cv = S.const_value(env, s)
            if cv is not None:
                cargs = []
                for a in args:
                    if isinstance(a, Str) and S.const_value(env, a) is not None:
                        cargs.append(S.const_value(env, a))
                    elif isinstance(a, Int) and a.const() is not None:
                        cargs.append(a.const())
                    else:
                        cargs = None
                        break
                if cargs is not None:
                    try:
                        r = getattr(cv, name)(*cargs)
                    except Exception:
                        r = None
                    if isinstance(r, str) and r == cv:
                        return s          # identity: keep the very same string value
                    if isinstance(r, (str, bool, int)):
                        return self.from_py(r, env)
                    if isinstance(r, (list, tuple)) and all(isinstance(x, str) for x in r):
                        return Tup([S.const(x) for x in r], isinstance(r, list))
        if name == 'strip' or name == 'lstrip' or name == 'rstrip':
            cls = None
            if a0 is not None and a0 is not NONE:
                cv = S.const_value(env, a0) if isinstance(a0, Str) else None
                cls = self.B.cls_of_chars(cv) if cv is not None else self.B.ALL
            return S.strip(env, s, cls, left=name != 'rstrip', right=name != 'lstrip')
        if name == 'upper':
            return S.upper(env, s)
        if name == 'lower':
            return S.lower(env, s)
        if name in ('startswith', 'endswith'):
            return Bool(self.starts_truth(s, a0, name == 'startswith', env))
        if name in ('isdigit', 'isalpha', 'isalnum', 'isspace', 'isupper', 'islower', 'isnumeric', 'isdecimal'):
            cls = self.pred_cls_of_method(name)
            if cls is None:
                return Bool(None)
            if (s.lo or 0) >= 1 and S.all_in(env, s, cls):
                return Bool(True)
            if s.hi == 0 or ((s.lo or 0) >= 1 and any(not (env.cls(c) & cls) for c in (s.pre if s.fixed else ()))):
                return Bool(False)
            return Bool(None)
        if name == 'zfill':
            n = a0.const() if isinstance(a0, Int) else None
            if n is None:
                return S.any_str(env, 0, None, S.join_cls(env, s) | S.DIGITS)
            if (s.lo or 0) >= n:
                return s
            if s.fixed and not (s.pre and env.cls(s.pre[0]) & self.B.cls_of_chars('+-')):
                # (a leading sign would stay in front of the zeros)
                k = n - len(s.pre)
                return Str([self.B.cls_of_chars('0')] * k + list(s.pre))
            if s.fixed:
                return S.any_str(env, n, n, S.join_cls(env, s) | self.B.cls_of_chars('0'))
            # var: length becomes max(len, n): left padded with zeros
            cls = S.join_cls(env, s) | self.B.cls_of_chars('0')
            suf = s.suf
            return Str((), env.new_cell(cls), suf, max(s.lo or 0, n), None if s.hi is None else max(s.hi, n), s.imprecise)
        if name in ('ljust', 'rjust'):
            n = a0.const() if isinstance(a0, Int) else None
            fill = S.const_value(env, args[1]) if len(args) > 1 and isinstance(args[1], Str) else ' '
            cls = S.join_cls(env, s) | (self.B.cls_of_chars(fill) if fill else self.B.ALL)
            return S.any_str(env, max(s.lo or 0, n or 0), None if (s.hi is None or n is None) else max(s.hi, n), cls)
        if name == 'replace':
            old = S.const_value(env, a0) if isinstance(a0, Str) else None
            new = S.const_value(env, args[1]) if len(args) > 1 and isinstance(args[1], Str) else None
            if old is not None and len(old) == 1 and S.none_in(env, s, self.B.cls_of_chars(old)):
                return s
            if old is not None and new is not None and len(old) == 1 and len(new) <= 1:
                oc = self.B.cls_of_chars(old)
                nc = self.B.cls_of_chars(new)
                f = lambda cls: (cls - oc) | (nc if cls & oc else frozenset())
                if len(new) == 1:
                    return S.map_cells(env, s, f)
                return S.any_str(env, 0, s.hi, S.join_cls(env, s) - oc)
            cls = S.join_cls(env, s) | (S.join_cls(env, args[1]) if len(args) > 1 and isinstance(args[1], Str) else self.B.ALL)
            return S.any_str(env, 0, None, cls)
        if name in ('split', 'rsplit'):
            cls = S.join_cls(env, s)
            sep = S.const_value(env, a0) if isinstance(a0, Str) else None
            if sep:
                cls = cls - self.B.cls_of_chars(sep) if len(sep) == 1 else cls
            return ListOf(S.any_str(env, 0, s.hi, cls), 1, None)
        if name == 'join':
            return self.str_join(s, a0, env, node)
        if name in ('index', 'find', 'count'):
            if name == 'index':
                v = S.const_value(env, s)
                if v is not None:
                    return self.seq_index(v, a0, env, node)
                ctx.raise_('ValueError', node, env, 'str.index')
            return Int(-1 if name == 'find' else 0, None if s.hi is None else s.hi)
        if name == 'encode':
            return Opaque('bytes')
        if name == 'format':
            # '{:02d}{}'.format(a, b): the simple field forms are the %-directives of the same shape
            f = S.const_value(env, s)
            if f is not None and not kwargs:
                import re as _re
                out, order, auto, ok, pos = '', [], 0, True, 0
                for m_ in _re.finditer(r'\{\{|\}\}|\{([0-9]*)(?::(0?[0-9]*)([dsxX]?))?\}|[{}]', f):
                    out += f[pos:m_.start()].replace('%', '%%')
                    pos = m_.end()
                    t_ = m_.group(0)
                    if t_ in ('{{', '}}'):
                        out += t_[0]
                    elif t_ in ('{', '}'):
                        ok = False
                    else:
                        idx = int(m_.group(1)) if m_.group(1) else auto
                        auto += 1
                        if idx >= len(args):
                            ok = False
                            break
                        order.append(args[idx])
                        out += '%' + (m_.group(2) or '') + (m_.group(3) or 's')
                if ok:
                    out += f[pos:].replace('%', '%%')
                    return self.str_format(S.const(out), Tup(order), env, node)
            return S.any_str(env)
        if name in ('title', 'capitalize', 'swapcase', 'casefold'):
            return S.any_str(env, 0, None)
        if name == 'translate':
            return S.any_str(env, 0, None)
        if name == 'decode':
            ctx.raise_('AttributeError', node, env, 'str.decode')
            return S.any_str(env)
        ctx.unsup(node, 'str method ' + name)
        return TOP

    def pred_cls_of_method(self, name):
        m = {'isdigit': 'isdigit', 'isalpha': 'isalpha', 'isalnum': 'isalnum', 'isspace': 'isspace', 'isdecimal': 'Nd'}
        if name in m:
            return self.B.pred_cls(m[name])
        return None

    def starts_truth(self, s, prefix, front, env):
        S = self.ctx.S
        if isinstance(prefix, Tup):
            rs = [self.starts_truth(s, p, front, env) for p in prefix.elems]
            if any(r is True for r in rs):
                return True
            if all(r is False for r in rs):
                return False
            return None
        p = S.const_value(env, prefix) if isinstance(prefix, Str) else None
        if p is None:
            return None
        if p == '':
            return True
        if (('nostartswith' if front else 'noendswith'), s.sid, p) in env.facts:
            return False
        if s.hi is not None and s.hi < len(p):
            return False
        definite = (s.lo or 0) >= len(p)
        all_eq = definite
        for i, ch in enumerate(p):
            if front:
                if i < len(s.pre):
                    cl = env.cls(s.pre[i])
                elif s.fixed:
                    return False
                else:
                    cl = None
            else:
                j = len(p) - 1 - i
                if s.fixed:
                    cl = env.cls(s.pre[len(s.pre) - 1 - j]) if j < len(s.pre) else None
                else:
                    cl = env.cls(s.suf[j]) if j < len(s.suf) else None
            if cl is None:
                all_eq = False
                continue
            b = self.B.cls_of_chars(ch)
            if not (cl & b):
                return False
            if cl != b:
                all_eq = False
        return True if all_eq else None

    def str_join(self, sep, it, env, node):
        S = self.ctx.S
        kind, data = self.abs_iter(it, env, node)
        if kind == 'list':
            out = S.const('')
            for i, x in enumerate(data):
                if not isinstance(x, Str):
                    if isinstance(x, Maybe) or x is NONE or x is TOP or not isinstance(x, Str):
                        self.ctx.raise_('TypeError', node, env, 'join of %r' % (x,))
                    x = S.any_str(env)
                if i:
                    out = S.concat(env, out, sep)
                out = S.concat(env, out, x)
            return out
        el, lo, hi = data
        if not isinstance(el, Str):
            if el is not None and not (lo == 0 and hi == 0):
                self.ctx.raise_('TypeError', node, env, 'join of %r' % (el,))
            el = S.any_str(env)
        cls = S.join_cls(env, el) | S.join_cls(env, sep)
        elo = (el.lo or 0) * (lo or 0)
        ehi = None if (el.hi is None or hi is None or sep.hi is None) else el.hi * hi + sep.hi * max(hi - 1, 0)
        r = S.any_str(env, elo, ehi, cls)
        src = getattr(it, 'source', None)
        if src is not None and (el.lo or 0) >= 1:
            r.roots = (src.sid,) + src.roots
        return r
