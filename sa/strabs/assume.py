"""Branch refinement."""
import ast
from .values import *
from .joins import Maybe
from .expr import DictV


class Assume:
    def assume(self, node, truth, env):
        """Refine env under `node` evaluating to truth; returns list of envs (may be empty)."""
        if env.dead:
            return []
        out = self._assume(node, truth, env)
        return [e for e in out if not e.dead]

    def _assume(self, node, truth, env):
        if isinstance(node, ast.UnaryOp) and isinstance(node.op, ast.Not):
            return self.assume(node.operand, not truth, env)
        if isinstance(node, ast.BoolOp):
            conj = isinstance(node.op, ast.And)
            if conj == truth:
                envs = [env]
                for v in node.values:
                    nxt = []
                    for e in envs:
                        nxt.extend(self.assume(v, truth, e))
                    envs = self.cap(nxt)
                return envs
            out = []
            envs = [env]
            for v in node.values:
                nxt = []
                for e in envs:
                    out.extend(self.assume(v, truth, e.copy()))
                    nxt.extend(self.assume(v, not truth, e))
                envs = self.cap(nxt)
            return out
        if isinstance(node, ast.Compare):
            return self.assume_compare(node, truth, env)
        if isinstance(node, ast.Call):
            r = self.assume_call(node, truth, env)
            if r is not None:
                return r
        if isinstance(node, ast.Constant):
            return [env] if bool(node.value) == truth else []
        # generic: evaluate and use truthiness
        v = self.eval(node, env)
        if env.dead:
            return []
        if isinstance(node, ast.Subscript) and isinstance(v, ModSet):
            if truth:
                env.facts = env.facts | {('nn', ast.dump(node))}
                return [env]
            return [env] if v.maybe_none else []
        return self.assume_value(v, truth, env, node)

    def assume_value(self, v, truth, env, node):
        S = self.ctx.S
        t = self.truth(v, env)
        if t is not None:
            return [env] if t == truth else []
        if isinstance(v, Str):
            n = S.set_len(env, v, 1, None) if truth else S.set_len(env, v, 0, 0)
            if n is None:
                return []
            if isinstance(node, ast.Name):
                env.vars[node.id] = n
            return [env]
        if isinstance(v, RegDict):
            # `if not results: raise`: entries without properties do not reach the reads that follow
            if truth:
                env.facts = env.facts | {('haskey', v.rid, '')}
            return [env]
        if isinstance(v, MatchV):
            if truth:
                return self.match_refine(v.lang, v.subject, True, env, bind=node if isinstance(node, ast.Name) else None)
            return self.match_refine(v.lang, v.subject, False, env)
        if isinstance(v, Maybe) and isinstance(node, ast.Name):
            keep = []
            for a in v.alts:
                ta = self.truth(a, env)
                if ta is None or ta == truth:
                    keep.append(a)
            if not keep:
                return []
            nv = keep[0]
            for a in keep[1:]:
                nv = Maybe.of(nv, a)
            env.vars[node.id] = nv
            return [env]
        if isinstance(v, ModSet) and isinstance(node, ast.Name):
            if truth:
                env.vars[node.id] = ModSet(v.names, False)
            else:
                if not v.maybe_none:
                    return []
                env.vars[node.id] = NONE
            return [env]
        if isinstance(v, (ListOf, RegInfo)) and isinstance(node, ast.Name):
            if truth:
                nv = ListOf(v.elem, max(v.lo, 1), v.hi) if isinstance(v, ListOf) else RegInfo(v.name, max(v.lo, 1), v.hi, v.query)
            else:
                nv = Tup([])
            env.vars[node.id] = nv
            return [env]
        return [env]

    # ------------------------------------------------------------------ compare
    def assume_compare(self, node, truth, env):
        if self.is_memo_test(node):
            self.eval(node.left, env)
            return [env]            # whether a key is already memoised depends on the call history
        if len(node.ops) > 1:
            # a op b op c  ==  (a op b) and (b op c)
            parts = []
            left = node.left
            for op, c in zip(node.ops, node.comparators):
                parts.append(ast.Compare(left=left, ops=[op], comparators=[c]))
                left = c
            conj = ast.BoolOp(op=ast.And(), values=parts)
            ast.copy_location(conj, node)
            for p in parts:
                ast.copy_location(p, node)
            return self.assume(conj, truth, env)
        op = node.ops[0]
        L, R = node.left, node.comparators[0]
        S = self.ctx.S
        # ---- len(e) <op> k
        for a, b, flip in ((L, R, False), (R, L, True)):
            if isinstance(a, ast.Call) and isinstance(a.func, ast.Name) and a.func.id == 'len' and len(a.args) == 1:
                bv = self.eval(b, env)
                sv = self.eval(a.args[0], env)
                if isinstance(sv, Str):
                    return self.assume_len(sv, op, bv, flip, truth, env, a.args[0])
                if isinstance(sv, (ListOf, RegInfo)) and isinstance(a.args[0], ast.Name) and isinstance(bv, Int) and bv.const() is not None:
                    return self.assume_list_len(sv, op, bv.const(), flip, truth, env, a.args[0])
        lv = self.eval(L, env)
        rv = self.eval(R, env)
        if env.dead:
            return []
        # day <= calendar.monthrange(year, month)[1]  makes (year, month, day) a real calendar date
        for a, b, aval, o in ((L, R, lv, op), (R, L, rv, {ast.Lt: ast.Gt, ast.Gt: ast.Lt, ast.LtE: ast.GtE, ast.GtE: ast.LtE}.get(type(op), type(op))())):
            if isinstance(b, ast.Subscript) and isinstance(b.value, ast.Call) and ast.unparse(b.value.func).endswith('monthrange') \
                    and isinstance(b.slice, ast.Constant) and b.slice.value == 1 and isinstance(aval, Int) and len(b.value.args) == 2:
                holds = (isinstance(o, ast.Gt) and not truth) or (isinstance(o, ast.LtE) and truth)
                if holds and aval.lo is not None and aval.lo >= 1:
                    y = self.eval(b.value.args[0], env)
                    mth = self.eval(b.value.args[1], env)
                    if isinstance(y, Int) and isinstance(mth, Int):
                        env.facts = env.facts | {('validdate', y.iid, mth.iid, aval.iid)}
        if isinstance(lv, Int) and isinstance(rv, Int) and isinstance(op, (ast.Eq, ast.NotEq)):
            cov = []
            for x in (lv, rv):
                cov.extend(x.alldeps())
            if cov:
                env.facts = env.facts | {('cov', 'compare', 'int') + tuple(cov)}
        # ---- x is None / x is not None (also == / != None)
        if isinstance(op, (ast.Is, ast.IsNot, ast.Eq, ast.NotEq)) and (lv is NONE or rv is NONE) and not (lv is NONE and rv is NONE):
            other, onode = (rv, R) if lv is NONE else (lv, L)
            want_none = isinstance(op, (ast.Is, ast.Eq)) == truth
            if isinstance(other, MatchV):
                # a match object is never None once it exists: `m is not None` is `m` as a condition
                return self.assume_value(other, not want_none, env, onode)
            if isinstance(other, Maybe):
                keep = [a for a in other.alts if (a is NONE or isinstance(a, RegNone)) == want_none]
                if not keep:
                    return []
                if isinstance(onode, ast.Name):
                    nv = keep[0]
                    for a in keep[1:]:
                        nv = Maybe.of(nv, a)
                    env.vars[onode.id] = nv
                return [env]
            if isinstance(other, ModSet):
                return self.assume_value(other, not want_none, env, onode)
            if other is TOP or isinstance(other, RegNone):
                return [env]
            return [] if want_none else [env]
        d = self.compare(op, lv, rv, env, node)
        if d is not None:
            return [env] if d == truth else []
        if isinstance(op, (ast.Eq, ast.NotEq)):
            eq = isinstance(op, ast.Eq) == truth
            if isinstance(lv, Str) and isinstance(rv, Str):
                return self.assume_str_eq(lv, rv, eq, env)
            if isinstance(lv, Int) and isinstance(rv, Int):
                return self.assume_int(L, lv, R, rv, ast.Eq() if eq else ast.NotEq(), env)
            return [env]
        if isinstance(op, (ast.In, ast.NotIn)):
            isin = isinstance(op, ast.In) == truth
            if lv is NONE and isinstance(R, ast.Tuple) and all(isinstance(x, ast.Name) for x in R.elts):
                # None [not] in (a, b, c): refine the variables
                if not isin:
                    for x in R.elts:
                        v = env.vars.get(x.id)
                        if v is NONE:
                            return []
                        if isinstance(v, Maybe):
                            keep = [a for a in v.alts if a is not NONE]
                            if not keep:
                                return []
                            nv = keep[0]
                            for a in keep[1:]:
                                nv = Maybe.of(nv, a)
                            env.vars[x.id] = nv
                    return [env]
                vals = [env.vars.get(x.id) for x in R.elts]
                if all(v is not NONE and not (isinstance(v, Maybe) and any(a is NONE for a in v.alts)) and v is not TOP for v in vals):
                    return []
                return [env]
            return self.assume_in(lv, rv, isin, env, L)
        if isinstance(op, (ast.Lt, ast.LtE, ast.Gt, ast.GtE)):
            if isinstance(lv, Int) and isinstance(rv, Int):
                o = op if truth else {ast.Lt: ast.GtE, ast.LtE: ast.Gt, ast.Gt: ast.LtE, ast.GtE: ast.Lt}[type(op)]()
                return self.assume_int(L, lv, R, rv, o, env)
            return [env]
        if isinstance(op, (ast.Is, ast.IsNot)):
            isn = isinstance(op, ast.Is) == truth
            if rv is NONE and isinstance(lv, Maybe) and isinstance(L, ast.Name):
                keep = [a for a in lv.alts if (a is NONE) == isn]
                if not keep:
                    return []
                nv = keep[0]
                for a in keep[1:]:
                    nv = Maybe.of(nv, a)
                env.vars[L.id] = nv
            return [env]
        return [env]

    def assume_len(self, s, op, k, flip, truth, env, expr):
        S = self.ctx.S
        if isinstance(op, (ast.In, ast.NotIn)):
            vals = None
            if isinstance(k, PyConst) and all(isinstance(x, int) for x in k.v):
                vals = sorted(k.v)
            elif isinstance(k, Tup) and all(isinstance(x, Int) and x.const() is not None for x in k.elems):
                vals = sorted(x.const() for x in k.elems)
            if vals is None:
                return [env]
            isin = isinstance(op, ast.In) == truth
            if isin:
                out = []
                for n in vals:
                    e = env.copy()
                    # the value object is shared between copies; find it again through replace
                    if S.set_len(e, s, n, n) is not None and not e.dead:
                        out.append(e)
                return out
            # not in: exclude values at the borders only
            lo, hi = s.lo or 0, s.hi
            while lo in vals:
                lo += 1
            while hi is not None and hi in vals:
                hi -= 1
            if s.fixed and len(s.pre) in vals:
                return []
            if S.set_len(env, s, lo, hi) is None:
                return []
            return [env]
        if not isinstance(k, Int):
            return [env]
        if flip:
            op = {ast.Lt: ast.Gt, ast.LtE: ast.GtE, ast.Gt: ast.Lt, ast.GtE: ast.LtE}.get(type(op), type(op))()
        if not truth:
            op = {ast.Lt: ast.GtE, ast.LtE: ast.Gt, ast.Gt: ast.LtE, ast.GtE: ast.Lt, ast.Eq: ast.NotEq, ast.NotEq: ast.Eq}[type(op)]()
        c = k.const()
        if isinstance(op, ast.Eq):
            if c is None:
                r = S.set_len(env, s, k.lo or 0, k.hi)
            else:
                r = S.set_len(env, s, c, c)
            return [env] if r is not None else []
        if isinstance(op, ast.NotEq):
            if c is None:
                return [env]
            lo, hi = s.lo or 0, s.hi
            if lo == c and hi == c:
                return []
            if lo == c:
                return [env] if S.set_len(env, s, c + 1, None) is not None else []
            if hi == c:
                return [env] if S.set_len(env, s, 0, c - 1) is not None else []
            # split below / above
            out = []
            e1 = env.copy()
            if S.set_len(e1, s, 0, c - 1) is not None and not e1.dead:
                out.append(e1)
            e2 = env
            if S.set_len(e2, s, c + 1, None) is not None and not e2.dead:
                out.append(e2)
            return out
        if isinstance(op, ast.Lt):
            r = S.set_len(env, s, 0, None if k.hi is None else k.hi - 1)
        elif isinstance(op, ast.LtE):
            r = S.set_len(env, s, 0, k.hi)
        elif isinstance(op, ast.Gt):
            r = S.set_len(env, s, (k.lo if k.lo is not None else -1) + 1, None)
        else:
            r = S.set_len(env, s, k.lo or 0, None)
        return [env] if r is not None else []

    def assume_list_len(self, lst, op, c, flip, truth, env, name):
        if flip:
            op = {ast.Lt: ast.Gt, ast.LtE: ast.GtE, ast.Gt: ast.Lt, ast.GtE: ast.LtE}.get(type(op), type(op))()
        if not truth:
            op = {ast.Lt: ast.GtE, ast.LtE: ast.Gt, ast.Gt: ast.LtE, ast.GtE: ast.Lt, ast.Eq: ast.NotEq, ast.NotEq: ast.Eq}.get(type(op), type(op))()
        lo, hi = lst.lo, lst.hi
        if isinstance(op, ast.Eq):
            lo, hi = max(lo, c), (c if hi is None else min(hi, c))
        elif isinstance(op, ast.NotEq):
            if lo == c:
                lo = c + 1
            if hi == c:
                hi = c - 1
        elif isinstance(op, ast.Lt):
            hi = c - 1 if hi is None else min(hi, c - 1)
        elif isinstance(op, ast.LtE):
            hi = c if hi is None else min(hi, c)
        elif isinstance(op, ast.Gt):
            lo = max(lo, c + 1)
        elif isinstance(op, ast.GtE):
            lo = max(lo, c)
        else:
            return [env]
        if hi is not None and lo > hi:
            return []
        el = self.elem_of(lst, env)
        if hi is not None and lo == hi and hi <= 16:
            env.vars[name.id] = Tup([el] * lo, True)
        elif isinstance(lst, RegInfo):
            env.vars[name.id] = RegInfo(lst.name, lo, hi, lst.query)
        else:
            env.vars[name.id] = ListOf(el, lo, hi)
        return [env]

    def assume_int(self, L, lv, R, rv, op, env):
        def setv(node, v):
            if isinstance(node, ast.Name) and node.id in env.vars:
                old = env.vars[node.id]
                if isinstance(old, Int) and isinstance(v, Int):
                    v._iid = old.iid       # the same runtime integer, only better known
                env.vars[node.id] = v
        lo1, hi1, lo2, hi2 = lv.lo, lv.hi, rv.lo, rv.hi
        mn = lambda a, b: a if b is None else (b if a is None else min(a, b))
        mx = lambda a, b: a if b is None else (b if a is None else max(a, b))
        if isinstance(op, ast.Eq):
            lo, hi = mx(lo1, lo2), mn(hi1, hi2)
            if lo is not None and hi is not None and lo > hi:
                return []
            setv(L, Int(lo, hi)); setv(R, Int(lo, hi))
            return [env]
        if isinstance(op, ast.NotEq):
            c = rv.const()
            if c is not None:
                if lo1 == c and hi1 == c:
                    return []
                if lo1 == c:
                    setv(L, Int(c + 1, hi1))
                elif hi1 == c:
                    setv(L, Int(lo1, c - 1))
            return [env]
        if isinstance(op, (ast.Lt, ast.LtE)):
            d = 1 if isinstance(op, ast.Lt) else 0
            nh = mn(hi1, None if hi2 is None else hi2 - d)
            nl = mx(lo2, None if lo1 is None else lo1 + d)
            if lo1 is not None and nh is not None and lo1 > nh:
                return []
            setv(L, Int(lo1, nh)); setv(R, Int(nl, hi2))
            return [env]
        if isinstance(op, (ast.Gt, ast.GtE)):
            d = 1 if isinstance(op, ast.Gt) else 0
            nl = mx(lo1, None if lo2 is None else lo2 + d)
            nh = mn(hi2, None if hi1 is None else hi1 - d)
            if hi1 is not None and nl is not None and nl > hi1:
                return []
            setv(L, Int(nl, hi1)); setv(R, Int(lo2, nh))
            return [env]
        return [env]

    def _input_cells(self, env):
        """cells of the canonical input (and what was derived from them) in this environment"""
        out = set()
        for f in env.facts:
            if isinstance(f, tuple) and f and f[0] == 'input':
                s_ = env.find_sid(f[1])
                if s_ is not None:
                    out.update(c for c in s_.cells() if not isinstance(c, frozenset))
        return out

    def assume_str_eq(self, a, b, eq, env):
        S = self.ctx.S
        cov = [c for c in list(a.cells()) + list(b.cells()) if not isinstance(c, frozenset)]
        if cov:
            gen = set()
            for f in env.facts:
                if isinstance(f, tuple) and f and f[0] == 'gen':
                    gen.update(f[1:])
            ca = [c for c in a.cells() if not isinstance(c, frozenset)]
            cb = [c for c in b.cells() if not isinstance(c, frozenset)]
            # a comparison checks the characters it reads when the other side is a constant (a component test) or contains
            # generated check characters; comparing the input with its own characters (number == number[::-1]) checks nothing
            one_const = S.const_value(env, a) is not None or S.const_value(env, b) is not None
            if one_const or any(c in gen for c in ca + cb) or set(ca).isdisjoint(cb) and not (set(ca) | set(cb)) <= self._input_cells(env):
                env.facts = env.facts | {('cov', 'compare', '') + tuple(cov)}
            if ca and cb and all(c in gen for c in ca) and all(c in gen for c in cb):
                env.facts = env.facts | {('vacuous', self.ctx.stack[-1][0] if self.ctx.stack else '?', self.ctx.stack[-1][1] if self.ctx.stack else '?')}
        if eq:
            lo = max(a.lo or 0, b.lo or 0)
            hi = a.hi if b.hi is None else (b.hi if a.hi is None else min(a.hi, b.hi))
            if hi is not None and lo > hi:
                return []
            a2 = S.set_len(env, a, lo, hi)
            b2 = S.set_len(env, b, lo, hi)
            if a2 is None or b2 is None:
                return []
            if a2.fixed and b2.fixed and len(a2.pre) == len(b2.pre):
                for x, y in zip(a2.pre, b2.pre):
                    m = env.cls(x) & env.cls(y)
                    S.refine_cell(env, x, m)
                    S.refine_cell(env, y, m)
            else:
                ca, cb = S.join_cls(env, a2), S.join_cls(env, b2)
                S.refine_all(env, a2, cb)
                S.refine_all(env, b2, ca)
            return [env]
        # not equal: enumerate when small
        for x, y in ((a, b), (b, a)):
            cy = S.const_value(env, y)
            if cy is not None and x.fixed and len(x.pre) == len(cy) and len(cy) > 1:
                vals = S.enum_values(env, x, 64)
                if vals is not None:
                    rest = [v for v in vals if v != cy]
                    if not rest:
                        return []
                    for i, cell in enumerate(x.pre):
                        S.refine_cell(env, cell, self.B.cls_of_chars(''.join(v[i] for v in rest)))
                    return [env]
        for x, y in ((a, b), (b, a)):
            cy = S.const_value(env, y)
            if cy is not None and len(cy) == 1 and x.fixed and len(x.pre) == 1:
                S.refine_cell(env, x.pre[0], self.B.ALL - self.B.cls_of_chars(cy))
        return [env]

    def assume_in(self, item, coll, isin, env, item_node):
        S = self.ctx.S
        if not isinstance(item, Str):
            return [env]
        cov = [c for c in item.cells() if not isinstance(c, frozenset)]
        if cov and isinstance(coll, (Str, Tup)):
            env.facts = env.facts | {('cov', 'compare', 'in') + tuple(cov)}
        if isinstance(coll, RegDict):
            k = S.const_value(env, item)
            if k is not None:
                env.facts = env.facts | {('haskey' if isin else 'nokey', coll.rid, k)}
            return [env]
        members = None
        if isinstance(coll, Str):
            cv = S.const_value(env, coll)
            if cv is None:
                if isin and item.hi is not None and item.hi <= 1:
                    S.refine_all(env, item, S.join_cls(env, coll))
                return [env]
            # substring semantics
            if item.hi is not None and item.hi <= 1:
                cls = self.B.cls_of_chars(cv)
                if isin:
                    S.refine_all(env, item, cls)
                    return [env]
                # not in: item is non-empty and its char is outside
                n = S.set_len(env, item, 1, 1)
                if n is None:
                    return []
                S.refine_all(env, n, self.B.ALL - cls)
                return [env]
            if isin:
                S.refine_all(env, item, self.B.cls_of_chars(cv))
                r = S.set_len(env, item, 0, len(cv))
                return [env] if r is not None else []
            return [env]
        if isinstance(coll, PyConst):
            v = coll.v.keys() if isinstance(coll.v, dict) else coll.v
            if all(isinstance(x, str) for x in v):
                members = list(v)
        elif isinstance(coll, Tup):
            ms = [S.const_value(env, x) if isinstance(x, Str) else None for x in coll.elems]
            if all(m is not None for m in ms):
                members = ms
        elif isinstance(coll, DictV):
            members = list(coll.d)
        if members is None:
            if isin:
                env.facts = env.facts | {('member', id(coll.v) if isinstance(coll, PyConst) else repr(coll), skey(item))}
            return [env]
        if isin and not S.enum_values(env, item, 4096) and isinstance(coll, PyConst):
            env.facts = env.facts | {('member', id(coll.v), skey(item))}
        if isin:
            lens = sorted(set(len(m) for m in members))
            out = []
            for n in lens:
                e = env.copy() if len(lens) > 1 else env
                s2 = S.set_len(e, item, n, n)
                if s2 is None or e.dead:
                    continue
                for i in range(n):
                    S.refine_cell(e, s2.pre[i], self.B.cls_of_chars(''.join(m[i] for m in members if len(m) == n)))
                if not e.dead:
                    out.append(e)
            return out
        # not in
        if item.fixed and len(item.pre) == 1 and all(len(m) == 1 for m in members):
            S.refine_cell(env, item.pre[0], self.B.ALL - self.B.cls_of_chars(''.join(members)))
        else:
            vals = S.enum_values(env, item, 64)
            if vals is not None and all(v in members for v in vals):
                return []
        return [env]

    # ------------------------------------------------------------------ calls as conditions
    def assume_call(self, node, truth, env):
        S = self.ctx.S
        f = node.func
        # all(x in A for x in e) / any(x not in A for x in e)
        if isinstance(f, ast.Name) and f.id in ('all', 'any') and len(node.args) == 1 and isinstance(node.args[0], ast.GeneratorExp):
            g = node.args[0]
            if len(g.generators) == 1 and not g.generators[0].ifs and isinstance(g.generators[0].target, ast.Name) \
                    and isinstance(g.elt, ast.Compare) and len(g.elt.ops) == 1 and isinstance(g.elt.left, ast.Name) \
                    and g.elt.left.id == g.generators[0].target.id:
                opn = g.elt.ops[0]
                positive = (f.id == 'all' and isinstance(opn, ast.In) and truth) or (f.id == 'any' and isinstance(opn, ast.NotIn) and not truth)
                sv = self.eval(g.generators[0].iter, env)
                coll = self.eval(g.elt.comparators[0], env)
                cls = self.collection_char_cls(coll, env)
                if isinstance(sv, Str) and cls is not None:
                    if positive:
                        S.refine_all(env, sv, cls)
                        return [env]
                    # negative branch: at least one char outside: infeasible if all chars inside
                    if (isinstance(opn, ast.In) and f.id == 'all') or (isinstance(opn, ast.NotIn) and f.id == 'any'):
                        if S.all_in(env, sv, cls):
                            return []
                    return [env]
            return None
        if isinstance(f, ast.Name) and f.id == 'bool' and len(node.args) == 1:
            return self.assume(node.args[0], truth, env)
        fv = None
        if isinstance(f, (ast.Name, ast.Attribute)):
            try_fv = self.eval(f, env.copy()) if isinstance(f, ast.Attribute) else self.eval(f, env)
            if isinstance(try_fv, Func) and (try_fv.mod, try_fv.name) not in self.SUMMARISED:
                args = [self.eval(x, env) for x in node.args]
                kwargs = {k.arg: self.eval(k.value, env) for k in node.keywords if k.arg}
                outs = self.call_func(try_fv, args, kwargs, node, env.copy(), multi=True)
                res = []
                for e, v in outs or []:
                    res.extend(self.assume_value(v, truth, e, node))
                return res
        if isinstance(f, ast.Attribute):
            obj = self.eval(f.value, env)
            name = f.attr
            if isinstance(obj, Str):
                if name in ('isdigit', 'isalpha', 'isalnum', 'isdecimal', 'isspace'):
                    cls = self.pred_cls_of_method(name)
                    if truth:
                        n = S.set_len(env, obj, 1, None)
                        if n is None:
                            return []
                        S.refine_all(env, n, cls)
                        return [env]
                    if obj.fixed and len(obj.pre) == 1:
                        S.refine_cell(env, obj.pre[0], self.B.ALL - cls)
                    elif (obj.lo or 0) >= 1 and S.all_in(env, obj, cls):
                        return []
                    return [env]
                if name in ('startswith', 'endswith') and len(node.args) == 1:
                    pv = self.eval(node.args[0], env)
                    # a tuple of alternatives: s.startswith(('1', '3')) is s.startswith('1') or s.startswith('3')
                    alts_ = None
                    if isinstance(pv, PyConst) and isinstance(pv.v, tuple) and pv.v and all(isinstance(x, str) for x in pv.v):
                        alts_ = list(pv.v)
                    elif isinstance(pv, Tup) and pv.elems and all(isinstance(x, Str) and S.const_value(env, x) is not None for x in pv.elems):
                        alts_ = [S.const_value(env, x) for x in pv.elems]
                    if alts_ is not None:
                        calls = [ast.copy_location(ast.Call(func=node.func, args=[ast.copy_location(ast.Constant(value=a_), node)], keywords=[]), node) for a_ in alts_]
                        disj = calls[0] if len(calls) == 1 else ast.copy_location(ast.BoolOp(op=ast.Or(), values=calls), node)
                        return self.assume(disj, truth, env)
                    t = self.starts_truth(obj, pv, name == 'startswith', env)
                    if t is not None:
                        return [env] if t == truth else []
                    p = S.const_value(env, pv) if isinstance(pv, Str) else None
                    if p is None:
                        return [env]
                    if not truth:
                        # remember that this very string does not start/end with p (not a per-character fact)
                        env.facts = env.facts | {('no' + name, obj.sid, p)}
                    if truth:
                        n = S.set_len(env, obj, len(p), None)
                        if n is None:
                            return []
                        part = S.slice(env, n, 0, len(p)) if name == 'startswith' else S.slice(env, n, -len(p), None)
                        for c, ch in zip(part.pre, p):
                            S.refine_cell(env, c, self.B.cls_of_chars(ch))
                        if name == 'startswith' and len(p) == 2 and ('ibanstruct', obj.sid) in env.facts and self.iban_structs is not None:
                            st = self.iban_structs.get(p)
                            if st is None:
                                return []          # no such country in the registry: the structure match cannot have succeeded
                            m = S.set_len(env, n, 4 + len(st), 4 + len(st))
                            if m is None or env.dead:
                                return []
                            for c, cls in zip(m.pre[4:], st):
                                S.refine_cell(env, c, cls)
                            if env.dead:
                                return []
                        return [env]
                    if len(p) == 1 and (obj.lo or 0) >= 1:
                        part, _ = S.index(env, obj, 0 if name == 'startswith' else -1)
                        S.refine_cell(env, part.pre[0], self.B.ALL - self.B.cls_of_chars(p))
                    return [env]
            if isinstance(obj, RegexV) and name in ('match', 'search', 'fullmatch') and len(node.args) == 1:
                sv = self.eval(node.args[0], env)
                if isinstance(sv, Str):
                    if obj.reg is not None and truth and obj.lang is None:
                        # the BBAN (query[4:]) matched the structure registered for the query's country
                        if sv.parent is not None and sv.parent[0] == obj.reg[2] and sv.parent[1] == 4 and sv.parent[2] == 0:
                            env.facts = env.facts | {('ibanstruct', obj.reg[2])}
                        return [env]
                    return self.match_refine(obj.lang.anchored(name) if obj.lang is not None else None, sv, truth, env)
            if isinstance(obj, Ext) and obj.name == 're' and name in ('match', 'search') and len(node.args) >= 2:
                pv = self.eval(node.args[0], env)
                sv = self.eval(node.args[1], env)
                pat = S.const_value(env, pv) if isinstance(pv, Str) else None
                if pat is not None and isinstance(sv, Str):
                    fl = None
                    if len(node.args) > 2:
                        fl = self.eval(node.args[2], env)
                    for k in node.keywords:
                        if k.arg == 'flags':
                            fl = self.eval(k.value, env)
                    flags = self.regex_flags(fl)
                    if flags is None:
                        return [env]
                    lg = self.regex_lang(pat, flags)
                    return self.match_refine(lg.anchored(name) if lg is not None else None, sv, truth, env)
        return None

    # ------------------------------------------------------------------ regex refinement
    def match_truth(self, lang, s, env):
        if lang is None or not lang.ok or not lang.anch_start:
            return None
        S = self.ctx.S
        feasible = False
        for alt in lang.alts:
            r = self._alt_covers(lang, alt, s, env)
            if r is True:
                return True
            if r is None:
                feasible = True
        return None if feasible else False

    def _alt_covers(self, lang, alt, s, env):
        """True: every string denoted by s matches alt; False: none can; None: unknown."""
        items = alt.items
        lo = sum(it.lo for it in items)
        hi = None if any(it.hi is None for it in items) else sum(it.hi for it in items)
        slo, shi = s.lo or 0, s.hi
        extra = 1 if lang.anch_end == 'dollar' else 0
        if lang.anch_end is not None:
            if shi is not None and shi < lo:
                return False
            if hi is not None and slo > hi + extra:
                return False
        # definite cover only for the simple shapes
        if all(it.fixed() and it.lo == 1 for it in items):
            if s.fixed and len(s.pre) == len(items) and lang.anch_end is not None:
                if all(env.cls(c) <= it.cls for c, it in zip(s.pre, items)):
                    return True
                if any(not (env.cls(c) & it.cls) for c, it in zip(s.pre, items)):
                    return False
            return None
        if len(items) == 1 and lang.anch_end is not None:
            it = items[0]
            if slo >= it.lo and (it.hi is None or (shi is not None and shi <= it.hi)) and all(env.cls(c) <= it.cls for c in s.cells()):
                return True
        return None

    def match_refine(self, lang, s, truth, env, bind=None):
        S = self.ctx.S
        if lang is None or not lang.ok or not lang.anch_start:
            if bind is not None and truth:
                env.vars[bind.id] = MatchV(lang, s, None, False)
            return [env]
        if truth and ('nomatch', lang.pattern, skey(s)) in env.facts:
            return []
        t = self.match_truth(lang, s, env)
        if t is not None:
            if t != truth:
                return []
            if not truth:
                return [env]
        if not truth:
            env.facts = env.facts | {('nomatch', lang.pattern, skey(s))}
            # single class pattern on a single character: complement
            if len(lang.alts) == 1 and len(lang.alts[0].items) == 1 and s.fixed and len(s.pre) == 1:
                S.refine_cell(env, s.pre[0], self.B.ALL - lang.alts[0].items[0].cls)
            return [env]
        out = []
        variants = []
        for alt in lang.alts:
            variants.append((alt, False))
            if lang.anch_end == 'dollar':
                variants.append((alt, True))
        multi = len(variants) > 1
        for alt, nl in variants:
            e = env.copy() if multi else env
            m = self._refine_alt(lang, alt, nl, s, e)
            if m is None or e.dead:
                continue
            if bind is not None:
                e.vars[bind.id] = MatchV(lang, m, alt, False, nl)
            out.append(e)
        return out

    def _alt_feasible_fixed(self, items, classes, open_end, nl):
        """Can a string whose i-th character lies in classes[i] match the item sequence (from the start; up to the
        end unless open_end; nl: one line feed after the match)?  Exact simulation over positions."""
        n = len(classes) - (1 if nl else 0)
        if n < 0 or (nl and not (classes[-1] & self.ctx.S.NL)):
            return False
        reach = {0}
        for it in items:
            nxt = set()
            for p in reach:
                k = 0
                q = p
                while True:
                    if k >= it.lo:
                        nxt.add(q)
                    if q >= n or (it.hi is not None and k >= it.hi) or not (classes[q] & it.cls):
                        break
                    q += 1
                    k += 1
            reach = nxt
            if not reach:
                return False
        return True if open_end else (n in reach)

    def _refine_alt(self, lang, alt, nl, s, env):
        S = self.ctx.S
        items = list(alt.items)
        if not s.fixed and s.hi is not None and (s.lo or 0) == s.hi:
            s = S.set_len(env, s, s.hi, s.hi) or s
        if s.fixed and not self._alt_feasible_fixed(items, [env.cls(c) for c in s.pre], lang.anch_end is None, nl):
            return None
        lo = sum(it.lo for it in items)
        hi = None if any(it.hi is None for it in items) else sum(it.hi for it in items)
        open_end = lang.anch_end is None
        npre = 0
        while npre < len(items) and items[npre].fixed() and items[npre].lo == 1:
            npre += 1
        if open_end:
            s2 = S.set_len(env, s, lo, None)
            if s2 is None:
                return None
            s2 = S.ensure_pre(env, s2, npre) if not s2.fixed else s2
            for i in range(min(npre, len(s2.pre))):
                S.refine_cell(env, s2.pre[i], items[i].cls)
            return s2
        extra = 1 if nl else 0
        s2 = S.set_len(env, s, lo + extra, None if hi is None else hi + extra)
        if s2 is None:
            return None
        nsuf = 0
        while nsuf < len(items) - npre and items[-1 - nsuf].fixed() and items[-1 - nsuf].lo == 1:
            nsuf += 1
        mid = items[npre:len(items) - nsuf]
        midcls = frozenset().union(*[it.cls for it in mid]) if mid else frozenset()
        sufitems = [it.cls for it in reversed(items[len(items) - nsuf:])] if nsuf else []
        if nl:
            sufitems = [S.NL] + sufitems
        if s2.fixed:
            n = len(s2.pre)
            for i, c in enumerate(s2.pre):
                j = n - 1 - i
                if i < npre:
                    S.refine_cell(env, c, items[i].cls)
                elif j < len(sufitems):
                    S.refine_cell(env, c, sufitems[j])
                else:
                    S.refine_cell(env, c, midcls)
            return s2
        # an open repeat right after the fixed prefix / right before the fixed suffix fixes that many more positions
        lead = []
        if npre < len(items) - nsuf and items[npre].lo >= 1:
            lead = [items[npre].cls] * min(items[npre].lo, 8)
        trail = []
        if len(items) - nsuf - 1 >= npre and items[len(items) - nsuf - 1].lo >= 1 and (len(items) - nsuf - 1 > npre or not lead):
            trail = [items[len(items) - nsuf - 1].cls] * min(items[len(items) - nsuf - 1].lo, 8)
        s2 = S.ensure_pre(env, s2, npre + len(lead))
        s2 = S.ensure_suf(env, s2, len(sufitems) + len(trail))
        anysuf = frozenset().union(*sufitems) if sufitems else frozenset()
        anypre = frozenset().union(*[it.cls for it in items[:npre]]) if npre else frozenset()
        lo2 = s2.lo or 0
        dl = s2.parent[1] if s2.parent else 0
        dr = s2.parent[2] if s2.parent else 0
        for i, c in enumerate(s2.pre):
            if i < npre:
                S.refine_cell(env, c, items[i].cls, must=True)
            elif i - npre < len(lead):
                S.refine_cell(env, c, lead[i - npre], must=True)
            else:
                # position i is one of the fixed suffix items only in a string of at most i + len(sufitems) characters
                S.refine_cell(env, c, midcls | anysuf if lo2 <= i + len(sufitems) else midcls, must=False)
        for j, c in enumerate(s2.suf):
            if j < len(sufitems):
                S.refine_cell(env, c, sufitems[j], must=True)
            elif j - len(sufitems) < len(trail):
                S.refine_cell(env, c, trail[j - len(sufitems)], must=True)
            else:
                S.refine_cell(env, c, midcls | anypre if lo2 <= j + npre else midcls, must=False)
        S.refine_cell(env, s2.body, midcls, must=False)
        S._check_feasible(env, s2)
        return s2
