"""WSNF - weighted-sum normal form of an inline check digit generator.

The generator is executed abstractly on a payload of fixed length whose characters are distinct
cells.  Integer values carry an affine form over the cells (int(c) -> digit value, A.index(c) ->
index in A, products with constants, sums, unrolled loops).  The first `% M` applied to a
non-constant form is the normal-form point: the form modulo M gives the modulus, the constant
and the weight of every input position.  The rest of the function (what is done with the
residue) is tabulated by re-running it with that `%` forced to each residue 0..M-1, which yields
the residue -> check character table.  `(11 - sum((10 - i) * d_i)) % 11` and
`sum((i + 1) * d_i) % 11` therefore get the same normal form."""
from .values import *


class Normal:
    def __init__(self, M, const, weights, kinds, table, length):
        self.M, self.const, self.weights, self.kinds, self.table, self.length = M, const, weights, kinds, table, length

    def as_dict(self):
        return {'M': self.M, 'const': self.const, 'weights': self.weights, 'kinds': self.kinds, 'table': self.table, 'length': self.length}

    def check_weight(self, values):
        """weight u of the check character such that a number is valid iff const + sum(w_i v_i) + u * val(c) == 0 (mod M),
        when the residue -> character table is affine in val(c); None otherwise.
        values: character -> integer value."""
        M = self.M
        pts = []
        for r, ch in self.table.items():
            if ch is None or ch not in values:
                return None
            pts.append((r, values[ch] % M))
        # find u with r + u * val == 0 (mod M) for all residues (i.e. r == -u val)
        for u in range(1, M):
            if all((r + u * v) % M == 0 for r, v in pts):
                return u
        return None


def normal_form(I, mod, fname, classes, arg_builder=None):
    """classes: list of character classes (frozensets of blocks), one per payload position."""
    S, B = I.ctx.S, I.B
    fn = I.prog.mods[mod].funcs[fname]
    found = {}

    def run(force=None):
        env = Env()
        I.ctx.scopes = [[]]
        I.ctx.stack = [(mod, '<entry>')]
        I.closures = []
        cells = [env.new_cell(c) for c in classes]
        arg = Str(cells)

        def hook(node, form, M):
            key = (getattr(node, 'lineno', 0), getattr(node, 'col_offset', 0))
            if force is None:
                found.setdefault(key, (form, M))
                return None
            if key == force[0]:
                return Int(force[1], force[1])
            return None
        I.mod_hook = hook
        try:
            args = [arg] if arg_builder is None else arg_builder(env, arg)
            v = I.call_func(Func(mod, fname), args, {}, fn, env)
        finally:
            I.mod_hook = None
        return env, v, cells
    env, v, cells = run()
    if not found:
        return None
    key = sorted(found)[0]
    form, M = found[key]
    pos = {c: i for i, c in enumerate(cells)}
    L = len(classes)
    weights = [0] * L
    kinds = [None] * L
    for (kind, cell), coef in form[0].items():
        if cell not in pos:
            return None
        weights[pos[cell]] = coef % M
        kinds[pos[cell]] = kind
    table = {}
    for r in range(M):
        e, vv, _ = run((key, r))
        table[r] = S.const_value(e, vv) if isinstance(vv, Str) else None
    return Normal(M, form[1] % M, weights, kinds, table, L)
