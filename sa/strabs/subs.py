"""Subscripts, attributes, iteration, comprehensions, formatting."""
import ast, re
from .values import *
from .joins import Maybe
from .expr import DictV

DEADALT = object()
FMT_RE = re.compile(r'%(?:\((\w+)\))?([-0 +#]*)(\d+)?(?:\.(\d+))?([sdXxr%])')


class Subs:
    # ---------------------------------------------------------- subscripts
    def const_index(self, node, env):
        v = self.eval(node, env)
        if isinstance(v, Int):
            return v.const(), v
        if v is NONE:
            return None, v
        return None, v

    def ev_Subscript(self, node, env):
        S = self.ctx.S
        base = self.eval(node.value, env)
        if self.ctx.stack and not isinstance(node.slice, ast.Slice):
            self.ctx.visited.add((self.ctx.stack[-1][0], node.lineno, node.col_offset, 'subscript'))
        if isinstance(base, Maybe):
            res = None
            for alt in base.alts:
                r = self.subscript(alt, node, env)
                res = r if res is None else self.join(res, r, env)
            return res
        return self.subscript(base, node, env)

    def slice_bounds(self, sl, env):
        def b(n):
            if n is None:
                return None, True
            v = self.eval(n, env)
            if v is NONE:
                return None, True
            if isinstance(v, Int) and v.const() is not None:
                return v.const(), True
            return v, False
        a, oka = b(sl.lower)
        c, okc = b(sl.upper)
        s, oks = b(sl.step)
        return a, c, s, (oka and okc and oks)

    def subscript(self, base, node, env):
        S = self.ctx.S
        sl = node.slice
        if isinstance(sl, ast.Slice):
            a, c, st, ok = self.slice_bounds(sl, env)
            if isinstance(base, Str):
                if ok:
                    return S.slice(env, base, a, c, st)
                return S.any_str(env, 0, base.hi, S.join_cls(env, base))
            if isinstance(base, Tup):
                if ok:
                    return Tup(base.elems[a:c:st], base.mutable)
                return ListOf(self._elem_join(base, env), 0, len(base.elems))
            if isinstance(base, PyConst) and isinstance(base.v, (tuple, list, str)):
                if ok:
                    return self.from_py(base.v[a:c:st], env)
                return ListOf(self.elem_of(base, env), 0, len(base.v))
            if isinstance(base, (ListOf, RegInfo)):
                lo, hi = base.lo, base.hi
                drop = 0
                if ok:
                    for x in (a, c):
                        if x is not None:
                            drop += abs(x)
                return ListOf(self.elem_of(base, env), max(0, lo - drop) if ok else 0, hi)
            if isinstance(base, Opaque) and base.kind in ('bytes',):
                return base
            self.ctx.raise_('TypeError', node, env, 'slice of %r' % (base,))
            return TOP
        # index
        idx = self.eval(sl, env)
        if isinstance(base, Str):
            if isinstance(idx, Int):
                c = idx.const()
                if c is not None:
                    r, safe = S.index(env, base, c)
                    if not safe:
                        self.ctx.raise_('IndexError', node, env, 'index %d, length %s..%s' % (c, base.lo, base.hi))
                    return r
                lo = base.lo or 0
                if not (idx.lo is not None and idx.hi is not None and -lo <= idx.lo and idx.hi < lo):
                    self.ctx.raise_('IndexError', node, env, 'index %r, length %s..%s' % (idx, base.lo, base.hi))
                if base.fixed and idx.lo is not None and idx.hi is not None and idx.lo >= 0 and idx.hi < len(base.pre):
                    cls = frozenset().union(*[env.cls(c) for c in base.pre[idx.lo:idx.hi + 1]])
                    return Str([env.new_cell(cls)])
                return Str([env.new_cell(S.join_cls(env, base))])
            self.ctx.raise_('TypeError', node, env, 'str index %r' % (idx,))
            return S.any_str(env, 1, 1)
        if isinstance(base, (Tup, PyConst)) and not (isinstance(base, PyConst) and isinstance(base.v, (dict, set, frozenset))):
            elems = base.elems if isinstance(base, Tup) else [self.from_py(x, env) for x in base.v]
            n = len(elems)
            if isinstance(idx, Int):
                c = idx.const()
                if c is not None:
                    if -n <= c < n:
                        return elems[c]
                    self.ctx.raise_('IndexError', node, env, 'index %d of sequence length %d' % (c, n))
                    return TOP
                if idx.lo is not None and idx.hi is not None and -n <= idx.lo and idx.hi < n:
                    res = None
                    rng = range(idx.lo, idx.hi + 1)
                    for i in rng:
                        res = elems[i] if res is None else self.join(res, elems[i], env)
                    return res
                self.ctx.raise_('IndexError', node, env, 'index %r of sequence length %d' % (idx, n))
                return self.elem_of(base, env)
            if isinstance(idx, Bool):
                return self.join(elems[0], elems[1], env) if n >= 2 else TOP
            self.ctx.raise_('TypeError', node, env, 'sequence index %r' % (idx,))
            return TOP
        if isinstance(base, PyConst) and isinstance(base.v, dict):
            if not base.v and isinstance(node.value, ast.Name):
                key = (self.ctx.stack[-1][0], node.value.id)
                if key in self.memo:
                    r = self.memo[key]
                    if isinstance(r, ModSet) and ('nn', ast.dump(node)) in env.facts:
                        r = ModSet(r.names, False)
                    return r
            return self.dict_lookup(base.v, idx, env, node, strict=True)
        if isinstance(base, DictV):
            key = S.const_value(env, idx) if isinstance(idx, Str) else (idx.const() if isinstance(idx, Int) else None)
            if key is not None and key in base.d:
                return base.d[key]
            ks = S.enum_values(env, idx, 256) if isinstance(idx, Str) else (list(range(idx.lo, idx.hi + 1)) if isinstance(idx, Int) and idx.lo is not None and idx.hi is not None and idx.hi - idx.lo < 256 else None)
            if ks is not None and all(k in base.d for k in ks):
                res = None
                for k in ks:
                    res = base.d[k] if res is None else self.join(res, base.d[k], env)
                return res
            if isinstance(idx, Str) and ks is None:
                keyc = self.B.cls_of_chars(''.join(k for k in base.d if isinstance(k, str) and len(k) == 1))
                if idx.fixed and len(idx.pre) == 1 and not all(isinstance(k, str) and len(k) == 1 for k in base.d):
                    pass
            self.ctx.raise_('KeyError', node, env, 'dict literal key %r' % (idx,))
            if isinstance(idx, Str) and idx.fixed and len(idx.pre) == 1:
                S.refine_all(env, idx, self.B.cls_of_chars(''.join(k for k in base.d if isinstance(k, str) and len(k) == 1)))
            res = None
            for v in base.d.values():
                res = v if res is None else self.join(res, v, env)
            return res if res is not None else TOP
        if isinstance(base, (ListOf, RegInfo)):
            lo = base.lo
            if isinstance(idx, Int) and idx.const() is not None:
                c = idx.const()
                if not ((c >= 0 and lo > c) or (c < 0 and lo >= -c)):
                    self.ctx.raise_('IndexError', node, env, 'index %d of list with length %s..%s' % (c, base.lo, base.hi))
            else:
                self.ctx.raise_('IndexError', node, env, 'index %r of list' % (idx,))
            return self.instance_of(self.elem_of(base, env), env) if isinstance(base, ListOf) else self.elem_of(base, env)
        if isinstance(base, RegDict):
            key = S.const_value(env, idx) if isinstance(idx, Str) else None
            if key is not None and ('haskey', base.rid, key) in env.facts:
                return S.any_str(env)
            if key is None:
                self.ctx.raise_('KeyError', node, env, 'registry %s subscripted with a non-constant key' % base.name)
                return S.any_str(env)
            given = tuple(sorted(f[2] for f in env.facts if isinstance(f, tuple) and len(f) == 3 and f[0] == 'haskey' and f[1] == base.rid))
            self.ctx.raise_('KeyError', node, env, 'registry %s: property %r must be present%s' % (base.name, key, (' when %s is' % ','.join(given)) if given else ''),
                            reg=(base.name, key, given))
            return S.any_str(env)
        if isinstance(base, Opaque) and base.kind == 'defaultdict_int':
            return Int(0, None)
        if isinstance(base, Opaque) and base.kind in ('bytes', 'dict', 'list', 'json'):
            if base.kind == 'bytes':
                return Int(0, 255)
            self.ctx.raise_('KeyError', node, env, 'subscript of %r' % (base,))
            return TOP
        if isinstance(base, MatchV):
            return self.match_group(base, [idx], env, node)
        self.ctx.raise_('TypeError', node, env, 'subscript of %r' % (base,))
        return TOP

    def dict_lookup(self, d, key, env, node, strict, default=None):
        S = self.ctx.S
        vals = None
        if isinstance(key, Str):
            ks = S.enum_values(env, key, 512)
            if ks is not None:
                missing = [k for k in ks if k not in d]
                if missing and strict:
                    self.ctx.raise_('KeyError', node, env, 'keys %r not in dict' % (missing[:4],))
                    if key.fixed:
                        for i, cell in enumerate(key.pre):
                            S.refine_cell(env, cell, self.B.cls_of_chars(''.join(k[i] for k in d if isinstance(k, str) and len(k) == len(key.pre))))
                vals = [d[k] for k in ks if k in d]
                if missing and not strict:
                    vals.append(default)
        elif isinstance(key, Int):
            if key.lo is not None and key.hi is not None and key.hi - key.lo < 512:
                ks = list(range(key.lo, key.hi + 1))
                missing = [k for k in ks if k not in d]
                if missing and strict:
                    self.ctx.raise_('KeyError', node, env, 'keys %r not in dict' % (missing[:4],))
                vals = [d[k] for k in ks if k in d]
                if missing and not strict:
                    vals.append(default)
        if vals is None:
            if strict and ('member', id(d), skey(key)) not in env.facts:
                self.ctx.raise_('KeyError', node, env, 'key %r not provably in dict' % (key,))
            vals = list(d.values()) + ([default] if not strict else [])
        res = None
        for v in vals:
            av = v if not isinstance(v, (str, int, tuple, list, dict, set, frozenset, bool, type(None))) else self.from_py(v, env)
            res = av if res is None else self.join(res, av, env)
        return res if res is not None else TOP

    # ---------------------------------------------------------- attributes
    def ev_Attribute(self, node, env):
        base = self.eval(node.value, env)
        r = self.getattr(base, node.attr, node, env)
        if r is DEADALT:
            env.dead = True
            return TOP
        return r

    def getattr(self, base, attr, node, env):
        if isinstance(base, Mod):
            m = self.ctx.prog.mods[base.name]
            r = self.ctx.prog.resolve_name(m, attr)
            if r is not None:
                return self.from_resolution(r, env, m, attr)
            sub = base.name + '.' + attr
            if sub in self.ctx.prog.mods:
                return Mod(sub)
            if attr == '__name__':
                return self.ctx.S.const(base.name)
            if attr in m.assign_nodes:
                self.ctx.stack.append((base.name, '<module>'))
                try:
                    return self.global_name(attr, node, env)
                finally:
                    self.ctx.stack.pop()
            self.ctx.raise_('AttributeError', node, env, 'module %s has no %s' % (base.name, attr))
            return TOP
        if isinstance(base, ModSet) and len(base.names) > 30 and attr in ('validate', 'compact', 'is_valid', 'format'):
            if base.maybe_none:
                self.ctx.raise_('AttributeError', node, env, 'module may be None')
            return Ext('contract.' + attr)
        if isinstance(base, ModSet):
            res = None
            for n in base.names:
                r = self.getattr(Mod(n), attr, node, env)
                res = r if res is None else (r if (isinstance(res, Func) and isinstance(r, Func) and False) else self._join_funcs(res, r, env))
            if base.maybe_none:
                self.ctx.raise_('AttributeError', node, env, 'module may be None')
            return res
        if isinstance(base, Ext):
            return Ext(base.name + '.' + attr)
        if isinstance(base, Opaque) and base.kind in ('date', 'datetime') and attr in ('year', 'month', 'day'):
            return Int(1, 9999 if attr == 'year' else (12 if attr == 'month' else 31))
        if isinstance(base, (Str, Int, Tup, ListOf, PyConst, DictV, RegexV, MatchV, Opaque, RegDB, RegInfo, RegDict, Bool)):
            return BoundMethod(base, attr)
        if isinstance(base, Maybe):
            res = None
            for alt in base.alts:
                r = self.getattr(alt, attr, node, env)
                if r is DEADALT:
                    continue
                res = r if res is None else MethodSet.of(res, r)
            if res is None:
                env.dead = True
                return TOP
            return res
        if isinstance(base, RegNone):
            # <props>.get(key) used as if the key were always present: obligation for the registry check;
            # this alternative does not continue
            self.ctx.raise_('AttributeError', node, env, 'registry %s: property %r must be present (its value is used unconditionally)' % (base.name, base.key),
                            reg=(base.name, base.key, ()))
            return DEADALT
        if base is NONE or base is TOP:
            self.ctx.raise_('AttributeError', node, env, 'attribute %s of %r' % (attr, base))
            return TOP
        if isinstance(base, Func):
            return TOP
        return TOP

    def _join_funcs(self, a, b, env):
        if isinstance(a, FuncSet):
            return FuncSet(a.funcs + [b])
        return FuncSet([a, b])

    # ---------------------------------------------------------- iteration
    def abs_iter(self, v, env, node, link=False):
        """-> ('list', [values]) | ('many', (elem, lo, hi)).  link=True: the traversal is complete on the
        normal path, so a refinement of the summary element holds for every character."""
        S = self.ctx.S
        if isinstance(v, Str):
            if v.fixed and len(v.pre) <= 64:
                return 'list', [Str([c]) for c in v.pre]
            cell = env.new_cell(S.join_cls(env, v))
            if link:
                from .strops import DERIVED
                DERIVED[cell] = [(c, None) for c in v.cells() if not isinstance(c, frozenset)]
            return 'many', (Str([cell]), v.lo or 0, v.hi)
        if isinstance(v, Tup):
            return 'list', list(v.elems)
        if isinstance(v, PyConst):
            if isinstance(v.v, dict):
                return 'list', [self.from_py(k, env) for k in v.v]
            if isinstance(v.v, (tuple, list)):
                return 'list', [self.from_py(x, env) for x in v.v]
            return 'list', [self.from_py(x, env) for x in sorted(v.v, key=repr)]
        if isinstance(v, ListOf):
            return 'many', (v.elem, v.lo, v.hi)
        if isinstance(v, RegInfo):
            return 'many', (self.elem_of(v, env), v.lo, v.hi)
        if isinstance(v, AbsIter):
            return v.kind, v.data
        if isinstance(v, DictV):
            return 'list', [S.const(k) for k in v.d]
        if isinstance(v, Opaque) and v.kind in ('bytes',):
            return 'many', (Int(0, 255), 0, None)
        if isinstance(v, Opaque) and v.kind in ('dict', 'list', 'iter'):
            return 'many', (TOP, 0, None)
        self.ctx.raise_('TypeError', node, env, 'iteration over %r' % (v,))
        return 'many', (TOP, 0, None)

    def unpack(self, v, n, env, node):
        kind, data = self.abs_iter(v, env, node) if not isinstance(v, Tup) else ('list', v.elems)
        if kind == 'list':
            if len(data) != n:
                self.ctx.raise_('ValueError', node, env, 'unpack %d values into %d targets' % (len(data), n))
                return [TOP] * n
            return data
        elem, lo, hi = data
        if not (lo == n and hi == n):
            self.ctx.raise_('ValueError', node, env, 'unpack sequence of length %s..%s into %d targets' % (lo, hi, n))
        return [self.instance_of(elem, env) for _ in range(n)]

    # ---------------------------------------------------------- comprehensions
    def comp_values(self, elt_nodes, generators, env, node):
        """Evaluate a comprehension; returns AbsIter of element values (elt may be several nodes -> Tup)."""
        results = []
        many = [False]
        lo_hi = [1, 1]

        def rec(gi, e):
            if gi == len(generators):
                vals = [self.eval(n, e) for n in elt_nodes]
                results.append(vals[0] if len(vals) == 1 else Tup(vals))
                return
            g = generators[gi]
            it = self.eval(g.iter, e)
            kind, data = self.abs_iter(it, e, g.iter, link=not g.ifs)
            if kind == 'list' and len(data) <= 64:
                for x in data:
                    e2 = e
                    self.assign(g.target, x, e2, node)
                    envs = [e2]
                    for cond in g.ifs:
                        nxt = []
                        for ee in envs:
                            t_ = self.assume(cond, True, ee.copy())
                            f_ = self.assume(cond, False, ee.copy())
                            if t_ and f_:
                                many[0] = True      # the element may or may not be part of the result
                            nxt.extend(t_)
                        envs = nxt
                    for ee in envs:
                        rec(gi + 1, ee)
            else:
                if kind == 'list':
                    el = None
                    for x in data:
                        el = x if el is None else self.join(el, x, e)
                    lo = hi = len(data)
                else:
                    el, lo, hi = data
                many[0] = True
                lo_hi[0] = 0 if g.ifs else (lo_hi[0] * (lo or 0))
                lo_hi[1] = None if (hi is None or lo_hi[1] is None) else lo_hi[1] * hi
                self.assign(g.target, el, e, node)
                envs = [e]
                for cond in g.ifs:
                    nxt = []
                    for ee in envs:
                        nxt.extend(self.assume(cond, True, ee.copy()))
                    envs = nxt
                for ee in envs:
                    rec(gi + 1, ee)

        # comprehension variables live in the same frame in this prototype; save/restore
        saved = dict(env.vars)
        rec(0, env)
        env.frames[-1] = saved
        if many[0]:
            el = None
            for x in results:
                el = x if el is None else self.join(el, x, env)
            return AbsIter('many', (el if el is not None else TOP, lo_hi[0] if results else 0, lo_hi[1]))
        return AbsIter('list', results)

    def ev_GeneratorExp(self, node, env):
        r = self.comp_values([node.elt], node.generators, env, node)
        if len(node.generators) == 1 and not node.generators[0].ifs:
            src = self.eval(node.generators[0].iter, env.copy())
            if isinstance(src, Str):
                # the copy shares value objects with env, so identity links stay meaningful
                r.source = src
        return r

    def ev_ListComp(self, node, env):
        it = self.comp_values([node.elt], node.generators, env, node)
        if it.kind == 'list':
            return Tup(it.data, True)
        return ListOf(*it.data)

    ev_SetComp = ev_ListComp

    def ev_DictComp(self, node, env):
        self.comp_values([node.key, node.value], node.generators, env, node)
        return Opaque('dict')

    # ---------------------------------------------------------- % formatting
    def str_format(self, fmt, arg, env, node):
        S = self.ctx.S
        f = S.const_value(env, fmt)
        if f is None:
            return S.any_str(env)
        args = arg.elems if isinstance(arg, Tup) else [arg]
        named = isinstance(arg, (DictV,)) or (isinstance(arg, Opaque) and arg.kind == 'dict')
        out = S.const('')
        pos = 0
        ai = 0
        for m in FMT_RE.finditer(f):
            out = S.concat(env, out, S.const(f[pos:m.start()]))
            pos = m.end()
            key, flags, width, prec, conv = m.groups()
            if conv == '%':
                out = S.concat(env, out, S.const('%'))
                continue
            if named:
                a = arg.d.get(key, TOP) if isinstance(arg, DictV) else TOP
            else:
                if ai >= len(args):
                    self.ctx.raise_('TypeError', node, env, 'not enough arguments for format string')
                    a = TOP
                else:
                    a = args[ai]
                ai += 1
            w = int(width) if width else 0
            if conv in 'sr':
                piece = self.to_str(a, env)
            else:
                if not isinstance(a, (Int, Bool)):
                    self.ctx.raise_('TypeError', node, env, '%%%s format requires a number, got %r' % (conv, a))
                    piece = S.any_str(env, max(w, 1), None, S.DIGITS)
                else:
                    alpha = S.DIGITS if conv == 'd' else self.B.cls_of_chars('0123456789ABCDEF' if conv == 'X' else '0123456789abcdef')
                    base = 10 if conv == 'd' else 16
                    neg = a.lo is None or a.lo < 0
                    if isinstance(a, Int) and a.hi is not None and not neg:
                        nd_hi = max(1, len(_digits(a.hi, base)))
                        nd_lo = max(1, len(_digits(max(a.lo, 0), base)))
                    else:
                        nd_hi, nd_lo = None, 1
                    cls = alpha | (self.B.cls_of_chars('-') if neg else frozenset())
                    lo = max(w, nd_lo)
                    hi = None if nd_hi is None else max(w, nd_hi)
                    if hi is not None and lo == hi and hi <= 64:
                        piece = Str([env.new_cell(cls) for _ in range(lo)])
                    else:
                        piece = Str((), env.new_cell(cls), (), lo, hi)
            out = S.concat(env, out, piece)
        out = S.concat(env, out, S.const(f[pos:]))
        if not named and ai < len(args) and FMT_RE.search(f):
            self.ctx.raise_('TypeError', node, env, 'not all arguments converted')
        return out

    def to_str(self, a, env):
        S = self.ctx.S
        if isinstance(a, Str):
            return a
        if isinstance(a, Int):
            neg = a.lo is None or a.lo < 0
            cls = S.DIGITS | (self.B.cls_of_chars('-') if neg else frozenset())
            if a.hi is not None and not neg:
                lo, hi = len(str(max(a.lo, 0))), len(str(a.hi))
                if lo == hi and hi <= 64:
                    if a.const() is not None:
                        return S.const(str(a.const()))
                    return Str([env.new_cell(cls) for _ in range(lo)])
                return Str((), env.new_cell(cls), (), lo, hi)
            return Str((), env.new_cell(cls), (), 1, None)
        if isinstance(a, Bool):
            return S.any_str(env, 4, 5, self.B.cls_of_chars('TrueFals'))
        if a is NONE:
            return S.const('None')
        return S.any_str(env)


def _digits(n, base):
    if n == 0:
        return '0'
    out = ''
    while n:
        out += '0123456789abcdef'[n % base]
        n //= base
    return out


class AbsIter:
    __slots__ = ('kind', 'data', 'source')

    def __init__(self, kind, data, source=None):
        self.kind, self.data, self.source = kind, data, source

    def __repr__(self):
        return 'AbsIter(%s)' % self.kind


class FuncSet:
    __slots__ = ('funcs',)

    def __init__(self, funcs):
        self.funcs = funcs


class MethodSet:
    __slots__ = ('alts',)

    def __init__(self, alts):
        self.alts = alts

    @staticmethod
    def of(a, b):
        alts = []
        for x in (a, b):
            alts.extend(x.alts if isinstance(x, MethodSet) else [x])
        return MethodSet(alts)
