"""Expression evaluation."""
import ast
from .values import *
from .joins import Maybe


class Exprs:
    def eval(self, node, env):
        m = getattr(self, 'ev_' + type(node).__name__, None)
        if m is None:
            self.ctx.unsup(node, 'expr ' + type(node).__name__)
            return TOP
        return m(node, env)

    # ---------------------------------------------------------- leaves
    def ev_Constant(self, node, env):
        return self.from_py(node.value, env)

    def from_py(self, v, env):
        if isinstance(v, bool):
            return Bool(v)
        if isinstance(v, int):
            return Int(v, v)
        if isinstance(v, str):
            return self.ctx.S.const(v)
        if v is None:
            return NONE
        if isinstance(v, tuple) and len(v) <= 64 and all(isinstance(x, (int, str, bool, type(None))) for x in v):
            return PyConst(v)
        if isinstance(v, (tuple, list, set, frozenset, dict)):
            return PyConst(v)
        if isinstance(v, bytes):
            return Opaque('bytes')
        if isinstance(v, float):
            return Opaque('float')
        return TOP

    def ev_Name(self, node, env):
        name = node.id
        for fr in (env.vars,):
            if name in fr:
                return fr[name]
        # closure of nested function
        cl = self.closures[-1] if self.closures else None
        if cl is not None and name in cl:
            return cl[name]
        return self.global_name(name, node, env)

    def global_name(self, name, node, env):
        modname = self.ctx.stack[-1][0] if self.ctx.stack else None
        m = self.ctx.prog.mods.get(modname)
        if m is not None:
            r = self.ctx.prog.resolve_name(m, name)
            if r is not None:
                return self.from_resolution(r, env, m, name)
            if name in m.assign_nodes:
                # module level non-constant initialiser: evaluate abstractly (cached per module)
                key = (modname, name)
                if key not in self.modvals:
                    self.modvals[key] = TOP
                    self.ctx.stack.append((modname, '<module>'))
                    saved = env.frames
                    env.frames = [{}]
                    try:
                        self.modvals[key] = self.eval(m.assign_nodes[name], env)
                    finally:
                        env.frames = saved
                        self.ctx.stack.pop()
                return self.modvals[key]
        if name in ('True', 'False', 'None'):
            return {'True': Bool(True), 'False': Bool(False), 'None': NONE}[name]
        if name in self.BUILTINS:
            return Ext('builtins.' + name)
        if name in ('ValueError', 'Exception', 'KeyError', 'IndexError', 'TypeError', 'AttributeError', 'ImportError') or name in ('ValidationError', 'InvalidFormat', 'InvalidLength', 'InvalidChecksum', 'InvalidComponent'):
            return Ext('exc.' + name)
        self.ctx.unsup(node, 'unresolved name ' + name)
        return TOP

    def from_resolution(self, r, env, m, name):
        if r[0] == 'func':
            return Func(r[1], r[2])
        if r[0] == 'mod':
            if r[1] in self.ctx.prog.mods:
                return Mod(r[1])
            return Ext(r[1])
        if r[0] == 'const':
            return self.from_py(r[1], env)
        if r[0] == 'class':
            return Ext('class.' + r[1] + '.' + r[2])
        if r[0] == 'ext':
            return Ext(r[1] + '.' + r[2])
        return TOP

    BUILTINS = {'len', 'int', 'str', 'bool', 'sum', 'all', 'any', 'enumerate', 'zip', 'reversed', 'range', 'tuple', 'list',
                'set', 'dict', 'sorted', 'map', 'isinstance', 'ord', 'chr', 'divmod', 'min', 'max', 'abs', 'pow', 'iter',
                'next', 'hasattr', 'getattr', 'repr', 'float', 'filter', 'super', 'open', 'print', '__import__', 'globals', 'locals', 'bytes', 'type'}

    def ev_Tuple(self, node, env):
        return Tup([self.eval(e, env) for e in node.elts])

    def ev_List(self, node, env):
        return Tup([self.eval(e, env) for e in node.elts], mutable=True)

    def ev_Set(self, node, env):
        vals = [self.eval(e, env) for e in node.elts]
        return Tup(vals)

    def ev_Dict(self, node, env):
        keys = []
        ok = True
        for k, v in zip(node.keys, node.values):
            kv = self.eval(k, env) if k is not None else TOP
            vv = self.eval(v, env)
            c = self.ctx.S.const_value(env, kv) if isinstance(kv, Str) else (kv.const() if isinstance(kv, Int) else None)
            if c is None:
                ok = False
            keys.append((c, vv))
        if ok:
            return DictV(dict(keys))
        return Opaque('dict')

    def ev_Lambda(self, node, env):
        return Func(self.ctx.stack[-1][0] if self.ctx.stack else '?', '<lambda>', node, closure=dict(env.vars))

    def ev_JoinedStr(self, node, env):
        """f'{a}-{b:02d}': each field is the %-directive of the same shape (%s for a bare field)."""
        S = self.ctx.S
        out = S.const('')
        for v in node.values:
            if isinstance(v, ast.Constant):
                out = S.concat(env, out, S.const(str(v.value)))
                continue
            if not isinstance(v, ast.FormattedValue):
                return S.any_str(env)
            val = self.eval(v.value, env)
            spec = ''
            if v.format_spec is not None:
                fs = v.format_spec
                if isinstance(fs, ast.JoinedStr) and all(isinstance(x, ast.Constant) for x in fs.values):
                    spec = ''.join(str(x.value) for x in fs.values)
                else:
                    self.eval(fs, env)
                    return S.any_str(env)
            import re as _re
            if v.conversion not in (-1, 115) or not _re.match(r'^(0?[0-9]*)([dsxX]?)$', spec):
                return S.any_str(env)
            m_ = _re.match(r'^(0?[0-9]*)([dsxX]?)$', spec)
            conv = m_.group(2) or ('d' if (m_.group(1) and isinstance(val, Int)) else 's')
            piece = self.str_format(S.const('%' + m_.group(1) + conv), Tup([val]), env, node)
            out = S.concat(env, out, piece)
        return out

    # ---------------------------------------------------------- operators
    def ev_BoolOp(self, node, env):
        # value context: evaluate operands under short-circuit assumptions and join
        is_and = isinstance(node.op, ast.And)
        cur = env.copy()
        result = None
        envs_out = []
        for i, v in enumerate(node.values):
            val = self.eval(v, cur)
            last = i == len(node.values) - 1
            contrib = val
            if not last:
                # a non-final operand is the result only when it short-circuits: truthy for `or`, falsy for `and`
                alts_ = val.alts if isinstance(val, Maybe) else [val]
                keep_ = [a_ for a_ in alts_ if self.truth(a_, cur) is not is_and]
                contrib = None
                for a_ in keep_:
                    contrib = a_ if contrib is None else Maybe.of(contrib, a_)
            if contrib is not None:
                result = contrib if result is None else self.join(result, contrib, env)
            if last:
                envs_out.append(cur)
                break
            # continue only when not short-circuited
            nxt = self.assume(v, is_and, cur.copy())
            envs_out.extend(self.assume(v, not is_and, cur.copy()))
            if not nxt:
                break
            cur = nxt[0]
            for e in nxt[1:]:
                cur = self.join_env(cur, e)
        # merge store effects back
        if envs_out:
            acc = envs_out[0]
            for e in envs_out[1:]:
                acc = self.join_env(acc, e)
            env.store = acc.store
            env.facts = acc.facts
            env.frames = acc.frames
        return result if result is not None else TOP

    def ev_UnaryOp(self, node, env):
        v = self.eval(node.operand, env)
        if isinstance(node.op, ast.Not):
            t = self.truth(v, env)
            return Bool(None if t is None else not t)
        if isinstance(node.op, ast.USub):
            if isinstance(v, Int):
                return Int(None if v.hi is None else -v.hi, None if v.lo is None else -v.lo, form_mul(v, Int(-1, -1)))
            if v is not TOP:
                self.ctx.raise_('TypeError', node, env, 'unary minus on %r' % (v,))
            return Int()
        return TOP

    def ev_BinOp(self, node, env):
        a = self.eval(node.left, env)
        b = self.eval(node.right, env)
        if isinstance(node.op, (ast.Mod, ast.FloorDiv, ast.Div)) and self.ctx.stack:
            self.ctx.visited.add((self.ctx.stack[-1][0], node.lineno, node.col_offset, 'division/format'))
        return self.binop(node.op, a, b, env, node)

    def ev_IfExp(self, node, env):
        t = self.assume(node.test, True, env.copy())
        f = self.assume(node.test, False, env.copy())
        vals = []
        envs = []
        for e in t:
            vals.append(self.eval(node.body, e)); envs.append(e)
        for e in f:
            vals.append(self.eval(node.orelse, e)); envs.append(e)
        if not vals:
            env.dead = True
            return TOP
        acc = envs[0]
        val = vals[0]
        for e, v in zip(envs[1:], vals[1:]):
            old_ = acc
            acc = self.join_env(acc, e)
            val = self.join_sided(val, old_, v, e, acc)
        env.store = acc.store
        env.facts = acc.facts
        env.frames = acc.frames
        return val

    def is_memo_test(self, node):
        return len(node.ops) == 1 and isinstance(node.ops[0], (ast.In, ast.NotIn)) and isinstance(node.comparators[0], ast.Name) \
            and self.ctx.stack and (self.ctx.stack[-1][0], node.comparators[0].id) in self.memo_names

    def ev_Compare(self, node, env):
        if self.is_memo_test(node):
            self.eval(node.left, env)
            return Bool(None)
        left = self.eval(node.left, env)
        res = None
        for op, c in zip(node.ops, node.comparators):
            right = self.eval(c, env)
            r = self.compare(op, left, right, env, node)
            res = r if res is None else (False if (res is False or r is False) else (True if (res is True and r is True) else None))
            left = right
        return Bool(res)

    def compare(self, op, a, b, env, node):
        """Definite truth value if known else None; records TypeErrors for ordering on unlike types."""
        S = self.ctx.S
        if isinstance(op, (ast.Lt, ast.LtE, ast.Gt, ast.GtE)):
            if isinstance(a, Int) and isinstance(b, Int):
                return self.int_cmp(op, a, b)
            if isinstance(a, Str) and isinstance(b, Str):
                return None
            if isinstance(a, Opaque) and isinstance(b, Opaque) and a.kind == b.kind:
                return None
            if a is TOP or b is TOP or type(a) is not type(b):
                self.ctx.raise_('TypeError', node, env, 'ordering comparison between %r and %r' % (a, b))
            return None
        if isinstance(op, (ast.Eq, ast.NotEq)):
            r = None
            if isinstance(a, Int) and isinstance(b, Int):
                if a.const() is not None and a.const() == b.const():
                    r = True
                elif (a.hi is not None and b.lo is not None and a.hi < b.lo) or (b.hi is not None and a.lo is not None and b.hi < a.lo):
                    r = False
            elif isinstance(a, Str) and isinstance(b, Str):
                ca, cb = S.const_value(env, a), S.const_value(env, b)
                if ca is not None and cb is not None:
                    r = ca == cb
                elif (a.hi is not None and (b.lo or 0) > a.hi) or (b.hi is not None and (a.lo or 0) > b.hi):
                    r = False
            if r is None:
                return None
            return r if isinstance(op, ast.Eq) else (not r)
        if isinstance(op, (ast.In, ast.NotIn)):
            self.check_container(b, a, env, node)
            if isinstance(a, Str) and isinstance(b, PyConst) and isinstance(b.v, (set, frozenset, tuple, list, dict)):
                cva = S.const_value(env, a)
                if cva is not None and all(isinstance(x, str) for x in b.v):
                    r = cva in b.v
                    return r if isinstance(op, ast.In) else (not r)
            # definite `'x' in s` for a single constant character
            if isinstance(a, Str) and isinstance(b, Str):
                ch = S.const_value(env, a)
                if ch is not None and len(ch) == 1:
                    one = self.B.cls_of_chars(ch)
                    if S.none_in(env, b, one):
                        r = False
                    else:
                        lo = b.lo or 0
                        cert = [c for i, c in enumerate(b.pre) if i < lo] + ([c for j, c in enumerate(b.suf) if j < lo] if not b.fixed else [])
                        r = True if any(env.cls(c) == one for c in cert) else None
                    if r is not None:
                        return r if isinstance(op, ast.In) else (not r)
            return None
        if isinstance(op, (ast.Is, ast.IsNot)):
            if a is NONE and b is NONE:
                return isinstance(op, ast.Is)
            if b is NONE and isinstance(a, (Str, Int, Tup, Bool, Opaque, Mod, PyConst)):
                return isinstance(op, ast.IsNot)
            return None
        return None

    def int_cmp(self, op, a, b):
        def lt(x, y):  # definitely x < y
            return x.hi is not None and y.lo is not None and x.hi < y.lo
        def le(x, y):
            return x.hi is not None and y.lo is not None and x.hi <= y.lo
        if isinstance(op, ast.Lt):
            return True if lt(a, b) else (False if le(b, a) else None)
        if isinstance(op, ast.LtE):
            return True if le(a, b) else (False if lt(b, a) else None)
        if isinstance(op, ast.Gt):
            return True if lt(b, a) else (False if le(a, b) else None)
        if isinstance(op, ast.GtE):
            return True if le(b, a) else (False if lt(a, b) else None)

    def check_container(self, cont, item, env, node):
        if cont is TOP or cont is NONE or isinstance(cont, (Int, Bool)):
            self.ctx.raise_('TypeError', node, env, "'in' on %r" % (cont,))
        if isinstance(cont, Str) and not isinstance(item, Str) and item is not TOP:
            self.ctx.raise_('TypeError', node, env, "'in <str>' requires str, got %r" % (item,))

    def truth(self, v, env):
        if isinstance(v, Bool):
            return v.v
        if v is NONE or isinstance(v, RegNone):
            return False
        if isinstance(v, Int):
            if v.const() is not None:
                return v.const() != 0
            if (v.lo is not None and v.lo > 0) or (v.hi is not None and v.hi < 0):
                return True
            return None
        if isinstance(v, Str):
            if (v.lo or 0) > 0:
                return True
            if v.hi == 0:
                return False
            return None
        if isinstance(v, Tup):
            return len(v.elems) > 0
        if isinstance(v, (Mod, Func, RegexV, Opaque)) and not (isinstance(v, Opaque) and v.kind in ('dict', 'bytes', 'list')):
            return True
        if isinstance(v, MatchV):
            return None if v.maybe_none else True
        if isinstance(v, PyConst):
            return bool(v.v)
        if isinstance(v, ListOf):
            return True if v.lo > 0 else (False if v.hi == 0 else None)
        return None

    # ---------------------------------------------------------- arithmetic
    def binop(self, op, a, b, env, node):
        r = self._binop(op, a, b, env, node)
        if isinstance(r, Int) and isinstance(a, Int) and isinstance(b, Int):
            d = a.alldeps() | b.alldeps()
            if d and r is not a and r is not b:
                r.deps = r.deps | d
            elif d and (r is a or r is b) and not d <= r.alldeps():
                r2 = Int(r.lo, r.hi, r.form)
                r2.deps = r.deps | d
                return r2
        return r

    def _binop(self, op, a, b, env, node):
        S = self.ctx.S
        if isinstance(a, Maybe) or isinstance(b, Maybe):
            alts_a = a.alts if isinstance(a, Maybe) else [a]
            alts_b = b.alts if isinstance(b, Maybe) else [b]
            res = None
            for x in alts_a:
                for y in alts_b:
                    r = self.binop(op, x, y, env, node)
                    res = r if res is None else self.join(res, r, env)
            return res
        if isinstance(op, ast.Add):
            if isinstance(a, Str) and isinstance(b, Str):
                return S.concat(env, a, b)
            if isinstance(a, Int) and isinstance(b, Int):
                return Int(None if (a.lo is None or b.lo is None) else a.lo + b.lo, None if (a.hi is None or b.hi is None) else a.hi + b.hi, form_add(a, b, 1))
            if isinstance(a, (Tup, ListOf, PyConst, RegInfo)) and isinstance(b, (Tup, ListOf, PyConst, RegInfo)):
                return self.seq_concat(a, b, env)
            if isinstance(a, Opaque) and isinstance(b, Opaque) and a.kind == b.kind:
                return a
            if a is TOP and b is TOP:
                self.ctx.raise_('TypeError', node, env, 'TOP + TOP')
                return TOP
            self.ctx.raise_('TypeError', node, env, '%r + %r' % (a, b))
            return TOP
        if isinstance(op, ast.Sub):
            if isinstance(a, Int) and isinstance(b, Int):
                return Int(None if (a.lo is None or b.hi is None) else a.lo - b.hi, None if (a.hi is None or b.lo is None) else a.hi - b.lo, form_add(a, b, -1))
            if isinstance(a, Opaque) and a.kind in ('date', 'datetime'):
                return a
            self.ctx.raise_('TypeError', node, env, '%r - %r' % (a, b))
            return TOP
        if isinstance(op, ast.Mult):
            if isinstance(a, Int) and isinstance(b, Int):
                r = self.int_mul(a, b)
                r.form = form_mul(a, b)
                return r
            if isinstance(a, Str) and isinstance(b, Int):
                a, b = b, a
            if isinstance(a, Int) and isinstance(b, Str):
                c = a.const()
                if c is not None and b.fixed and 0 <= c * len(b.pre) <= 64:
                    return Str(b.pre * max(c, 0))
                return S.any_str(env, 0, None, S.join_cls(env, b))
            if isinstance(a, Opaque) and isinstance(b, Int) or isinstance(b, Opaque) and isinstance(a, Int):
                return a if isinstance(a, Opaque) else b
            # sequence repetition: (7, 3, 1) * 4
            seq, cnt = (a, b) if isinstance(b, Int) else (b, a)
            if isinstance(cnt, Int) and isinstance(seq, (Tup, PyConst, ListOf)):
                c = cnt.const()
                if isinstance(seq, PyConst) and isinstance(seq.v, (tuple, list)):
                    if c is not None and 0 <= c * len(seq.v) <= 4096:
                        return PyConst(seq.v * c) if isinstance(seq.v, tuple) else self.from_py(seq.v * c, env)
                    seq = self.from_py(seq.v, env)
                if isinstance(seq, Tup):
                    if c is not None and 0 <= c * len(seq.elems) <= 256:
                        return Tup(list(seq.elems) * c, seq.mutable)
                    return ListOf(self._elem_join(seq, env), 0, None)
                if isinstance(seq, ListOf):
                    return ListOf(seq.elem, 0 if (c is None or c == 0) else seq.lo * c, None if (c is None or seq.hi is None) else seq.hi * c)
            self.ctx.raise_('TypeError', node, env, '%r * %r' % (a, b))
            return TOP
        if isinstance(op, ast.Mod):
            if isinstance(a, Str):
                return self.str_format(a, b, env, node)
            if isinstance(a, Int) and isinstance(b, Int):
                self.need_nonzero(b, env, node)
                c = b.const()
                hook = getattr(self, 'mod_hook', None)
                if hook is not None and c is not None and form_of(a) is not None and form_of(a)[0]:
                    forced = hook(node, form_of(a), c)
                    if forced is not None:
                        return forced
                if c is not None and c != 0 and a.const() is not None:
                    return Int(a.const() % c, a.const() % c)
                if c is not None and c > 0:
                    if a.lo is not None and a.hi is not None and a.lo >= 0 and a.hi < c:
                        return a
                    return Int(0, c - 1)
                if b.lo is not None and b.lo > 0:
                    return Int(0, None if b.hi is None else b.hi - 1)
                return Int()
            self.ctx.raise_('TypeError', node, env, '%r %% %r' % (a, b))
            return TOP
        if isinstance(op, (ast.FloorDiv, ast.Div)):
            if isinstance(a, Int) and isinstance(b, Int):
                self.need_nonzero(b, env, node)
                c = b.const()
                if c is not None and c > 0 and isinstance(op, ast.FloorDiv):
                    return Int(None if a.lo is None else a.lo // c, None if a.hi is None else a.hi // c)
                return Int() if isinstance(op, ast.FloorDiv) else Opaque('float')
            self.ctx.raise_('TypeError', node, env, '%r // %r' % (a, b))
            return TOP
        if isinstance(op, ast.Pow):
            if isinstance(a, Int) and isinstance(b, Int):
                if a.const() is not None and b.lo is not None and b.hi is not None and b.lo >= 0 and b.hi < 200:
                    return Int(min(a.const() ** b.lo, a.const() ** b.hi), max(a.const() ** b.lo, a.const() ** b.hi)) if a.const() >= 0 else Int()
                return Int(0 if (a.lo is not None and a.lo >= 0) else None, None)
            self.ctx.raise_('TypeError', node, env, '%r ** %r' % (a, b))
            return TOP
        if isinstance(op, (ast.BitAnd, ast.BitOr, ast.BitXor, ast.LShift, ast.RShift)):
            if isinstance(a, Int) and isinstance(b, Int):
                if isinstance(op, ast.BitAnd):
                    hs = [x.hi for x in (a, b) if x.lo is not None and x.lo >= 0 and x.hi is not None]
                    if hs:
                        return Int(0, min(hs))
                    return Int()
                if isinstance(op, ast.RShift) and a.lo is not None and a.lo >= 0:
                    return Int(0, a.hi)
                if a.lo is not None and a.lo >= 0 and b.lo is not None and b.lo >= 0:
                    return Int(0, None)
                return Int()
            if isinstance(a, (Bool, Int)) and isinstance(b, (Bool, Int)):
                return Int()
            if isinstance(a, Ext) and isinstance(b, Ext):
                return Ext('flags:%s|%s' % (a.name.replace('flags:', ''), b.name.replace('flags:', '')))
            self.ctx.raise_('TypeError', node, env, 'bit op %r %r' % (a, b))
            return TOP
        return TOP

    def int_mul(self, a, b):
        if None in (a.lo, a.hi, b.lo, b.hi):
            if a.lo is not None and b.lo is not None and a.lo >= 0 and b.lo >= 0:
                return Int(a.lo * b.lo, None)
            return Int()
        ps = [a.lo * b.lo, a.lo * b.hi, a.hi * b.lo, a.hi * b.hi]
        return Int(min(ps), max(ps))

    def need_nonzero(self, b, env, node):
        if (b.lo is None or b.lo <= 0) and (b.hi is None or b.hi >= 0):
            self.ctx.raise_('ZeroDivisionError', node, env, 'divisor %r may be zero' % (b,))

    def seq_concat(self, a, b, env):
        def aslist(x):
            if isinstance(x, Tup):
                return x.elems, len(x.elems), len(x.elems)
            if isinstance(x, PyConst) and isinstance(x.v, (tuple, list)):
                el = [self.from_py(y, env) for y in x.v]
                return el, len(el), len(el)
            if isinstance(x, ListOf):
                return None, x.lo, x.hi
            if isinstance(x, RegInfo):
                return None, x.lo, x.hi
            return None, 0, None
        ea, la, ha = aslist(a)
        eb, lb, hb = aslist(b)
        if ea is not None and eb is not None:
            return Tup(ea + eb, True)
        if isinstance(a, RegInfo) or isinstance(b, RegInfo):
            # [(part, props)] + _find(...) style is inside numdb only; keep generic
            pass
        elem = None
        for x in (a, b):
            e = self.elem_of(x, env)
            elem = e if elem is None else self.join(elem, e, env)
        return ListOf(elem, la + lb, None if (ha is None or hb is None) else ha + hb)

    def instance_of(self, v, env):
        """one particular element of a summarised sequence: what is learnt about it later says nothing about the other elements"""
        if isinstance(v, Str):
            from .strops import ORIGIN

            def cp(c):
                if isinstance(c, frozenset):
                    return c
                n = env.new_cell(env.cls(c))
                ORIGIN[n] = c
                return n
            if v.fixed:
                r = Str([cp(c) for c in v.pre], imprecise=v.imprecise)
            else:
                r = Str([cp(c) for c in v.pre], cp(v.body), [cp(c) for c in v.suf], v.lo, v.hi, v.imprecise)
            r.reg = v.reg
            return r
        if isinstance(v, Tup) and not v.mutable:
            return Tup([self.instance_of(x, env) for x in v.elems])
        return v

    def elem_of(self, x, env):
        if isinstance(x, Tup):
            return self._elem_join(x, env)
        if isinstance(x, ListOf):
            return x.elem
        if isinstance(x, PyConst) and isinstance(x.v, (tuple, list, set, frozenset)):
            el = None
            for y in x.v:
                v = self.from_py(y, env)
                el = v if el is None else self.join(el, v, env)
            return el if el is not None else TOP
        if isinstance(x, RegInfo):
            return Tup([self.ctx.S.any_str(env, 1), RegDict(x.name, x.query)])
        return TOP


class DictV:
    """dict literal with constant string keys and abstract values."""
    __slots__ = ('d',)

    def __init__(self, d):
        self.d = d

    def __repr__(self):
        return 'DictV(%d)' % len(self.d)


def form_of(x):
    if x.form is not None:
        return x.form
    c = x.const()
    if c is not None:
        return ({}, c)
    return None


def form_add(a, b, sign):
    fa, fb = form_of(a), form_of(b)
    if fa is None or fb is None:
        return None
    d = dict(fa[0])
    for k, v in fb[0].items():
        d[k] = d.get(k, 0) + sign * v
    return (d, fa[1] + sign * fb[1])


def form_mul(a, b):
    fa, fb = form_of(a), form_of(b)
    if fa is None or fb is None:
        return None
    if not fa[0]:
        fa, fb = fb, fa
    if fb[0]:
        return None          # product of two non-constant forms
    k = fb[1]
    return ({c: v * k for c, v in fa[0].items()}, fa[1] * k)
