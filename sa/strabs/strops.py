"""Operations on abstract strings."""
from .values import Str, Env, INF, Int


DERIVED = {}   # cell id -> (parent cell, inverse-image function name)
VIEWS = {}     # cell of a base string -> [(private cell of a slice, base sid, minimum length of the base at which both denote the same character)]
PRIV = {}      # private cell of a slice -> (cell of the base it copies, cells of the base outside the slice that the base cell may denote instead)
OUTREV = {}    # base cell -> private cells that list it as an outside alternative
ORIGIN = {}    # cell minted for one position of a variable-length string -> the summary cell it was split from (coverage only)


class StrOps:
    def __init__(self, blocks):
        self.B = blocks
        B = blocks
        self.WS = B.pred_cls('isspace')
        self.NONWS = B.ALL - self.WS
        self.ND = B.pred_cls('Nd')
        self.ASCII = B.pred_cls('ascii')
        self.DIGITS = B.cls_of_chars('0123456789')
        self.EMPTY = frozenset()
        self.UPSTABLE = B.pred_cls('upper_stable')
        self.LOSTABLE = B.pred_cls('lower_stable')
        self.NL = B.cls_of_chars('\n')

    # ---------------------------------------------------------------- construction
    def const(self, s):
        return Str([self.B.cls_of_chars(c) for c in s])

    def any_str(self, env, lo=0, hi=INF, cls=None):
        cls = self.B.ALL if cls is None else cls
        return Str((), env.new_cell(cls), (), lo, hi)

    def const_value(self, env, s):
        """Python str if the abstract string denotes exactly one string, else None."""
        if not isinstance(s, Str) or not s.fixed:
            return None
        out = []
        for c in s.pre:
            ex = self.B.exact_chars(env.cls(c))
            if ex is None or len(ex) != 1:
                return None
            out.append(next(iter(ex)))
        return ''.join(out)

    def enum_values(self, env, s, limit=4096):
        """All concrete strings if finitely many (fixed length, all singleton-able) else None."""
        if not isinstance(s, Str) or not s.fixed:
            return None
        sets = []
        n = 1
        for c in s.pre:
            ex = self.B.exact_chars(env.cls(c))
            if ex is None:
                return None
            n *= len(ex)
            if n > limit:
                return None
            sets.append(sorted(ex))
        import itertools
        return [''.join(t) for t in itertools.product(*sets)]

    # ---------------------------------------------------------------- structure
    def ensure_pre(self, env, s, k):
        """Return an equivalent Str with at least k prefix cells (var strings)."""
        if s.fixed or len(s.pre) >= k:
            return s
        body = env.cls(s.body)
        pre = list(s.pre)
        while len(pre) < k:
            pre.append(env.new_cell(body))
            if not isinstance(s.body, frozenset):
                ORIGIN[pre[-1]] = s.body
        n = Str(pre, s.body, s.suf, s.lo, s.hi, s.imprecise, s.parent, s.roots, s.sid)
        if not env.replace_value(s, n):
            # not bound to a variable: the body cell may be shared with a base string that does
            # not know about the new cells; detach it so later refinements cannot leak
            n = Str(pre, env.new_cell(body), s.suf, s.lo, s.hi, True)
        return n

    def ensure_suf(self, env, s, k):
        if s.fixed or len(s.suf) >= k:
            return s
        body = env.cls(s.body)
        suf = list(s.suf)
        while len(suf) < k:
            suf.append(env.new_cell(body))
            if not isinstance(s.body, frozenset):
                ORIGIN[suf[-1]] = s.body
        n = Str(s.pre, s.body, suf, s.lo, s.hi, s.imprecise, s.parent, s.roots, s.sid)
        if not env.replace_value(s, n):
            n = Str(s.pre, env.new_cell(body), suf, s.lo, s.hi, True)
        return n

    def apply_views(self, env, s, minlen):
        """s is known to have at least minlen characters: what slices learnt about positions that then exist holds for s."""
        for c in s.pre + s.suf:
            for v, bsid, need in VIEWS.get(c, ()) if not isinstance(c, frozenset) else ():
                if bsid == s.sid and minlen >= need and v in env.store:
                    env.store[c] = env.cls(c) & env.cls(v)

    def materialise(self, env, s, n):
        """Fixed string of length n equivalent to s restricted to that length."""
        if s.fixed:
            return s if len(s.pre) == n else None
        if n < (s.lo or 0) or (s.hi is not None and n > s.hi):
            return None
        cells = []
        self.apply_views(env, s, n)
        for i in range(n):
            p = s.pre[i] if i < len(s.pre) else None
            j = n - 1 - i
            q = s.suf[j] if j < len(s.suf) else None
            if p is not None and q is not None:
                if p is q or p == q:
                    cells.append(p)
                else:
                    c = env.cls(p) & env.cls(q)
                    cells.append(env.new_cell(c))
                    if not c:
                        env.dead = True
            elif p is not None:
                cells.append(p)
            elif q is not None:
                cells.append(q)
            else:
                cells.append(env.new_cell(env.cls(s.body)))
                if not isinstance(s.body, frozenset):
                    ORIGIN[cells[-1]] = s.body
        return Str(cells, imprecise=s.imprecise)

    def length(self, s):
        return Int(s.lo or 0, s.hi)

    def join_cls(self, env, s):
        out = set()
        for c in s.cells():
            out |= env.cls(c)
        return frozenset(out)

    def pos_cls_from_end(self, env, s, j):
        """Class of the char at distance j from the end (0 = last); string assumed long enough."""
        if s.fixed:
            return env.cls(s.pre[len(s.pre) - 1 - j])
        out = set()
        if j < len(s.suf):
            out |= env.cls(s.suf[j])
            # may also coincide with a prefix cell when short; class is then the meet, a subset
            return frozenset(out)
        out |= env.cls(s.body)
        for c in s.pre:
            out |= env.cls(c)
        return frozenset(out)

    # ---------------------------------------------------------------- slicing
    def index(self, env, s, i):
        """s[i] -> (Str 1 char, safe?)"""
        lo = s.lo or 0
        safe = (lo > i) if i >= 0 else (lo >= -i)
        if s.fixed:
            if not safe:
                return self.any_str(env, 1, 1, self.EMPTY), False
            return Str([s.pre[i]]), True
        if i >= 0:
            s = self.ensure_pre(env, s, i + 1)
            return Str([s.pre[i]]), safe
        s = self.ensure_suf(env, s, -i)
        return Str([s.suf[-i - 1]]), safe

    def slice(self, env, s, a, b, step=None):
        if step not in (None, 1):
            return self._step_slice(env, s, a, b, step)
        if s.fixed:
            return Str(s.pre[a:b], imprecise=s.imprecise)
        lo, hi = s.lo or 0, s.hi
        a0 = 0 if a is None else a
        # eager margins on the base so that later refinements of the slice find linked cells
        M = 3
        need_pre = (a0 if a0 >= 0 else 0) + M
        need_suf = (-b if (b is not None and b < 0) else (-a0 if a0 < 0 else 0)) + M
        if len(s.pre) < need_pre and (hi is None or hi > len(s.pre)):
            s = self.ensure_pre(env, s, need_pre if hi is None else min(need_pre, hi))
        if len(s.suf) < need_suf and (hi is None or hi > len(s.suf)):
            s = self.ensure_suf(env, s, need_suf if hi is None else min(need_suf, hi))
        def private(cells, certain, outside=()):
            """cells shared with the base only where they certainly belong to the slice; beyond that a copy:
            for a short base the same cell would denote a character outside the slice.  The copy is a view
            of the base cell once the base is known to be long enough (applied by materialise)."""
            out = []
            drop = a0 + (-b if b is not None else 0)
            for k, c in enumerate(cells):
                if k < certain or isinstance(c, frozenset):
                    out.append(c)
                else:
                    cl = env.cls(c)
                    for v, bsid, need in VIEWS.get(c, ()):
                        # an earlier slice with the same bounds saw the same conditional character
                        if bsid == s.sid and need == drop + k + 1 and v in env.store:
                            cl = cl & env.cls(v)
                    n = env.new_cell(cl)
                    ORIGIN[n] = c
                    VIEWS.setdefault(c, []).append((n, s.sid, drop + k + 1))
                    PRIV[n] = (c, outside)
                    for o in outside:
                        if not isinstance(o, frozenset):
                            OUTREV.setdefault(o, []).append(n)
                    out.append(n)
            return tuple(out)
        if a0 >= 0 and b is None:
            s = self.ensure_pre(env, s, a0)
            nlo = max(0, lo - a0)
            return Str(s.pre[a0:], s.body, private(s.suf, nlo, s.pre[:a0]) if a0 > 0 else s.suf, nlo, None if hi is None else max(0, hi - a0), s.imprecise,
                       parent=(s.sid, a0, 0), roots=(s.sid,) + s.roots)
        if a0 >= 0 and b is not None and b < 0:
            s = self.ensure_pre(env, s, a0)
            s = self.ensure_suf(env, s, -b)
            nlo = max(0, lo - a0 + b)
            return Str(private(s.pre[a0:], nlo, s.suf[:-b]), s.body, private(s.suf[-b:], nlo, s.pre[:a0]) if a0 > 0 else s.suf[-b:], nlo, None if hi is None else max(0, hi - a0 + b), s.imprecise,
                       parent=(s.sid, a0, -b), roots=(s.sid,) + s.roots)
        if a0 >= 0 and b is not None and b >= 0:
            if b <= a0:
                return Str(())
            s = self.ensure_pre(env, s, b)
            if lo >= b:
                return Str(s.pre[a0:b], imprecise=s.imprecise)
            # shorter strings possible
            return Str(s.pre[a0:b], frozenset(), (), max(0, lo - a0), b - a0, s.imprecise, roots=(s.sid,) + s.roots)
        if a0 < 0:
            k = -a0
            e = 0 if b is None else (-b if b < 0 else None)
            if e is None:
                # mixed: negative start, positive stop -> give up precisely
                return self.any_str(env, 0, hi, self.join_cls(env, s))
            s = self.ensure_suf(env, s, k)
            if e >= k:
                return Str(())
            cells = list(reversed(s.suf[e:k]))
            if lo >= k:
                return Str(cells, imprecise=s.imprecise)
            # string may be shorter than k: result is the last (min(n,k)-e) chars
            return Str((), frozenset(), tuple(s.suf[e:k]), max(0, lo - e), k - e, s.imprecise, roots=(s.sid,) + s.roots)
        return self.any_str(env, 0, hi, self.join_cls(env, s))

    def _step_slice(self, env, s, a, b, step):
        if s.fixed:
            return Str(s.pre[a:b:step], imprecise=s.imprecise)
        return self.any_str(env, 0, s.hi, self.join_cls(env, s))

    # ---------------------------------------------------------------- concat
    def concat(self, env, x, y):
        if x.fixed and y.fixed:
            return Str(x.pre + y.pre, imprecise=x.imprecise or y.imprecise)
        add = lambda p, q: None if (p is None or q is None) else p + q
        if x.fixed:
            return Str(x.pre + y.pre, y.body, y.suf, (y.lo or 0) + len(x.pre), add(y.hi, len(x.pre)), x.imprecise or y.imprecise)
        if y.fixed:
            return Str(x.pre, x.body, tuple(reversed(y.pre)) + x.suf, (x.lo or 0) + len(y.pre), add(x.hi, len(y.pre)), x.imprecise or y.imprecise)
        mid = set(env.cls(x.body)) | set(env.cls(y.body))
        for c in x.suf + y.pre:
            mid |= env.cls(c)
        common = tuple(r for r in ((x.sid,) + x.roots) if r in ((y.sid,) + y.roots))
        midcell = env.new_cell(frozenset(mid))
        DERIVED[midcell] = [(c, None) for c in (x.body, y.body) + tuple(x.suf) + tuple(y.pre) if not isinstance(c, frozenset)]
        return Str(x.pre, midcell, y.suf, (x.lo or 0) + (y.lo or 0), add(x.hi, y.hi), True, roots=common)

    # ---------------------------------------------------------------- refinement
    def refine_cell(self, env, cell, cls, must=True):
        cur = env.cls(cell)
        new = cur & cls
        if isinstance(cell, frozenset):
            if not new and must:
                env.dead = True
            return
        env.store[cell] = new
        if not new and must:
            env.dead = True
        if new != cur:
            self.weak_propagate(env, cell)
        d = DERIVED.get(cell)
        if d is not None and new != cur:
            for parent, inv in (d if isinstance(d, list) else [d]):
                if not isinstance(parent, frozenset) and parent in env.store:
                    pc = env.store[parent]
                    keep = frozenset(b for b in pc if (inv(b) & new)) if inv is not None else (pc & new)
                    if keep != pc:
                        self.refine_cell(env, parent, keep, False)

    def weak_propagate(self, env, cell):
        """cell is a slice's private copy of a base cell: the base cell denotes either the same character or,
        for a short base, one of the characters the slice dropped"""
        for n in OUTREV.get(cell, ()):
            if n in env.store:
                self.weak_propagate(env, n)
        pv = PRIV.get(cell)
        if pv is None or pv[0] not in env.store:
            return
        c, outside = pv
        weak = set(env.cls(cell))
        for o in outside:
            weak |= env.cls(o)
        if not env.store[c] <= weak:
            self.refine_cell(env, c, frozenset(weak), False)

    def refine_all(self, env, s, cls):
        """Every existing character of s is in cls."""
        if s.fixed:
            for c in s.pre:
                self.refine_cell(env, c, cls)
            return
        for c in s.pre + s.suf:
            # prefix/suffix cells may not exist for short strings; an empty class only kills
            # the environment if the position must exist (cells that could denote a character outside
            # a slice are private copies, see slice())
            cur = env.cls(c)
            new = cur & cls
            if not isinstance(c, frozenset):
                env.store[c] = new
                if new != cur:
                    self.weak_propagate(env, c)
        cur = env.cls(s.body)
        if not isinstance(s.body, frozenset):
            env.store[s.body] = cur & cls
        # feasibility: positions that must exist
        self._check_feasible(env, s)

    def _check_feasible(self, env, s):
        if s.fixed:
            if any(not env.cls(c) for c in s.pre):
                env.dead = True
            return
        lo = s.lo or 0
        for i, c in enumerate(s.pre):
            if i < lo and not env.cls(c):
                env.dead = True
        for j, c in enumerate(s.suf):
            if j < lo and not env.cls(c):
                env.dead = True
        if s.hi is not None and lo > s.hi:
            env.dead = True

    def all_in(self, env, s, cls):
        return all(env.cls(c) <= cls for c in s.cells())

    def none_in(self, env, s, cls):
        return all(not (env.cls(c) & cls) for c in s.cells())

    def set_len(self, env, s, lo, hi):
        """Return s restricted to lo <= len <= hi (None if infeasible)."""
        r = self._set_len(env, s, lo, hi)
        if r is not None and r is not s and not s.fixed:
            self.push_len_to_slices(env, r)
        return r

    def push_len_to_slices(self, env, base):
        """Slices `x = s[a:-e]` taken before the length of s was known are as long as s allows (s.sid is kept by refinements)."""
        blo = len(base.pre) if base.fixed else (base.lo or 0)
        bhi = len(base.pre) if base.fixed else base.hi
        for f in env.frames:
            for k, v in list(f.items()):
                if isinstance(v, Str) and not v.fixed and v.parent is not None and v.parent[0] == base.sid and v is not base:
                    pa, pb = v.parent[1], v.parent[2]
                    nlo = max(0, blo - pa - pb)
                    nhi = None if bhi is None else max(0, bhi - pa - pb)
                    if nlo > (v.lo or 0) or (nhi is not None and (v.hi is None or nhi < v.hi)):
                        if self._set_len(env, v, nlo, nhi) is None:
                            env.dead = True

    def _set_len(self, env, s, lo, hi):
        l0, h0 = s.lo or 0, s.hi
        lo = max(lo, l0)
        hi = h0 if hi is None else (hi if h0 is None else min(hi, h0))
        if hi is not None and lo > hi:
            return None
        if s.fixed:
            return s
        if lo > l0:
            if s.parent is not None:
                bsid, pa, pb = s.parent
                base = env.find_sid(bsid)
                if base is not None and not base.fixed and (base.lo or 0) < lo + pa + pb:
                    self.set_len(env, base, lo + pa + pb, None)
            if l0 == 0:
                for rsid in s.roots:
                    r = env.find_sid(rsid)
                    if r is not None and not r.fixed and (r.lo or 0) < 1:
                        self.set_len(env, r, 1, None)
        if hi is not None and lo == hi and s.parent is not None:
            bsid, pa, pb = s.parent
            base = env.find_sid(bsid)
            if base is not None and base.fixed:
                # the base has been cut to a fixed length already: the slice is those very cells
                nb = len(base.pre)
                if max(0, nb - pa - pb) != lo:
                    return None
                m = Str(base.pre[pa:nb - pb] if nb >= pa + pb else (), imprecise=s.imprecise, sid=s.sid)
                env.replace_value(s, m)
                return m
            if base is not None and not base.fixed:
                b2 = self.set_len(env, base, lo + pa + pb, lo + pa + pb)
                if b2 is None:
                    return None
                if b2.fixed:
                    m = Str(b2.pre[pa:len(b2.pre) - pb], imprecise=s.imprecise, sid=s.sid)
                    env.replace_value(s, m)
                    return m
        if hi is not None and lo == hi:
            m = self.materialise(env, s, lo)
            if m is not None:
                m.sid = s.sid
                env.replace_value(s, m)
            return m
        n = Str(s.pre, s.body, s.suf, lo, hi, s.imprecise, s.parent, s.roots, s.sid)
        env.replace_value(s, n)
        if lo > l0:
            self.apply_views(env, n, lo)
        self._check_feasible(env, n)
        return n

    # ---------------------------------------------------------------- transformers
    def map_cells(self, env, s, fn, may_expand=False, inv=None):
        """New string whose cells are fn(class) of the old ones (fresh cells)."""
        def m(c):
            n = env.new_cell(fn(env.cls(c)))
            if inv is not None and not isinstance(c, frozenset):
                DERIVED[n] = (c, inv)
            return n
        if s.fixed and not may_expand:
            return Str([m(c) for c in s.pre], imprecise=s.imprecise)
        if s.fixed:
            cls = set()
            for c in s.pre:
                cls |= fn(env.cls(c))
            pre = (env.new_cell(fn(env.cls(s.pre[0]))),) if s.pre else ()
            suf = (env.new_cell(fn(env.cls(s.pre[-1]))),) if s.pre else ()
            return Str(pre, env.new_cell(frozenset(cls)), suf, len(s.pre), None, s.imprecise)
        if may_expand:
            cls = set()
            for c in s.cells():
                cls |= fn(env.cls(c))
            pre = (env.new_cell(fn(env.cls(s.pre[0]))),) if s.pre else ()
            suf = (env.new_cell(fn(env.cls(s.suf[0]))),) if s.suf else ()
            return Str(pre, env.new_cell(frozenset(cls)), suf, s.lo, None, s.imprecise)
        return Str([m(c) for c in s.pre], m(s.body), [m(c) for c in s.suf], s.lo, s.hi, s.imprecise)

    def upper(self, env, s):
        B = self.B
        if self.all_in(env, s, self.UPSTABLE):
            return s   # identity
        def f(cls):
            out = set()
            for b in cls:
                out |= B.upper_img[b]
            return frozenset(out)
        exp = any(env.cls(c) & B.upper_expanding for c in s.cells())
        return self.map_cells(env, s, f, may_expand=exp, inv=lambda b: B.upper_img[b])

    def lower(self, env, s):
        B = self.B
        if self.all_in(env, s, self.LOSTABLE):
            return s
        def f(cls):
            out = set()
            for b in cls:
                out |= B.lower_img[b]
            return frozenset(out)
        exp = any(env.cls(c) & B.lower_expanding for c in s.cells())
        return self.map_cells(env, s, f, may_expand=exp, inv=lambda b: B.lower_img[b])

    def strip(self, env, s, chars_cls=None, left=True, right=True):
        """str.strip / lstrip / rstrip with whitespace (None) or an explicit class."""
        drop = self.WS if chars_cls is None else chars_cls
        keep = self.B.ALL - drop
        if s.fixed:
            # exact stripping while the edge characters are certainly strippable
            cells = list(s.pre)
            changed = False
            while left and cells and env.cls(cells[0]) and env.cls(cells[0]) <= drop:
                cells.pop(0)
                changed = True
            while right and cells and env.cls(cells[-1]) and env.cls(cells[-1]) <= drop:
                cells.pop()
                changed = True
            if changed:
                s = Str(cells, imprecise=s.imprecise)
            n = len(s.pre)
            if n == 0:
                return s
            first_ok = not (env.cls(s.pre[0]) & drop) or not left
            last_ok = not (env.cls(s.pre[-1]) & drop) or not right
            if first_ok and last_ok:
                return s   # identity
            cls = self.join_cls(env, s)
            if first_ok:
                # only the right end can lose characters: positions from the left are preserved
                return Str(s.pre, frozenset(), (env.new_cell(cls & keep),), 0, n, s.imprecise, roots=s.roots, sid=None)
            if last_ok:
                return Str((env.new_cell(cls & keep),), frozenset(), tuple(reversed(s.pre)), 0, n, s.imprecise, roots=s.roots)
            # unknown amount stripped on both sides
            pre = (env.new_cell(cls & keep if left else cls),)
            suf = (env.new_cell(cls & keep if right else cls),)
            return Str(pre, env.new_cell(cls), suf, 0, n, s.imprecise)
        first_ok = (not left) or (len(s.pre) > 0 and not (env.cls(s.pre[0]) & drop))
        last_ok = (not right) or (len(s.suf) > 0 and not (env.cls(s.suf[0]) & drop))
        if first_ok and last_ok:
            return s
        cls = self.join_cls(env, s)
        # positions shift by an unknown amount on the stripped side(s)
        if left:
            pre = (env.new_cell(cls & keep),)
        else:
            pre = s.pre
        if right:
            suf = (env.new_cell(cls & keep),)
        else:
            suf = s.suf
        lo = (s.lo or 0) if (first_ok and last_ok) else 0
        return Str(pre, env.new_cell(cls), suf, lo, s.hi, s.imprecise)

    def delete_chars(self, env, s, del_cls, map_fn=None):
        """clean(): map then delete.  Identity when nothing can change."""
        changed = False
        for c in s.cells():
            cl = env.cls(c)
            if cl & del_cls:
                changed = True
            if map_fn is not None and map_fn(cl) != cl:
                changed = True
        if not changed:
            return s
        mf = map_fn if map_fn is not None else (lambda c: c)
        if s.fixed and all((mf(env.cls(c)) <= del_cls) or not (mf(env.cls(c)) & del_cls) for c in s.pre) \
                and all(mf(env.cls(c)) == env.cls(c) for c in s.pre if not (mf(env.cls(c)) <= del_cls)):
            # every position is either certainly deleted or certainly kept unchanged: positions survive
            return Str([c for c in s.pre if not (mf(env.cls(c)) <= del_cls)], imprecise=s.imprecise)
        if not any(mf(env.cls(c)) & del_cls for c in s.cells()):
            # nothing can be deleted: positions are preserved, classes are mapped
            return self.map_cells(env, s, mf, inv=lambda b: mf(frozenset([b])))
        cls = set()
        for c in s.cells():
            cls |= mf(env.cls(c))
        cls = frozenset(cls) - del_cls
        return Str((), env.new_cell(cls), (), 0, s.hi, s.imprecise)

    def describe(self, env, s):
        B = self.B
        d = lambda c: B.describe(env.cls(c))
        if s.fixed:
            # compress runs
            out = []
            for c in s.pre:
                x = d(c)
                if out and out[-1][0] == x:
                    out[-1][1] += 1
                else:
                    out.append([x, 1])
            return 'len=%d ' % len(s.pre) + ' '.join('%s{%d}' % (x, n) if n > 1 else x for x, n in out)
        return 'len=%s..%s pre[%s] body %s suf[%s]' % (s.lo, s.hi, ' '.join(d(c) for c in s.pre), d(s.body), ' '.join(d(c) for c in s.suf))
