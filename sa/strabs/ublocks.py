"""Partition of all code points into blocks on which every predicate used by the
dialect agrees; literal characters of interest are singleton blocks.
A character class is a frozenset of block ids."""
import sys, unicodedata, pickle, os, hashlib

MAXCP = 0x110000

PRED_NAMES = ['ascii', 'Nd', 'isdigit', 'isalpha', 'isalnum', 'isspace', 'word',
              'upper_stable', 'lower_stable', 'upper_expands', 'lower_expands', 'surrogate']


def _preds(ch):
    up = ch.upper(); lo = ch.lower()
    return (ord(ch) < 128,
            unicodedata.category(ch) == 'Nd',
            ch.isdigit(), ch.isalpha(), ch.isalnum(), ch.isspace(),
            ch.isalnum() or ch == '_',
            up == ch, lo == ch, len(up) != 1, len(lo) != 1,
            0xD800 <= ord(ch) <= 0xDFFF)


class Blocks:
    def __init__(self, literals):
        self.literals = frozenset(literals)
        sig2id = {}
        self.block_of = {}          # only for literal chars and lazily for others
        self.sig_of_block = []      # block id -> signature tuple or ('lit', ch)
        self.members = []           # block id -> count
        self.sample = []
        self._cp_block = [0] * MAXCP
        for cp in range(MAXCP):
            ch = chr(cp)
            if ch in self.literals:
                key = ('lit', ch)
            else:
                key = _preds(ch)
            b = sig2id.get(key)
            if b is None:
                b = len(self.sig_of_block)
                sig2id[key] = b
                self.sig_of_block.append(key)
                self.members.append(0)
                self.sample.append(ch)
            self.members[b] += 1
            self._cp_block[cp] = b
        self.n = len(self.sig_of_block)
        self.ALL = frozenset(range(self.n))
        # images under upper/lower
        self.upper_img = [set() for _ in range(self.n)]
        self.lower_img = [set() for _ in range(self.n)]
        for cp in range(MAXCP):
            b = self._cp_block[cp]
            ch = chr(cp)
            for c2 in ch.upper():
                self.upper_img[b].add(self._cp_block[ord(c2)])
            for c2 in ch.lower():
                self.lower_img[b].add(self._cp_block[ord(c2)])
        self.upper_expanding = frozenset(b for b in range(self.n) if any(len(chr(cp).upper()) != 1 for cp in self._cps_of_small(b)))
        self.lower_expanding = frozenset(b for b in range(self.n) if any(len(chr(cp).lower()) != 1 for cp in self._cps_of_small(b)))

    def _cps_of_small(self, b):
        key = self.sig_of_block[b]
        if key[0] == 'lit':
            return [ord(key[1])]
        # for predicate blocks, expansion is a predicate bit itself
        return [ord(self.sample[b])]

    def block(self, ch):
        return self._cp_block[ord(ch)]

    def cls_of_chars(self, chars):
        """Class for an explicit set of characters. Every char must be a literal
        (singleton block); otherwise the class over-approximates to the whole block."""
        return frozenset(self._cp_block[ord(c)] for c in chars)

    def exact_chars(self, cls):
        """Return the explicit set of chars if all blocks are singletons else None."""
        out = set()
        for b in cls:
            key = self.sig_of_block[b]
            if key[0] != 'lit':
                return None
            out.add(key[1])
        return out

    def pred_cls(self, name):
        i = PRED_NAMES.index(name)
        out = set()
        for b, key in enumerate(self.sig_of_block):
            if key[0] == 'lit':
                if _preds(key[1])[i]:
                    out.add(b)
            elif key[i]:
                out.add(b)
        return frozenset(out)

    def filter(self, fn):
        """Class of all blocks whose (sample) char satisfies fn; only valid for fn that is
        constant on blocks (i.e. built from the predicates above or literal membership)."""
        return frozenset(b for b in range(self.n) if fn(self.sample[b]))

    def describe(self, cls):
        if cls == self.ALL:
            return 'ANY'
        ex = self.exact_chars(cls)
        if ex is not None:
            s = ''.join(sorted(ex))
            return repr(s) if len(s) <= 40 else repr(s[:37] + '...')
        lits = sorted(self.sig_of_block[b][1] for b in cls if self.sig_of_block[b][0] == 'lit')
        nonlit = [b for b in cls if self.sig_of_block[b][0] != 'lit']
        comp = self.ALL - cls
        if len(comp) < 12:
            return 'ANY-' + self.describe(comp)
        return '{%d lits %r + %d blocks e.g. %r}' % (len(lits), ''.join(lits)[:20], len(nonlit), ''.join(self.sample[b] for b in nonlit[:5]))


_cache = {}


def get_blocks(literals):
    key = hashlib.sha1((''.join(sorted(literals)) + sys.version + unicodedata.unidata_version).encode('utf-8', 'surrogatepass')).hexdigest()
    if key in _cache:
        return _cache[key]
    cdir = os.environ.get('SA_CACHE', os.path.join(os.path.dirname(os.path.dirname(os.path.dirname(os.path.abspath(__file__)))), '.cache'))
    os.makedirs(cdir, exist_ok=True)
    path = os.path.join(cdir, 'blocks-%s.pkl' % key[:16])
    if os.path.exists(path):
        with open(path, 'rb') as f:
            b = pickle.load(f)
    else:
        b = Blocks(literals)
        tmp = path + '.%d.tmp' % os.getpid()
        with open(tmp, 'wb') as f:
            pickle.dump(b, f)
        os.replace(tmp, path)
    _cache[key] = b
    return b


