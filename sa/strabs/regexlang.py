"""Regex AST -> over-approximating shapes (alternatives of per-position classes)."""
import re
import re._parser as P
import re._constants as C

MAXALT = 64


class Item:
    __slots__ = ('cls', 'lo', 'hi')   # hi None = unbounded

    def __init__(self, cls, lo=1, hi=1):
        self.cls, self.lo, self.hi = cls, lo, hi

    def fixed(self):
        return self.lo == self.hi

    def __repr__(self):
        return 'Item(%d,%s,%s)' % (len(self.cls), self.lo, self.hi)


class Alt:
    """One alternative: list of Items, group spans (name/index -> (start_item, end_item) or None)."""
    def __init__(self, items=None, groups=None):
        self.items = items or []
        self.groups = groups or {}

    def copy(self):
        return Alt(list(self.items), dict(self.groups))


class RegexLang:
    def __init__(self, pattern, flags, blocks):
        self.pattern, self.flags, self.B = pattern, flags, blocks
        self.ok = True
        self.anch_start = False
        self.anch_end = None     # None | 'dollar' | 'Z'
        try:
            tree = P.parse(pattern, flags)
        except Exception:
            self.ok = False
            self.alts = []
            return
        self.groupnames = {v: k for k, v in tree.state.groupdict.items()}
        allflags = flags | tree.state.flags
        self.icase = bool(allflags & re.I)
        self.ascii = bool(allflags & re.A)
        if allflags & (re.M | re.S | re.X | re.L):
            # multi-line anchors / dot-all / verbose are not modelled
            if allflags & (re.M | re.L):
                self.ok = False
                self.alts = []
                return
        items = list(tree)
        if items and items[0][0] is C.AT and items[0][1] is C.AT_BEGINNING:
            self.anch_start = True
            items = items[1:]
        if items and items[-1][0] is C.AT and items[-1][1] in (C.AT_END, C.AT_END_STRING):
            self.anch_end = 'dollar' if items[-1][1] is C.AT_END else 'Z'
            items = items[:-1]
        try:
            self.alts = self._seq(items)
        except Unsupported:
            self.ok = False
            self.alts = []

    def anchored(self, how):
        """the language as used by .match() (start anchored) / .fullmatch() (both ends) / .search()"""
        if how == 'search' or (how == 'match' and self.anch_start) or not self.ok:
            return self
        cache = self.__dict__.setdefault('_anch', {})
        if how not in cache:
            import copy
            n = copy.copy(self)
            n.__dict__.pop('_anch', None)
            n.anch_start = True
            if how == 'fullmatch' and n.anch_end != 'Z':
                n.anch_end = 'Z'
            cache[how] = n
        return cache[how]

    # ---- classes
    def _cat(self, cat, negate=False):
        B = self.B
        A = B.pred_cls('ascii') if getattr(self, 'ascii', False) else B.ALL
        if cat is C.CATEGORY_DIGIT:
            c = B.pred_cls('Nd') & A
        elif cat is C.CATEGORY_NOT_DIGIT:
            c = B.ALL - (B.pred_cls('Nd') & A)
        elif cat is C.CATEGORY_WORD:
            c = B.pred_cls('word') & A
        elif cat is C.CATEGORY_NOT_WORD:
            c = B.ALL - (B.pred_cls('word') & A)
        elif cat is C.CATEGORY_SPACE:
            c = (B.pred_cls('isspace') & A) if getattr(self, 'ascii', False) else B.cls_of_chars(' \t\n\r\f\v') | (B.pred_cls('isspace') - B.cls_of_chars('\x1c\x1d\x1e\x1f\x85'))
        elif cat is C.CATEGORY_NOT_SPACE:
            raise Unsupported('\\S')
        else:
            raise Unsupported(cat)
        return c

    def _case(self, cls):
        if not self.icase:
            return cls
        out = set(cls)
        for b in cls:
            out |= self.B.upper_img[b] | self.B.lower_img[b]
        # reverse images: chars whose upper/lower lands in cls
        for b in range(self.B.n):
            if self.B.upper_img[b] & cls or self.B.lower_img[b] & cls:
                out.add(b)
        return frozenset(out)

    def _in(self, av):
        neg = False
        cls = set()
        for op, a in av:
            if op is C.NEGATE:
                neg = True
            elif op is C.LITERAL:
                cls.add(self.B.block(chr(a)))
            elif op is C.RANGE:
                for cp in range(a[0], a[1] + 1):
                    cls.add(self.B.block(chr(cp)))
            elif op is C.CATEGORY:
                cls |= self._cat(a)
            else:
                raise Unsupported(op)
        cls = frozenset(cls)
        if neg:
            cls = self.B.ALL - cls   # over-approx if blocks are not singletons; fine (superset)
        return self._case(cls)

    # ---- sequences
    def _seq(self, items):
        alts = [Alt()]
        for op, av in items:
            alts = self._extend(alts, op, av)
            if len(alts) > MAXALT:
                raise Unsupported('too many alternatives')
        return alts

    def _extend(self, alts, op, av):
        B = self.B
        if op is C.LITERAL:
            cls = self._case(frozenset([B.block(chr(av))]))
            for a in alts:
                a.items.append(Item(cls))
            return alts
        if op is C.NOT_LITERAL:
            cls = B.ALL - frozenset([B.block(chr(av))])
            for a in alts:
                a.items.append(Item(cls))
            return alts
        if op is C.ANY:
            cls = B.ALL - frozenset([B.block('\n')])
            for a in alts:
                a.items.append(Item(cls))
            return alts
        if op is C.IN:
            cls = self._in(av)
            for a in alts:
                a.items.append(Item(cls))
            return alts
        if op is C.SUBPATTERN:
            gid, _af, _df, sub = av
            subalts = self._seq(list(sub))
            if len(alts) * len(subalts) > MAXALT // 2 and not getattr(self, '_ranged', False):
                # too many combinations: keep bounded repeats inside the group as ranged items
                self._ranged = True
                try:
                    subalts = self._seq(list(sub))
                finally:
                    self._ranged = False
            out = []
            for a in alts:
                for s in subalts:
                    n = a.copy()
                    start = len(n.items)
                    n.items.extend(s.items)
                    for k, (x, y) in s.groups.items():
                        n.groups[k] = (x + start, y + start)
                    if gid is not None:
                        n.groups[gid] = (start, len(n.items))
                        if gid in self.groupnames:
                            n.groups[self.groupnames[gid]] = (start, len(n.items))
                    out.append(n)
            return out
        if op is C.BRANCH:
            _, branches = av
            out = []
            for a in alts:
                for br in branches:
                    for s in self._seq(list(br)):
                        n = a.copy()
                        start = len(n.items)
                        n.items.extend(s.items)
                        for k, (x, y) in s.groups.items():
                            n.groups[k] = (x + start, y + start)
                        out.append(n)
            return out
        if op in (C.MAX_REPEAT, C.MIN_REPEAT):
            lo, hi, sub = av
            hi = None if hi == C.MAXREPEAT else hi
            subalts = self._seq(list(sub))
            single = (len(subalts) == 1 and len(subalts[0].items) == 1 and subalts[0].items[0].fixed()
                      and subalts[0].items[0].lo == 1 and not subalts[0].groups)
            if single:
                cls = subalts[0].items[0].cls
                if hi is not None and hi == lo and lo <= 40:
                    for a in alts:
                        a.items.extend(Item(cls) for _ in range(lo))
                    return alts
                if hi is not None and hi - lo <= 8 and hi <= 40 and len(alts) * (hi - lo + 1) <= 16 and not getattr(self, '_ranged', False):
                    out = []
                    for a in alts:
                        for k in range(lo, hi + 1):
                            n = a.copy()
                            n.items.extend(Item(cls) for _ in range(k))
                            out.append(n)
                    return out
                for a in alts:
                    a.items.append(Item(cls, lo, hi))
                return alts
            # group repeated: expand small fixed counts
            if hi is not None and hi <= 6:
                out = []
                for a in alts:
                    for k in range(lo, hi + 1):
                        cur = [a.copy()]
                        for _ in range(k):
                            nxt = []
                            for c in cur:
                                for s in subalts:
                                    n = c.copy()
                                    start = len(n.items)
                                    n.items.extend(s.items)
                                    for kk, (x, y) in s.groups.items():
                                        n.groups[kk] = (x + start, y + start)
                                    nxt.append(n)
                            cur = nxt
                        out.extend(cur)
                return out
            # unbounded group repeat: union class
            cls = set()
            for s in subalts:
                for it in s.items:
                    cls |= it.cls
            minlen = min(sum(it.lo for it in s.items) for s in subalts)
            for a in alts:
                a.items.append(Item(frozenset(cls), lo * minlen, None))
            return alts
        if op is C.AT:
            raise Unsupported('inner anchor')
        raise Unsupported(op)


class Unsupported(Exception):
    pass


