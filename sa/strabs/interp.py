"""STRABS prototype driver."""
import ast, sys, collections, time
from .values import *
from .model import Program
from .ublocks import get_blocks
from .core import Ctx, Exec, is_ve, kind_parents
from .joins import Joins, Maybe
from .expr import Exprs
from .subs import Subs
from .calls import Calls
from .methods import Methods
from .assume import Assume
from .regexlang import RegexLang
import unicodedata


class Interp(Exec, Joins, Exprs, Subs, Calls, Methods, Assume):
    def __init__(self, prog=None):
        self.prog = prog or Program()
        lits = self.prog.all_string_chars() | set('\n\r\t ')
        # look-alike table keys
        self.charmap = self.derive_charmap()
        lits |= set(self.charmap) | set(self.charmap.values())
        self.B = get_blocks(lits)
        self.ctx = Ctx(self.prog, self.B)
        Env.ALL = self.B.ALL
        self.closures = []
        self.modvals = {}
        self.regex_cache = {}
        self.memo = {}
        # module-level dicts that some function stores into: their membership tests are history dependent
        self.memo_names = set()
        for mn_, m_ in self.prog.mods.items():
            for n_ in ast.walk(m_.tree):
                if isinstance(n_, ast.Assign):
                    for t_ in n_.targets:
                        if isinstance(t_, ast.Subscript) and isinstance(t_.value, ast.Name) and t_.value.id in m_.assign_nodes:
                            self.memo_names.add((mn_, t_.value.id))
        pat = self.derive_isdigits_pattern()
        import os
        if os.environ.get('SA_ISDIGITS_FIX'):
            pat = pat.replace('$', '\\Z')
        self.isdigits_lang = RegexLang(pat, 0, self.B)
        self.iban_error = None
        self.iban_letters = {}
        try:
            self.iban_structs = self.derive_iban()
        except Exception as e:
            self.iban_structs = None
            self.iban_error = 'iban._struct_to_re() / iban.dat could not be summarised: %r' % (e,)
        keys = self.B.cls_of_chars(''.join(self.charmap))
        self.charmap_keys = keys
        img = {}
        for k, v in self.charmap.items():
            img[self.B.block(k)] = self.B.block(v)
        self.charmap_img = img

    def charmap_fn(self, cls):
        if not (cls & self.charmap_keys):
            return cls
        return frozenset(self.charmap_img.get(b, b) for b in cls)

    def derive_charmap(self):
        # the look-alike table as derived (and shape-checked) by the C14 rules: one reading of util.py for both
        from ..props import c14
        return c14.charmap()

    def derive_iban(self):
        """country code -> per-position classes of the BBAN.  iban.dat is read as data; for every registered structure the
        pattern that iban._struct_to_re() builds is obtained by evaluating that function's expressions with the whitelisted
        evaluator (re.compile(p) stands for p, _struct_re.sub(conv, s) applies the nested conv() to every match), so any
        spelling of the conversion that the evaluator can follow gives the same table."""
        import re as _re, os
        from ..minieval import ev, Undecidable
        m = self.prog.mods['stdnum.iban']
        fn = m.funcs['_struct_to_re']
        # the compiled pattern whose .sub(<nested function>, <parameter>) rewrites the structure (whatever it is called)
        sub_recv = [c.func.value.id for c in ast.walk(fn) if isinstance(c, ast.Call) and isinstance(c.func, ast.Attribute) and c.func.attr == 'sub'
                    and isinstance(c.func.value, ast.Name) and c.func.value.id in m.assign_nodes]
        if len(set(sub_recv)) != 1:
            raise ValueError('no single module-level pattern is substituted in _struct_to_re()')
        struct_name = sub_recv[0]
        self.iban_struct_name = struct_name
        struct_pat = ast.literal_eval(m.assign_nodes[struct_name].args[0])
        sre = _re.compile(struct_pat)
        consts = {}
        for st in m.tree.body:
            if isinstance(st, ast.Assign) and len(st.targets) == 1 and isinstance(st.targets[0], ast.Name):
                try:
                    consts[st.targets[0].id] = ast.literal_eval(st.value)
                except (ValueError, SyntaxError):
                    pass
        inner = {n.name: n for n in fn.body if isinstance(n, ast.FunctionDef)}
        # the per-match callback may also be a private module-level function
        for n_, f_ in m.funcs.items():
            inner.setdefault(n_, f_)
        param = fn.args.args[0].arg

        def run(body, env, hooks):
            for st in body:
                if isinstance(st, ast.Expr) and isinstance(st.value, ast.Constant):
                    continue
                if isinstance(st, ast.FunctionDef):
                    continue
                if isinstance(st, ast.Assign) and len(st.targets) == 1 and isinstance(st.targets[0], ast.Name):
                    env[st.targets[0].id] = ev(st.value, env, hooks)
                elif isinstance(st, ast.Return) and st.value is not None:
                    return ev(st.value, env, hooks)
                else:
                    raise Undecidable('statement %s' % type(st).__name__)
            raise Undecidable('no return')

        def pattern_for(structure):
            def call_inner(name):
                f = inner[name]
                return lambda mm: run(f.body, dict(consts, **{f.args.args[0].arg: mm}), {})
            # evaluate the outer body; the one call the evaluator does not know is rewritten by hand
            env = dict(consts)
            env[param] = structure
            for st in fn.body:
                if isinstance(st, ast.Return) and st.value is not None:
                    node = st.value
                    # re.compile(<pattern expr>[, flags])
                    if isinstance(node, ast.Call) and ast.unparse(node.func) == 're.compile' and node.args:
                        if len(node.args) > 1 or node.keywords:
                            raise Undecidable('flags')
                        node = node.args[0]
                    subs = [c for c in ast.walk(node) if isinstance(c, ast.Call) and isinstance(c.func, ast.Attribute) and c.func.attr == 'sub'
                            and ast.unparse(c.func.value) == struct_name and len(c.args) == 2 and isinstance(c.args[0], ast.Name) and c.args[0].id in inner]
                    if len(subs) != 1 or ast.unparse(subs[0].args[1]) != param:
                        raise Undecidable('shape of the substitution')
                    conv = call_inner(subs[0].args[0].id)
                    rebuilt = sre.sub(lambda mm: conv(mm), structure)
                    # replace the call node by a name bound to the rebuilt text
                    import copy
                    node2 = copy.deepcopy(node)
                    for par in ast.walk(node2):
                        for f_, v_ in ast.iter_fields(par):
                            if isinstance(v_, list):
                                for i_, x_ in enumerate(v_):
                                    if isinstance(x_, ast.Call) and ast.dump(x_) == ast.dump(subs[0]):
                                        v_[i_] = ast.Name(id='__rebuilt', ctx=ast.Load())
                            elif isinstance(v_, ast.Call) and ast.dump(v_) == ast.dump(subs[0]):
                                setattr(par, f_, ast.Name(id='__rebuilt', ctx=ast.Load()))
                    if isinstance(node2, ast.Call) and ast.dump(node2) == ast.dump(subs[0]):
                        return rebuilt
                    return ev(node2, dict(env, __rebuilt=rebuilt), {})
            raise Undecidable('no return')
        # the class each structure letter stands for: the pattern built for the one-item structure 1!<letter>
        self.iban_letters = {}
        letters = set()
        for line in open(os.path.join(self.prog.repo, 'stdnum', 'iban.dat'), encoding='utf-8'):
            mb = _re.search(r'bban="([^"]*)"', line)
            if mb:
                letters.update(mm.group(2) for mm in sre.finditer(mb.group(1)))
        for L in sorted(letters | {'n', 'a', 'c'}):
            try:
                lang = RegexLang(pattern_for('1!' + L), 0, self.B)
            except (Undecidable, KeyError):
                continue
            if lang.ok and len(lang.alts) == 1 and len(lang.alts[0].items) == 1 and lang.alts[0].items[0].fixed():
                self.iban_letters[L] = lang.alts[0].items[0].cls
        out = {}
        path = os.path.join(self.prog.repo, 'stdnum', 'iban.dat')
        for line in open(path, encoding='utf-8'):
            if line[0] == '#' or not line.strip() or line[0] == ' ':
                continue
            cc = line.split()[0]
            mb = _re.search(r'bban="([^"]*)"', line)
            if not mb or not _re.match(r'^(?:%s)+$' % struct_pat, mb.group(1)):
                continue
            try:
                pat = pattern_for(mb.group(1))
            except Undecidable as e:
                self.iban_error = '_struct_to_re() cannot be followed by the evaluator: %s' % e
                return None
            lang = RegexLang(pat, 0, self.B) if isinstance(pat, str) else None
            if lang is None or not lang.ok or len(lang.alts) != 1 or lang.anch_end is None or not lang.anch_start \
                    or not all(it.fixed() and it.lo == 1 for it in lang.alts[0].items):
                self.iban_error = 'the pattern %r built for structure %r is not a fixed sequence of character classes' % (pat, mb.group(1))
                return None
            out[cc] = [it.cls for it in lang.alts[0].items]
        return out

    def derive_isdigits_pattern(self):
        m = self.prog.mods['stdnum.util']
        n = m.assign_nodes['_digits_re']
        return ast.literal_eval(n.args[0])

    # ------------------------------------------------------------------
    def analyse(self, modname, fname, param_values=None):
        """Analyse a function from a fresh environment. Returns (returns, events)."""
        ctx = self.ctx
        r = self.prog.resolve_name(self.prog.mods[modname], fname)
        if not r or r[0] != 'func':
            return None
        fmod, fn = r[1], r[2]
        fnode = self.prog.mods[fmod].funcs[fn]
        env = Env()
        args = []
        nd = len(fnode.args.defaults)
        npar = len(fnode.args.args)
        for i, p in enumerate(fnode.args.args):
            if param_values and p.arg in param_values:
                args.append(param_values[p.arg](env))
            elif i >= npar - nd and i > 0:
                d = fnode.args.defaults[i - (npar - nd)]
                dv = d.value if isinstance(d, ast.Constant) else None
                if isinstance(dv, bool):
                    args.append(Bool(None))
                elif dv is None and isinstance(d, ast.Constant):
                    args.append(Maybe([NONE, ctx.S.any_str(env), Bool(None)]) if p.arg.startswith(('validate_', 'allow_', 'check_', 'strip_', 'add_')) else Maybe([NONE, ctx.S.any_str(env)]))
                elif isinstance(dv, str):
                    args.append(ctx.S.any_str(env))
                else:
                    args.append(TOP)
            else:
                args.append(TOP)
        ctx.scopes = [[]]
        ctx.stack = [(modname, '<entry>')]
        val = self.call_func(Func(fmod, fn), args, {}, fnode, env)
        events = ctx.scopes[0]
        return env, val, events


def run(mods=None, verbose=False):
    t0 = time.time()
    I = Interp()
    print('setup %.1fs, %d blocks' % (time.time() - t0, I.B.n))
    names = mods or I.prog.number_modules()
    alarms = collections.OrderedDict()
    summary = {}
    crashed = []
    for mn in names:
        I.ctx.unsupported = []
        try:
            res = I.analyse(mn, 'validate')
        except Exception as e:
            import traceback
            crashed.append((mn, traceback.format_exc().splitlines()[-4:]))
            continue
        env, val, events = res
        bad = [ev for ev in events if not is_ve(ev.kind)]
        key = {}
        for ev in bad:
            k = (ev.kind, ev.chain[-1] if ev.chain else None, getattr(ev.node, 'lineno', 0), ev.why)
            key.setdefault(k, ev)
        alarms[mn] = list(key.values())
        rdesc = I.ctx.S.describe(env, val) if isinstance(val, Str) and not env.dead else repr(val)
        summary[mn] = (rdesc, len(I.ctx.unsupported), list(I.ctx.unsupported)[:3])
        if verbose:
            print(mn, 'R:', rdesc)
            for ev in alarms[mn]:
                print('    ALARM', ev.kind, ' > '.join(c[0].replace('stdnum.','')+'.'+c[1] for c in ev.chain[1:]), 'line', getattr(ev.node, 'lineno', 0), '|', ev.why)
            for u in I.ctx.unsupported[:5]:
                print('    unsupported', u)
    return I, alarms, summary, crashed


if __name__ == '__main__':
    mods = sys.argv[1:] or None
    I, alarms, summary, crashed = run(mods, verbose=bool(mods))
    if not mods:
        n_al = sum(len(v) for v in alarms.values())
        print('modules', len(alarms), 'with alarms', sum(1 for v in alarms.values() if v), 'alarms', n_al, 'crashed', len(crashed))
        for mn, tb in crashed:
            print('CRASH', mn, tb)
