"""STRABS prototype driver."""
import ast, sys, collections, time
from .values import *
from .model import Program
from .ublocks import get_blocks
from .core import Ctx, Exec, is_ve, kind_parents
from .joins import Joins, Maybe
from .expr import Exprs
from .subs import Subs
from .calls import Calls
from .methods import Methods
from .assume import Assume
from .regexlang import RegexLang
import unicodedata


class Interp(Exec, Joins, Exprs, Subs, Calls, Methods, Assume):
    def __init__(self, prog=None):
        self.prog = prog or Program()
        lits = self.prog.all_string_chars() | set('\n\r\t ')
        # look-alike table keys
        self.charmap = self.derive_charmap()
        lits |= set(self.charmap) | set(self.charmap.values())
        self.B = get_blocks(lits)
        self.ctx = Ctx(self.prog, self.B)
        Env.ALL = self.B.ALL
        self.closures = []
        self.modvals = {}
        self.regex_cache = {}
        self.memo = {}
        # module-level dicts that some function stores into: their membership tests are history dependent
        self.memo_names = set()
        for mn_, m_ in self.prog.mods.items():
            for n_ in ast.walk(m_.tree):
                if isinstance(n_, ast.Assign):
                    for t_ in n_.targets:
                        if isinstance(t_, ast.Subscript) and isinstance(t_.value, ast.Name) and t_.value.id in m_.assign_nodes:
                            self.memo_names.add((mn_, t_.value.id))
        pat = self.derive_isdigits_pattern()
        import os
        if os.environ.get('SA_ISDIGITS_FIX'):
            pat = pat.replace('$', '\\Z')
        self.isdigits_lang = RegexLang(pat, 0, self.B)
        try:
            self.iban_structs = self.derive_iban()
        except Exception:
            self.iban_structs = None
        keys = self.B.cls_of_chars(''.join(self.charmap))
        self.charmap_keys = keys
        img = {}
        for k, v in self.charmap.items():
            img[self.B.block(k)] = self.B.block(v)
        self.charmap_img = img

    def charmap_fn(self, cls):
        if not (cls & self.charmap_keys):
            return cls
        return frozenset(self.charmap_img.get(b, b) for b in cls)

    def derive_charmap(self):
        t = self.prog.mods['stdnum.util'].tree
        for n in ast.walk(t):
            if isinstance(n, ast.Call) and isinstance(n.func, ast.Name) and n.func.id == '_mk_char_map':
                table = ast.literal_eval(n.args[0])
                out = {}
                for names, tgt in table.items():
                    for nm in names.split(','):
                        out[unicodedata.lookup(nm)] = tgt
                return out
        raise RuntimeError('look-alike table not found')

    def derive_iban(self):
        """country code -> per-position classes of the BBAN, from iban.dat and the conversion table
        in iban._struct_to_re (both read as data; summary used only when the function has the
        expected shape: '^%s$' % _struct_re.sub(conv, structure))."""
        import re as _re, os
        from ..common import src as _src
        m = self.prog.mods['stdnum.iban']
        fn = m.funcs['_struct_to_re']
        struct_pat = ast.literal_eval(m.assign_nodes['_struct_re'].args[0])
        table = None
        for n in ast.walk(fn):
            if isinstance(n, ast.Dict) and all(isinstance(k, ast.Constant) for k in n.keys):
                table = {k.value: v.value for k, v in zip(n.keys, n.values) if isinstance(v, ast.Constant)}
        ret = [n for n in ast.walk(fn) if isinstance(n, ast.Return) and n.value is not None and not any(n is x for f in ast.walk(fn) if isinstance(f, ast.FunctionDef) and f is not fn for x in ast.walk(f))]
        if table is None or not ret or _src(ret[-1].value) != "re.compile('^%s$' % _struct_re.sub(conv, structure))":
            return None
        conv = [n for n in ast.walk(fn) if isinstance(n, ast.FunctionDef) and n.name == 'conv']
        if not conv or "'%s{%s}' % (chars, match.group(1))" not in _src(conv[0]) or 'match.group(2)' not in _src(conv[0]):
            return None
        cls = {}
        for k, pat in table.items():
            lang = RegexLang('^' + pat + '$', 0, self.B)
            if not lang.ok or len(lang.alts) != 1 or len(lang.alts[0].items) != 1:
                return None
            cls[k] = lang.alts[0].items[0].cls
        out = {}
        path = os.path.join(self.prog.repo, 'stdnum', 'iban.dat')
        sre = _re.compile(struct_pat)
        for line in open(path, encoding='utf-8'):
            if line[0] == '#' or not line.strip() or line[0] == ' ':
                continue
            cc = line.split()[0]
            mb = _re.search(r'bban="([^"]*)"', line)
            if not mb or not _re.match(r'^(?:%s)+$' % struct_pat, mb.group(1)):
                continue
            pos = []
            for mm in sre.finditer(mb.group(1)):
                if mm.group(2) not in cls:
                    pos = None
                    break
                pos.extend([cls[mm.group(2)]] * int(mm.group(1)))
            if pos is not None:
                out[cc] = pos
        return out

    def derive_isdigits_pattern(self):
        m = self.prog.mods['stdnum.util']
        n = m.assign_nodes['_digits_re']
        return ast.literal_eval(n.args[0])

    # ------------------------------------------------------------------
    def analyse(self, modname, fname, param_values=None):
        """Analyse a function from a fresh environment. Returns (returns, events)."""
        ctx = self.ctx
        r = self.prog.resolve_name(self.prog.mods[modname], fname)
        if not r or r[0] != 'func':
            return None
        fmod, fn = r[1], r[2]
        fnode = self.prog.mods[fmod].funcs[fn]
        env = Env()
        args = []
        nd = len(fnode.args.defaults)
        npar = len(fnode.args.args)
        for i, p in enumerate(fnode.args.args):
            if param_values and p.arg in param_values:
                args.append(param_values[p.arg](env))
            elif i >= npar - nd and i > 0:
                d = fnode.args.defaults[i - (npar - nd)]
                dv = d.value if isinstance(d, ast.Constant) else None
                if isinstance(dv, bool):
                    args.append(Bool(None))
                elif dv is None and isinstance(d, ast.Constant):
                    args.append(Maybe([NONE, ctx.S.any_str(env), Bool(None)]) if p.arg.startswith(('validate_', 'allow_', 'check_', 'strip_', 'add_')) else Maybe([NONE, ctx.S.any_str(env)]))
                elif isinstance(dv, str):
                    args.append(ctx.S.any_str(env))
                else:
                    args.append(TOP)
            else:
                args.append(TOP)
        ctx.scopes = [[]]
        ctx.stack = [(modname, '<entry>')]
        val = self.call_func(Func(fmod, fn), args, {}, fnode, env)
        events = ctx.scopes[0]
        return env, val, events


def run(mods=None, verbose=False):
    t0 = time.time()
    I = Interp()
    print('setup %.1fs, %d blocks' % (time.time() - t0, I.B.n))
    names = mods or I.prog.number_modules()
    alarms = collections.OrderedDict()
    summary = {}
    crashed = []
    for mn in names:
        I.ctx.unsupported = []
        try:
            res = I.analyse(mn, 'validate')
        except Exception as e:
            import traceback
            crashed.append((mn, traceback.format_exc().splitlines()[-4:]))
            continue
        env, val, events = res
        bad = [ev for ev in events if not is_ve(ev.kind)]
        key = {}
        for ev in bad:
            k = (ev.kind, ev.chain[-1] if ev.chain else None, getattr(ev.node, 'lineno', 0), ev.why)
            key.setdefault(k, ev)
        alarms[mn] = list(key.values())
        rdesc = I.ctx.S.describe(env, val) if isinstance(val, Str) and not env.dead else repr(val)
        summary[mn] = (rdesc, len(I.ctx.unsupported), list(I.ctx.unsupported)[:3])
        if verbose:
            print(mn, 'R:', rdesc)
            for ev in alarms[mn]:
                print('    ALARM', ev.kind, ' > '.join(c[0].replace('stdnum.','')+'.'+c[1] for c in ev.chain[1:]), 'line', getattr(ev.node, 'lineno', 0), '|', ev.why)
            for u in I.ctx.unsupported[:5]:
                print('    unsupported', u)
    return I, alarms, summary, crashed


if __name__ == '__main__':
    mods = sys.argv[1:] or None
    I, alarms, summary, crashed = run(mods, verbose=bool(mods))
    if not mods:
        n_al = sum(len(v) for v in alarms.values())
        print('modules', len(alarms), 'with alarms', sum(1 for v in alarms.values() if v), 'alarms', n_al, 'crashed', len(crashed))
        for mn, tb in crashed:
            print('CRASH', mn, tb)
