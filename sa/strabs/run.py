"""Whole-tree runs of the STRABS interpreter with a digest-keyed result cache.

analyse_validate(): for every number module, validate() is executed abstractly from
`validate(number=<any object>, options=<any admissible value>)`; the result per module is
  alarms   - partial operations that may raise something that is not a ValidationError and is
             not absorbed by an enclosing handler (with the call chain and the offending facts),
  returns  - one summary per return path (kind, length interval, whitespace at the edges,
             non-ASCII classes, imprecision mark),
  notes    - constructs the interpreter does not model."""
import ast
import hashlib
import multiprocessing
import os
import pickle
import sys
import time

from ..common import REPO, VERIF, src, rel
from .values import *
from .joins import Maybe
from .core import is_ve
from .interp import Interp

_I = None
ENGINE_FILES = None


def engine_digest():
    h = hashlib.sha1()
    here = os.path.dirname(os.path.abspath(__file__))
    for f in sorted(os.listdir(here)):
        if f.endswith('.py'):
            with open(os.path.join(here, f), 'rb') as fh:
                h.update(fh.read())
    return h


def tree_digest(extra=''):
    h = engine_digest()
    for root, dirs, files in os.walk(os.path.join(REPO, 'stdnum')):
        dirs.sort()
        for f in sorted(files):
            if f.endswith('.py') or f.endswith('.dat'):
                p = os.path.join(root, f)
                h.update(p.encode())
                with open(p, 'rb') as fh:
                    h.update(fh.read())
    h.update(extra.encode())
    h.update(sys.version.encode())
    return h.hexdigest()


def get_interp():
    global _I
    if _I is None:
        _I = Interp()
    return _I


def option_assignments(fnode):
    """Concrete assignments of the boolean options (every combination; others keep their default)."""
    import itertools
    nd = len(fnode.args.defaults)
    npar = len(fnode.args.args)
    names, choices = [], []
    for i, p in enumerate(fnode.args.args[1:], 1):
        if i >= npar - nd:
            d = fnode.args.defaults[i - (npar - nd)]
            dv = d.value if isinstance(d, ast.Constant) else '?'
            names.append(p.arg)
            if isinstance(dv, bool) or (dv is None and p.arg.startswith(('validate_', 'allow_', 'check_', 'strip_', 'add_'))):
                choices.append([True, False] + ([None] if dv is None else []))
            else:
                choices.append(['<default>'])
        else:
            names.append(p.arg)
            choices.append(['<top>'])
    for combo in itertools.product(*choices):
        yield dict(zip(names, combo))


def concrete_args(I, fnode, env, number, assignment):
    args = [number]
    nd = len(fnode.args.defaults)
    npar = len(fnode.args.args)
    for i, p in enumerate(fnode.args.args[1:], 1):
        v = assignment.get(p.arg, '<default>')
        if v == '<top>':
            args.append(TOP)
        elif v == '<default>':
            d = fnode.args.defaults[i - (npar - nd)]
            args.append(I.eval(d, env))
        elif v is None:
            args.append(NONE)
        else:
            args.append(Bool(v))
    return args


def entry_args(I, fnode, env, number=TOP):
    """Abstract arguments: the number is any object, every option any admissible value."""
    S = I.ctx.S
    args = [number]
    nd = len(fnode.args.defaults)
    npar = len(fnode.args.args)
    for i, p in enumerate(fnode.args.args[1:], 1):
        if i >= npar - nd:
            d = fnode.args.defaults[i - (npar - nd)]
            dv = d.value if isinstance(d, ast.Constant) else '?'
            if isinstance(dv, bool):
                args.append(Bool(None))
            elif dv is None:
                args.append(Maybe([NONE, S.any_str(env), Bool(None)]) if p.arg.startswith(('validate_', 'allow_', 'check_', 'strip_', 'add_'))
                            else Maybe([NONE, S.any_str(env)]))
            elif isinstance(dv, str) and dv != '?':
                args.append(S.any_str(env))
            else:
                args.append(TOP)
        else:
            args.append(TOP)
    return args


def describe_event(I, ev):
    chain = [c for c in ev.chain if c[1] not in ('<entry>',)]
    mod, func = (chain[-1] if chain else (ev.mod, '?'))
    m = I.prog.mods.get(mod)
    node = ev.node
    return {
        'kind': ev.kind,
        'module': mod,
        'file': rel(m.path) if m else mod,
        'func': func,
        'line': getattr(node, 'lineno', 0),
        'construct': src(node)[:200] if isinstance(node, ast.AST) else str(node)[:200],
        'why': ev.why,
        'chain': ['%s.%s' % (a.replace('stdnum.', ''), b) for a, b in chain],
        'reg': ev.reg,
    }


def summarise_return(I, env, v):
    S, B = I.ctx.S, I.B
    if isinstance(v, Str):
        cells = v.cells()
        allcls = frozenset().union(*[env.cls(c) for c in cells]) if cells else frozenset()
        if v.fixed:
            first = env.cls(v.pre[0]) if v.pre else frozenset()
            last = env.cls(v.pre[-1]) if v.pre else frozenset()
        else:
            first = env.cls(v.pre[0]) if v.pre else env.cls(v.body)
            last = env.cls(v.suf[0]) if v.suf else env.cls(v.body)
            if (v.lo or 0) == 0 and not v.pre:
                first = first | frozenset()
        nonascii = allcls - S.ASCII
        cats = set()
        import unicodedata as _u
        for b in nonascii:
            ch = B.sample[b]
            cats.add('decimal digits' if _u.category(ch) == 'Nd' else 'other digits' if ch.isdigit() else 'letters' if ch.isalpha()
                     else 'whitespace' if ch.isspace() else 'other characters')
        return {'kind': 'str', 'lo': v.lo or 0, 'hi': v.hi, 'ws_first': bool(first & S.WS), 'ws_last': bool(last & S.WS),
                'ws_first_desc': B.describe(first & S.WS)[:60] if first & S.WS else '', 'ws_last_desc': B.describe(last & S.WS)[:60] if last & S.WS else '',
                'nonascii': sorted(nonascii), 'nonascii_cats': sorted(cats), 'nonascii_chars': ''.join(sorted(B.sample[b] for b in nonascii))[:300], 'nonascii_desc': B.describe(nonascii)[:80] if nonascii else '',
                'imprecise': bool(v.imprecise), 'desc': S.describe(env, v)[:160]}
    if isinstance(v, Maybe):
        return {'kind': 'union', 'alts': [summarise_return(I, env, a) for a in v.alts], 'desc': repr(v)[:120]}
    if v is NONE:
        return {'kind': 'none', 'desc': 'None'}
    if v is TOP:
        return {'kind': 'top', 'desc': 'any object'}
    return {'kind': type(v).__name__.lower(), 'desc': repr(v)[:120]}


def _validate_worker(mn):
    I = get_interp()
    t0 = time.time()
    prog = I.prog
    r = prog.resolve_name(prog.mods[mn], 'validate')
    fmod, fn = r[1], r[2]
    fnode = prog.mods[fmod].funcs[fn]
    env = Env()
    I.ctx.scopes = [[]]
    I.ctx.stack = [(mn, '<entry>')]
    I.ctx.unsupported = []
    I.ctx.reg_obligations = []
    I.ctx.visited = set()
    I.closures = []
    I.memo = {}
    out = {'module': mn, 'alarms': [], 'returns': [], 'notes': [], 'crash': None, 'reg': [], 'sinks': []}
    try:
        args = entry_args(I, fnode, env)
        outs = I.call_func(Func(fmod, fn), args, {}, fnode, env, multi=True)
        events = I.ctx.scopes[0]
        seen = set()
        for ev in events:
            if is_ve(ev.kind):
                continue
            d = describe_event(I, ev)
            k = (d['kind'], d['module'], d['func'], d['construct'], d['reg'])
            if k in seen:
                continue
            seen.add(k)
            out['alarms'].append(d)
        if isinstance(outs, list):
            for e, v in outs:
                out['returns'].append(summarise_return(I, e, v))
        out['notes'] = [(m_[0].replace('stdnum.', '') + '.' + m_[1], line, what) for m_, line, what in I.ctx.unsupported][:20]
        out['reg'] = [(a, b, g, '%s.%s' % c, d_) for a, b, g, c, d_ in I.ctx.reg_obligations]
        out['n_events'] = len(events)
        out['sinks'] = sorted(I.ctx.visited)
    except Exception:
        import traceback
        out['crash'] = traceback.format_exc()[-1500:]
    out['wall'] = time.time() - t0
    return out


def same_cells(a, b):
    if isinstance(a, Str) and isinstance(b, Str) and a.sid == b.sid:
        return True
    return isinstance(a, Str) and isinstance(b, Str) and a.fixed == b.fixed and a.pre == b.pre and a.suf == b.suf and a.body == b.body \
        and (a.fixed or ((a.lo or 0) == (b.lo or 0) and a.hi == b.hi))


def _c02_worker(mn):
    """validate() applied to its own results: every return path must hand back the very same cells."""
    I = get_interp()
    S = I.ctx.S
    prog = I.prog
    r = prog.resolve_name(prog.mods[mn], 'validate')
    fmod, fn = r[1], r[2]
    fnode = prog.mods[fmod].funcs[fn]
    out = {'module': mn, 'paths': 0, 'fixed': 0, 'problems': [], 'crash': None}
    try:
      for assignment in option_assignments(fnode):
        env = Env()
        I.ctx.scopes = [[]]
        I.ctx.stack = [(mn, '<entry>')]
        I.ctx.unsupported = []
        I.closures = []
        I.memo = {}
        args = concrete_args(I, fnode, env, TOP, assignment)
        opts = ', '.join('%s=%s' % kv for kv in assignment.items() if kv[1] not in ('<default>', '<top>'))
        outs = I.call_func(Func(fmod, fn), args, {}, fnode, env, multi=True)
        if not isinstance(outs, list):
            continue
        for e0, v in outs:
            if not isinstance(v, Str):
                continue
            e = e0.copy()
            e.frames = [{}]
            # non-ASCII results are C15's finding; the fixed point is decided for the ASCII spellings
            S.refine_all(e, v, S.ASCII)
            if e.dead:
                continue
            out['paths'] += 1
            desc = (('[%s] ' % opts) if opts else '') + S.describe(e0, v)[:100]
            # (a) compact() must be the identity on every accepted value
            rc = prog.resolve_name(prog.mods[mn], 'compact')
            if rc and rc[0] == 'func':
                cnode = prog.mods[rc[1]].funcs[rc[2]]
                ec = e.copy()
                I.ctx.scopes = [[]]
                I.ctx.stack = [(mn, '<entry>')]
                I.closures = []
                couts = I.call_func(Func(rc[1], rc[2]), [v], {}, cnode, ec, multi=True)
                cbad = None
                if isinstance(couts, list):
                    for ce, cv in couts:
                        if not same_cells(v, cv):
                            cbad = S.describe(ce, cv)[:100] if isinstance(cv, Str) else repr(cv)[:60]
                            break
                if cbad is not None:
                    out['problems'].append(('compact', desc, cbad))
                    continue
            I.ctx.scopes = [[]]
            I.ctx.stack = [(mn, '<entry>')]
            I.closures = []
            outs2 = I.call_func(Func(fmod, fn), [v] + args[1:], {}, fnode, e, multi=True)
            if not isinstance(outs2, list) or not outs2:
                kinds = sorted(set(ev.kind for ev in I.ctx.scopes[0]))
                out['problems'].append(('rejected', desc, 'every path of validate() applied to its own result raises %s' % kinds))
                continue
            ok = True
            for e2, v2 in outs2:
                if not same_cells(v, v2):
                    ok = False
                    out['problems'].append(('changed', desc, (S.describe(e2, v2)[:100] if isinstance(v2, Str) else repr(v2)[:60])))
                    break
            if ok:
                out['fixed'] += 1
    except Exception:
        import traceback
        out['crash'] = traceback.format_exc()[-1200:]
    return out


def analyse_c02(names=None, jobs=None):
    jobs = jobs or min(16, os.cpu_count() or 1)
    I = get_interp()
    mods = names or I.prog.number_modules()
    res = _pool_map(_c02_worker, list(mods), jobs)
    return {r['module']: r for r in res}


def _pool_map(fn, items, jobs):
    if jobs <= 1 or len(items) <= 2:
        return [fn(x) for x in items]
    ctx = multiprocessing.get_context('fork')
    with ctx.Pool(jobs) as pool:
        return pool.map(fn, items, chunksize=1)


def analyse_validate(names=None, jobs=None, use_cache=True):
    jobs = jobs or min(16, os.cpu_count() or 1)
    key = tree_digest('validate-v1')
    cpath = os.path.join(os.environ.get('SA_CACHE', os.path.join(VERIF, '.cache')), 'validate-%s.pkl' % key[:20])
    if use_cache and names is None and os.path.exists(cpath):
        try:
            with open(cpath, 'rb') as fh:
                return pickle.load(fh)
        except Exception:
            pass
    I = get_interp()
    mods = names or I.prog.number_modules()
    res = _pool_map(_validate_worker, list(mods), jobs)
    out = {r['module']: r for r in res}
    if use_cache and names is None:
        os.makedirs(os.path.dirname(cpath), exist_ok=True)
        tmp = cpath + '.%d' % os.getpid()
        with open(tmp, 'wb') as fh:
            pickle.dump(out, fh)
        os.replace(tmp, cpath)
    return out


if __name__ == '__main__':
    names = sys.argv[1:] or None
    t = time.time()
    res = analyse_validate(names, use_cache=False)
    n = 0
    for mn, r in res.items():
        if r['crash']:
            print('CRASH', mn, r['crash'][-300:])
        for a in r['alarms']:
            n += 1
            print('%s | %s | %s L%d | %s | %s' % (mn.replace('stdnum.', ''), a['kind'], ' > '.join(a['chain']), a['line'], a['construct'][:60], a['why'][:100]))
        if names:
            for x in r['returns']:
                print('   R:', x['desc'], '' if x['kind'] != 'str' else ('ws=%s/%s nonascii=%s' % (x['ws_first'], x['ws_last'], x['nonascii_desc'])))
            for x in r['notes']:
                print('   note:', x)
    print('%d modules, %d alarms, %.1fs' % (len(res), n, time.time() - t))
