"""Whole-tree runs of the STRABS interpreter with a digest-keyed result cache.

analyse_validate(): for every number module, validate() is executed abstractly from
`validate(number=<any object>, options=<any admissible value>)`; the result per module is
  alarms   - partial operations that may raise something that is not a ValidationError and is
             not absorbed by an enclosing handler (with the call chain and the offending facts),
  returns  - one summary per return path (kind, length interval, whitespace at the edges,
             non-ASCII classes, imprecision mark),
  notes    - constructs the interpreter does not model."""
import ast
import hashlib
import multiprocessing
import os
import pickle
import sys
import time

from ..common import REPO, VERIF, src, rel
from .values import *
from .joins import Maybe
from .core import is_ve
from .interp import Interp

_I = None
ENGINE_FILES = None


def engine_digest():
    h = hashlib.sha1()
    # everything under sa/ can feed the interpreter (the look-alike table is derived by props/c14.py, evaluators, the registry reader)
    top = os.path.dirname(os.path.dirname(os.path.abspath(__file__)))
    for root, dirs, files in os.walk(top):
        dirs.sort()
        for f in sorted(files):
            if f.endswith('.py'):
                with open(os.path.join(root, f), 'rb') as fh:
                    h.update(fh.read())
    return h


def prune_cache(d, keep=8):
    """Results of older trees / engine versions are never read again: keep the newest few files only."""
    try:
        files = sorted((os.path.join(d, f) for f in os.listdir(d) if f.endswith('.pkl')), key=os.path.getmtime, reverse=True)
        for f in files[keep:]:
            os.remove(f)
    except OSError:
        pass


def tree_digest(extra=''):
    h = engine_digest()
    for root, dirs, files in os.walk(os.path.join(REPO, 'stdnum')):
        dirs.sort()
        for f in sorted(files):
            if f.endswith('.py') or f.endswith('.dat'):
                p = os.path.join(root, f)
                h.update(p.encode())
                with open(p, 'rb') as fh:
                    h.update(fh.read())
    h.update(extra.encode())
    h.update(b'thorough' if os.environ.get('SA_THOROUGH') else b'quick')
    h.update(sys.version.encode())
    return h.hexdigest()


def get_interp():
    global _I
    if _I is None:
        _I = Interp()
    if _I.iban_error:
        # without the per-country BBAN classes the national IBAN modules would be analysed against "any string": no verdict at all
        from ..common import AnalysisError
        raise AnalysisError('stdnum/iban.py: %s' % _I.iban_error)
    return _I


def option_assignments(fnode):
    """Concrete assignments of the boolean options (every combination; others keep their default)."""
    import itertools
    nd = len(fnode.args.defaults)
    npar = len(fnode.args.args)
    names, choices = [], []
    for i, p in enumerate(fnode.args.args[1:], 1):
        if i >= npar - nd:
            d = fnode.args.defaults[i - (npar - nd)]
            dv = d.value if isinstance(d, ast.Constant) else '?'
            names.append(p.arg)
            if isinstance(dv, bool) or (dv is None and p.arg.startswith(('validate_', 'allow_', 'check_', 'strip_', 'add_'))):
                choices.append([True, False] + ([None] if dv is None else []))
            else:
                choices.append(['<default>'])
        else:
            names.append(p.arg)
            choices.append(['<top>'])
    for combo in itertools.product(*choices):
        yield dict(zip(names, combo))


def concrete_args(I, fnode, env, number, assignment):
    args = [number]
    nd = len(fnode.args.defaults)
    npar = len(fnode.args.args)
    for i, p in enumerate(fnode.args.args[1:], 1):
        v = assignment.get(p.arg, '<default>')
        if v == '<top>':
            args.append(TOP)
        elif v == '<default>':
            d = fnode.args.defaults[i - (npar - nd)]
            args.append(I.eval(d, env))
        elif v is None:
            args.append(NONE)
        else:
            args.append(Bool(v))
    return args


def entry_args(I, fnode, env, number=TOP):
    """Abstract arguments: the number is any object, every option any admissible value."""
    S = I.ctx.S
    args = [number]
    nd = len(fnode.args.defaults)
    npar = len(fnode.args.args)
    for i, p in enumerate(fnode.args.args[1:], 1):
        if i >= npar - nd:
            d = fnode.args.defaults[i - (npar - nd)]
            dv = d.value if isinstance(d, ast.Constant) else '?'
            if isinstance(dv, bool):
                args.append(Bool(None))
            elif dv is None:
                args.append(Maybe([NONE, S.any_str(env), Bool(None)]) if p.arg.startswith(('validate_', 'allow_', 'check_', 'strip_', 'add_'))
                            else Maybe([NONE, S.any_str(env)]))
            elif isinstance(dv, str) and dv != '?':
                args.append(S.any_str(env))
            else:
                args.append(TOP)
        else:
            args.append(TOP)
    return args


def describe_event(I, ev):
    chain = [c for c in ev.chain if c[1] not in ('<entry>',)]
    mod, func = (chain[-1] if chain else (ev.mod, '?'))
    m = I.prog.mods.get(mod)
    node = ev.node
    return {
        'kind': ev.kind,
        'module': mod,
        'file': rel(m.path) if m else mod,
        'func': func,
        'line': getattr(node, 'lineno', 0),
        'construct': src(node)[:200] if isinstance(node, ast.AST) else str(node)[:200],
        'why': ev.why,
        'chain': ['%s.%s' % (a.replace('stdnum.', ''), b) for a, b in chain],
        'reg': ev.reg,
    }


def summarise_return(I, env, v):
    S, B = I.ctx.S, I.B
    if isinstance(v, Str):
        cells = v.cells()
        allcls = frozenset().union(*[env.cls(c) for c in cells]) if cells else frozenset()
        if v.fixed:
            first = env.cls(v.pre[0]) if v.pre else frozenset()
            last = env.cls(v.pre[-1]) if v.pre else frozenset()
        else:
            first = env.cls(v.pre[0]) if v.pre else env.cls(v.body)
            last = env.cls(v.suf[0]) if v.suf else env.cls(v.body)
            if (v.lo or 0) == 0 and not v.pre:
                first = first | frozenset()
        nonascii = allcls - S.ASCII

        def exact(c):
            ex_ = B.exact_chars(env.cls(c))
            return ''.join(sorted(ex_)) if ex_ is not None else None
        covered = set()
        algs = set()
        for f in env.facts:
            if isinstance(f, tuple) and f and f[0] == 'cov':
                covered.update(f[3:])
                if f[1] in I.ALG_MODULES:
                    algs.add(f[1])
        uncovered = []
        from .strops import DERIVED
        for i, c in enumerate(cells):
            if isinstance(c, frozenset) or c in covered:
                continue
            ex = B.exact_chars(env.cls(c))
            if ex is not None and len(ex) <= 1:
                continue
            d = DERIVED.get(c)
            srcs = [p for p, _inv in (d if isinstance(d, list) else [d])] if d else []
            if srcs and all(p in covered for p in srcs):
                continue
            uncovered.append((i if v.fixed or i < len(v.pre) else i - len(cells), B.describe(env.cls(c))[:30]))
        cats = set()
        import unicodedata as _u
        for b in nonascii:
            ch = B.sample[b]
            cats.add('decimal digits' if _u.category(ch) == 'Nd' else 'other digits' if ch.isdigit() else 'letters' if ch.isalpha()
                     else 'whitespace' if ch.isspace() else 'other characters')
        return {'kind': 'str', 'lo': v.lo or 0, 'hi': v.hi, 'ws_first': bool(first & S.WS), 'ws_last': bool(last & S.WS),
                'ws_first_desc': B.describe(first & S.WS)[:60] if first & S.WS else '', 'ws_last_desc': B.describe(last & S.WS)[:60] if last & S.WS else '',
                'nonascii': sorted(nonascii), 'nonascii_cats': sorted(cats), 'nonascii_chars': ''.join(sorted(B.sample[b] for b in nonascii))[:300], 'nonascii_desc': B.describe(nonascii)[:80] if nonascii else '',
                'imprecise': bool(v.imprecise), 'desc': S.describe(env, v)[:160],
                'uncovered': uncovered, 'algorithms': sorted(algs), 'fixed': v.fixed,
                'vshape': None if v.fixed else {'pre': [exact(c) for c in v.pre], 'body': exact(v.body), 'suf': [exact(c) for c in v.suf]},
                'vacuous': sorted('%s.%s' % (f[1], f[2]) for f in env.facts if isinstance(f, tuple) and f and f[0] == 'vacuous'),
                'input_uncovered': [list(f[1]) for f in env.facts if isinstance(f, tuple) and f and f[0] == 'uncov'],
                'input_desc': [f[2] for f in env.facts if isinstance(f, tuple) and f and f[0] == 'uncov'],
                'shape': [(''.join(sorted(B.exact_chars(env.cls(c)))) if B.exact_chars(env.cls(c)) is not None else None) for c in cells] if v.fixed else None}
    if isinstance(v, Maybe):
        return {'kind': 'union', 'alts': [summarise_return(I, env, a) for a in v.alts], 'desc': repr(v)[:120]}
    if v is NONE:
        return {'kind': 'none', 'desc': 'None'}
    if v is TOP:
        return {'kind': 'top', 'desc': 'any object'}
    return {'kind': type(v).__name__.lower(), 'desc': repr(v)[:120]}


def _validate_worker(mn):
    I = get_interp()
    t0 = time.time()
    prog = I.prog
    r = prog.resolve_name(prog.mods[mn], 'validate')
    fmod, fn = r[1], r[2]
    fnode = prog.mods[fmod].funcs[fn]
    env = Env()
    I.ctx.scopes = [[]]
    I.ctx.stack = [(mn, '<entry>')]
    I.ctx.unsupported = []
    I.ctx.reg_obligations = []
    I.ctx.visited = set()
    I.closures = []
    I.memo = {}
    out = {'module': mn, 'alarms': [], 'returns': [], 'notes': [], 'crash': None, 'reg': [], 'sinks': []}
    try:
        args = entry_args(I, fnode, env)
        outs = I.call_func(Func(fmod, fn), args, {}, fnode, env, multi=True)
        events = I.ctx.scopes[0]
        seen = set()
        for ev in events:
            if is_ve(ev.kind):
                continue
            d = describe_event(I, ev)
            k = (d['kind'], d['module'], d['func'], d['construct'], d['reg'])
            if k in seen:
                continue
            seen.add(k)
            out['alarms'].append(d)
        if isinstance(outs, list):
            for e, v in outs:
                out['returns'].append(summarise_return(I, e, v))
        out['notes'] = [(m_[0].replace('stdnum.', '') + '.' + m_[1], line, what) for m_, line, what in I.ctx.unsupported][:20]
        out['reg'] = [(a, b, g, '%s.%s' % c, d_) for a, b, g, c, d_ in I.ctx.reg_obligations]
        out['n_events'] = len(events)
        out['sinks'] = sorted(I.ctx.visited)
    except Exception:
        import traceback
        out['crash'] = traceback.format_exc()[-1500:]
    out['wall'] = time.time() - t0
    return out


def same_cells(a, b):
    if isinstance(a, Str) and isinstance(b, Str) and a.sid == b.sid:
        return True
    return isinstance(a, Str) and isinstance(b, Str) and a.fixed == b.fixed and a.pre == b.pre and a.suf == b.suf and a.body == b.body \
        and (a.fixed or ((a.lo or 0) == (b.lo or 0) and a.hi == b.hi))


def _c02_worker(mn):
    """validate() applied to its own results: every return path must hand back the very same cells."""
    I = get_interp()
    S = I.ctx.S
    prog = I.prog
    r = prog.resolve_name(prog.mods[mn], 'validate')
    fmod, fn = r[1], r[2]
    fnode = prog.mods[fmod].funcs[fn]
    out = {'module': mn, 'paths': 0, 'fixed': 0, 'problems': [], 'crash': None}
    try:
      for assignment in option_assignments(fnode):
        env = Env()
        I.ctx.scopes = [[]]
        I.ctx.stack = [(mn, '<entry>')]
        I.ctx.unsupported = []
        I.closures = []
        I.memo = {}
        args = concrete_args(I, fnode, env, TOP, assignment)
        opts = ', '.join('%s=%s' % kv for kv in assignment.items() if kv[1] not in ('<default>', '<top>'))
        outs = I.call_func(Func(fmod, fn), args, {}, fnode, env, multi=True)
        if not isinstance(outs, list):
            continue
        for e0, v in outs:
            if not isinstance(v, Str):
                continue
            e = e0.copy()
            e.frames = [{}]
            # non-ASCII results are C15's finding; the fixed point is decided for the ASCII spellings
            S.refine_all(e, v, S.ASCII)
            if e.dead:
                continue
            out['paths'] += 1
            desc = (('[%s] ' % opts) if opts else '') + S.describe(e0, v)[:100]
            # (a) compact() must be the identity on every accepted value
            rc = prog.resolve_name(prog.mods[mn], 'compact')
            if rc and rc[0] == 'func':
                cnode = prog.mods[rc[1]].funcs[rc[2]]
                ec = e.copy()
                I.ctx.scopes = [[]]
                I.ctx.stack = [(mn, '<entry>')]
                I.closures = []
                couts = I.call_func(Func(rc[1], rc[2]), [v], {}, cnode, ec, multi=True)
                cbad = None
                if isinstance(couts, list):
                    for ce, cv in couts:
                        if not same_cells(v, cv):
                            cbad = S.describe(ce, cv)[:100] if isinstance(cv, Str) else repr(cv)[:60]
                            break
                if cbad is not None:
                    out['problems'].append(('compact', desc, cbad))
                    continue
            I.ctx.scopes = [[]]
            I.ctx.stack = [(mn, '<entry>')]
            I.closures = []
            outs2 = I.call_func(Func(fmod, fn), [v] + args[1:], {}, fnode, e, multi=True)
            if not isinstance(outs2, list) or not outs2:
                kinds = sorted(set(ev.kind for ev in I.ctx.scopes[0]))
                out['problems'].append(('rejected', desc, 'every path of validate() applied to its own result raises %s' % kinds))
                continue
            ok = True
            for e2, v2 in outs2:
                if not same_cells(v, v2):
                    ok = False
                    out['problems'].append(('changed', desc, (S.describe(e2, v2)[:100] if isinstance(v2, Str) else repr(v2)[:60])))
                    break
            if ok:
                out['fixed'] += 1
    except Exception:
        import traceback
        out['crash'] = traceback.format_exc()[-1200:]
    return out


def analyse_c02(names=None, jobs=None):
    jobs = jobs or min(16, os.cpu_count() or 1)
    I = get_interp()
    mods = names or I.prog.number_modules()
    res = _pool_map(_c02_worker, list(mods), jobs)
    return {r['module']: r for r in res}


def kind_of(I, env, v):
    S = I.ctx.S
    from .expr import DictV
    if isinstance(v, Str):
        return 'str'
    if isinstance(v, Opaque):
        return v.kind
    if isinstance(v, Maybe):
        return '|'.join(sorted(set(kind_of(I, env, a) for a in v.alts)))
    if v is NONE or isinstance(v, RegNone):
        return 'None'
    if isinstance(v, (Tup, ListOf, RegInfo)):
        return 'seq'
    if isinstance(v, (RegDict, DictV)):
        return 'dict'
    if isinstance(v, Int):
        return 'int'
    if isinstance(v, Bool):
        return 'bool'
    if v is TOP:
        return 'any'
    return type(v).__name__.lower()


def eligible_functions(prog, mn):
    m = prog.mods[mn]
    names = set(m.funcs) | set(m.aliases) | set(m.imports)
    out = []
    for name in sorted(names):
        if not (name.startswith('get_') or name.startswith('to_') or name in ('info', 'split', 'format')):
            continue
        if name in ('get_soap_client', 'get_cc_module'):
            continue
        rr = prog.resolve_name(m, name)
        if not rr or rr[0] != 'func':
            continue
        gnode = prog.mods[rr[1]].funcs[rr[2]]
        req = [a.arg for a in gnode.args.args][:len(gnode.args.args) - len(gnode.args.defaults)]
        if len(req) != 1:
            continue
        out.append((name, rr[1], rr[2], gnode))
    return out


def _functions_worker(mn):
    """Getters, format and conversions analysed under validate()'s post-condition."""
    I = get_interp()
    S, B = I.ctx.S, I.B
    prog = I.prog
    r = prog.resolve_name(prog.mods[mn], 'validate')
    fmod, fn = r[1], r[2]
    fnode = prog.mods[fmod].funcs[fn]
    out = {'module': mn, 'functions': {}, 'crash': None}
    try:
        env = Env()
        I.ctx.scopes = [[]]
        I.ctx.stack = [(mn, '<entry>')]
        I.ctx.unsupported = []
        I.closures = []
        I.memo = {}
        args = entry_args(I, fnode, env)
        # default options of validate: the accepted language users normally get
        outs = I.call_func(Func(fmod, fn), args, {}, fnode, env, multi=True)
        if not isinstance(outs, list):
            return out
        vals = []
        for e, v in outs:
            if not isinstance(v, Str):
                continue
            # decided for ASCII spellings (non-ASCII results are C15's finding)
            e = e.copy()
            S.refine_all(e, v, S.ASCII)
            if e.dead:
                continue
            if not v.fixed and v.hi is not None and v.hi - (v.lo or 0) <= 40:
                # specialise bounded variable-length numbers by length
                for n in range(v.lo or 0, v.hi + 1):
                    e2 = e.copy()
                    m_ = S.materialise(e2, v, n)
                    if m_ is not None and not e2.dead:
                        m_.sid = fresh_id()
                        vals.append((e2, m_))
            else:
                vals.append((e, v))
        for name, gmod, gname, gnode in eligible_functions(prog, mn):
            rec = {'alarms': [], 'kinds': set(), 'paths': 0, 'genders': set(), 'tilings': 0, 'tiling_problems': [], 'literals': set(), 'notes': [],
                   'where': (rel(prog.mods[gmod].path), gnode.lineno)}
            seen = set()
            for e0, v in vals:
                e = e0.copy()
                e.frames = [{}]
                I.ctx.scopes = [[]]
                I.ctx.stack = [(mn, '<entry>')]
                I.closures = []
                I.ctx.unsupported = []
                try:
                    gouts = I.call_func(Func(gmod, gname), [v], {}, gnode, e, multi=True)
                except Exception as ex:
                    rec['notes'].append('engine error: %s' % str(ex)[:80])
                    I.closures = []
                    continue
                for ev in I.ctx.scopes[0]:
                    if is_ve(ev.kind):
                        continue
                    d = describe_event(I, ev)
                    k = (d['kind'], d['module'], d['func'], d['construct'], d['reg'])
                    if k not in seen:
                        seen.add(k)
                        d['input'] = S.describe(e0, v)[:100]
                        rec['alarms'].append(d)
                rec['notes'].extend('%s:%s %s' % (a[0].replace('stdnum.', '') + '.' + a[1], b, c) for a, b, c in I.ctx.unsupported[:3])
                if not isinstance(gouts, list):
                    continue
                for ge, gv in gouts:
                    rec['paths'] += 1
                    rec['kinds'].add(kind_of(I, ge, gv))
                    if name == 'get_gender':
                        for galt in (gv.alts if isinstance(gv, Maybe) else [gv]):
                            if isinstance(galt, Str):
                                vals_ = S.enum_values(ge, galt, 8)
                                rec['genders'].add(','.join(vals_) if vals_ else S.describe(ge, galt)[:40])
                            else:
                                rec['genders'].add(kind_of(I, ge, galt))
                    if name == 'split' and v.fixed:
                        parts = gv.elems if isinstance(gv, Tup) else None
                        if parts is not None and all(isinstance(x, Str) and x.fixed for x in parts):
                            cells = [c for x in parts for c in x.pre]
                            rec['tilings'] += 1
                            if cells != list(v.pre):
                                rec['tiling_problems'].append('length %d: parts do not concatenate to the number (positions %s)'
                                                              % (len(v.pre), [list(v.pre).index(c) if c in v.pre else '?' for c in cells]))
                        else:
                            rec['notes'].append('split result not a tuple of fixed strings')
                    if name == 'format' and isinstance(gv, Str):
                        # compact(format(x)) must be compact(x): run the module's compact on the formatted value
                        rc = prog.resolve_name(prog.mods[mn], 'compact')
                        if rc and rc[0] == 'func':
                            cnode = prog.mods[rc[1]].funcs[rc[2]]
                            ec = ge.copy()
                            ec.frames = [{}]
                            I.ctx.scopes.append([])
                            I.ctx.stack = [(mn, '<entry>')]
                            try:
                                couts = I.call_func(Func(rc[1], rc[2]), [gv], {}, cnode, ec, multi=True)
                            finally:
                                I.ctx.scopes.pop()
                            rec['roundtrips'] = rec.get('roundtrips', 0) + 1
                            def same_pos(ce, a, b):
                                if a == b:
                                    return True
                                ca, cb = ce.cls(a), ce.cls(b)
                                ex = B.exact_chars(ca)
                                return ca == cb and ex is not None and len(ex) == 1
                            good = isinstance(couts, list) and couts and all(
                                isinstance(cv, Str) and (cv.sid == v.sid or (cv.fixed and v.fixed and len(cv.pre) == len(v.pre)
                                                                             and all(same_pos(ce, a, b) for a, b in zip(cv.pre, v.pre)))) for ce, cv in couts)
                            if not good:
                                d0 = S.describe(ge, gv)[:70]
                                d1 = (S.describe(couts[0][0], couts[0][1])[:70] if isinstance(couts, list) and couts and isinstance(couts[0][1], Str) else 'no result')
                                rec.setdefault('roundtrip_problems', []).append('number %s -> format %s -> compact %s' % (S.describe(e0, v)[:60], d0, d1))
                        if v.fixed and gv.fixed:
                            srcc = list(v.pre)
                            seq = [c for c in gv.pre if not isinstance(c, frozenset)]
                            lits = [c for c in gv.pre if isinstance(c, frozenset)]
                            rec['tilings'] += 1
                            if seq != srcc:
                                pos = [srcc.index(c) if c in srcc else '?' for c in seq]
                                rec['tiling_problems'].append('length %d: output carries positions %s of the number' % (len(srcc), pos))
                            for c in lits:
                                ex_ = B.exact_chars(c)
                                rec['literals'].add(''.join(sorted(ex_)) if ex_ is not None else '<class>')
                        elif v.fixed:
                            rec['tilings'] += 1
                            rec['tiling_problems'].append('length %d: output shape %s cannot be related to the input positions' % (len(v.pre), S.describe(ge, gv)[:60]))
                        else:
                            # variable length input: same string identity or cell-wise containment is not checkable
                            if gv.sid != v.sid:
                                rec['tilings'] += 1
                                rec['tiling_problems'].append('variable-length number %s: output %s' % (S.describe(e0, v)[:50], S.describe(ge, gv)[:50]))
                            else:
                                rec['tilings'] += 1
            rec['kinds'] = sorted(rec['kinds'])
            rec['genders'] = sorted(rec['genders'])
            rec['literals'] = sorted(rec['literals'])
            rec['notes'] = sorted(set(rec['notes']))[:5]
            out['functions'][name] = rec
    except Exception:
        import traceback
        out['crash'] = traceback.format_exc()[-1500:]
    return out


def analyse_functions(names=None, jobs=None, use_cache=True):
    jobs = jobs or min(16, os.cpu_count() or 1)
    key = tree_digest('functions-v1')
    cpath = os.path.join(os.environ.get('SA_CACHE', os.path.join(VERIF, '.cache')), 'functions-%s.pkl' % key[:20])
    if use_cache and names is None and os.path.exists(cpath):
        try:
            with open(cpath, 'rb') as fh:
                return pickle.load(fh)
        except Exception:
            pass
    I = get_interp()
    mods = names or I.prog.number_modules()
    res = _pool_map(_functions_worker, list(mods), jobs)
    out = {r['module']: r for r in res}
    if use_cache and names is None:
        os.makedirs(os.path.dirname(cpath), exist_ok=True)
        tmp = cpath + '.%d' % os.getpid()
        with open(tmp, 'wb') as fh:
            pickle.dump(out, fh)
        os.replace(tmp, cpath)
        prune_cache(os.path.dirname(cpath))
    return out


def dispatch_table(modname, codes, fname='_get_cc_module'):
    """Constant propagation through a dispatch function: country code -> module name / None (+ foreign exception kinds)."""
    I = get_interp()
    S = I.ctx.S
    fn = I.prog.mods[modname].funcs[fname]
    out = {}
    for cc in codes:
        env = Env()
        I.ctx.scopes = [[]]
        I.ctx.stack = [(modname, '<entry>')]
        I.closures = []
        I.memo = {}
        v = I.call_func(Func(modname, fname), [S.const(cc)], {}, fn, env)
        evs = sorted(set(e.kind for e in I.ctx.scopes[0]))
        if env.dead:
            val = 'raises'
        elif isinstance(v, Mod):
            val = v.name
        elif v is NONE:
            val = None
        elif isinstance(v, ModSet):
            val = 'one of %d modules%s' % (len(v.names), ' or None' if v.maybe_none else '')
        else:
            val = repr(v)[:60]
        out[cc] = (val, evs)
    return out


def _wrapper_worker(job):
    """wrapper W must have a returning path for every accepted shape of constituent K (optionally prefixed)."""
    W, K, prefix = job
    I = get_interp()
    S, B = I.ctx.S, I.B
    prog = I.prog
    out = {'job': job, 'shapes': 0, 'rejected': [], 'noprefix': [], 'crash': None}
    try:
        rk = prog.resolve_name(prog.mods[K], 'validate')
        rw = prog.resolve_name(prog.mods[W], 'validate')
        knode = prog.mods[rk[1]].funcs[rk[2]]
        wnode = prog.mods[rw[1]].funcs[rw[2]]
        env = Env()
        I.ctx.scopes = [[]]
        I.ctx.stack = [(K, '<entry>')]
        I.closures = []
        I.memo = {}
        kargs = entry_args(I, knode, env)
        outs = I.call_func(Func(rk[1], rk[2]), kargs, {}, knode, env, multi=True)
        if not isinstance(outs, list):
            return out
        for e0, v in outs:
            if not isinstance(v, Str):
                continue
            e1 = e0.copy()
            S.refine_all(e1, v, S.ASCII)
            if e1.dead:
                continue
            variants = [(e1, v, '')]
            ex = None
            # split a small first-character class so that a wrapper that drops one letter is noticed
            first = v.pre[0] if v.pre else None
            if prefix is None and first is not None and not isinstance(first, frozenset):
                ex = B.exact_chars(e1.cls(first))
                if ex is not None and 1 < len(ex) <= 40:
                    variants = []
                    for ch in sorted(ex):
                        e2 = e1.copy()
                        S.refine_cell(e2, first, B.cls_of_chars(ch))
                        if not e2.dead:
                            variants.append((e2, v, ' first character %r' % ch))
            # the number as it was written before validate() normalised it further (padding, re-casing): the wrapper is given that too
            for f_ in e1.facts:
                if isinstance(f_, tuple) and f_ and f_[0] == 'inputstr' and isinstance(f_[1], Str) and f_[1].sid != v.sid:
                    s_in = f_[1]
                    if s_in.fixed:
                        cands_ = [s_in] if tuple(s_in.pre) != tuple(v.pre if v.fixed else ()) else []
                    else:
                        top_ = s_in.hi if s_in.hi is not None else (len(v.pre) if v.fixed else v.hi)
                        cands_ = list(range(max(s_in.lo or 0, 1), top_ + 1)) if top_ is not None and top_ - (s_in.lo or 0) <= 20 else []
                    for cand in cands_:
                        e_in = e1.copy()
                        c_in = cand if isinstance(cand, Str) else S.materialise(e_in, s_in, cand)
                        if c_in is None or e_in.dead:
                            continue
                        if not isinstance(cand, Str):
                            c_in.sid = fresh_id()
                        S.refine_all(e_in, c_in, S.ASCII)
                        if e_in.dead:
                            continue
                        if not isinstance(cand, Str):
                            # a length of the written form is only a witness when the constituent itself accepts it
                            ek_ = e_in.copy()
                            ek_.frames = [{}]
                            I.ctx.scopes = [[]]
                            I.ctx.stack = [(K, '<entry>')]
                            I.closures = []
                            I.memo = {}
                            ko_ = I.call_func(Func(rk[1], rk[2]), [c_in] + entry_args(I, knode, ek_)[1:], {}, knode, ek_, multi=True)
                            if not (isinstance(ko_, list) and ko_):
                                continue
                        variants.append((e_in, c_in, ' as written (before validate() normalised it)'))
            for e2, vv, note in variants:
                out['shapes'] += 1
                e = e2.copy()
                e.frames = [{}]
                arg = vv
                if prefix is not None:
                    st = I.starts_truth(vv, S.const(prefix), True, e)
                    if st is None:
                        out['shapes'] -= 1
                        continue          # may or may not carry the prefix already: not a usable witness
                    if st is False:
                        arg = S.concat(e, S.const(prefix), vv)
                I.ctx.scopes = [[]]
                I.ctx.stack = [(W, '<entry>')]
                I.closures = []
                I.memo = {}
                wargs = [arg] + entry_args(I, wnode, e)[1:]
                outs2 = I.call_func(Func(rw[1], rw[2]), wargs, {}, wnode, e, multi=True)
                desc = S.describe(e2, vv)[:90] + note
                if not isinstance(outs2, list) or not outs2:
                    kinds = sorted(set(ev.kind for ev in I.ctx.scopes[0]))
                    out['rejected'].append((desc, kinds))
                elif not out.get('padded'):
                    out['padded'] = True        # one presentation variant per (wrapper, constituent) pair
                    # presentation variant: the same number between blanks; when the constituent accepts it the wrapper has to as well
                    ep = e2.copy()
                    ep.frames = [{}]
                    parg = vv
                    if prefix is not None and I.starts_truth(vv, S.const(prefix), True, ep) is False:
                        parg = S.concat(ep, S.const(prefix), vv)
                    padded = S.concat(ep, S.concat(ep, S.const(' '), parg), S.const(' '))
                    I.ctx.scopes = [[]]
                    I.ctx.stack = [(K, '<entry>')]
                    I.closures = []
                    I.memo = {}
                    karg = padded if prefix is None else S.concat(ep, S.concat(ep, S.const(' '), vv), S.const(' '))
                    ek = ep.copy()
                    kouts = I.call_func(Func(rk[1], rk[2]), [karg] + entry_args(I, knode, ek)[1:], {}, knode, ek, multi=True)
                    if isinstance(kouts, list) and kouts:
                        I.ctx.scopes = [[]]
                        I.ctx.stack = [(W, '<entry>')]
                        I.closures = []
                        I.memo = {}
                        ew = ep.copy()
                        wouts = I.call_func(Func(rw[1], rw[2]), [padded] + entry_args(I, wnode, ew)[1:], {}, wnode, ew, multi=True)
                        out['shapes'] += 1
                        if not isinstance(wouts, list) or not wouts:
                            kinds = sorted(set(ev.kind for ev in I.ctx.scopes[0]))
                            out['rejected'].append((desc + ' written between blanks', kinds))
                elif prefix is not None:
                    carried = []
                    for e3, v3 in outs2:
                        pv = S.const_value(e3, S.slice(e3, v3, 0, len(prefix))) if isinstance(v3, Str) and (v3.lo or 0) >= len(prefix) else None
                        carried.append(pv == prefix)
                    # eu.vat re-attaches the prefix on every path; vatin only on the path where the member-state module accepted the remainder
                    if not (all(carried) if W == 'stdnum.eu.vat' else any(carried)):
                        out['noprefix'].append((desc, 'no returning path carries %s' % prefix))
    except Exception:
        import traceback
        out['crash'] = traceback.format_exc()[-1200:]
    return out


def analyse_wrappers(jobs_list, jobs=None):
    jobs = jobs or min(16, os.cpu_count() or 1)
    get_interp()
    return _pool_map(_wrapper_worker, list(jobs_list), jobs)


def _conversion_worker(job):
    """Conversion `module.function` applied to every accepted shape of the source (and to its format()ed
    presentation): result kind and shape, which source characters it embeds, which generator produced
    the new characters, and whether the target validator can accept it."""
    mn, fname, target = job
    I = get_interp()
    S, B = I.ctx.S, I.B
    prog = I.prog
    out = {'job': job, 'runs': 0, 'results': [], 'alarms': [], 'crash': None}
    try:
        rv = prog.resolve_name(prog.mods[mn], 'validate')
        vnode = prog.mods[rv[1]].funcs[rv[2]]
        rc = prog.resolve_name(prog.mods[mn], fname)
        cnode = prog.mods[rc[1]].funcs[rc[2]]
        rf = prog.resolve_name(prog.mods[mn], 'format')
        env = Env()
        I.ctx.scopes = [[]]
        I.ctx.stack = [(mn, '<entry>')]
        I.closures = []
        I.memo = {}
        outs = I.call_func(Func(rv[1], rv[2]), entry_args(I, vnode, env), {}, vnode, env, multi=True)
        if not isinstance(outs, list):
            return out
        seen = set()
        vals = []
        for e0, v in outs:
            if not isinstance(v, Str):
                continue
            e1 = e0.copy()
            S.refine_all(e1, v, S.ASCII)
            if e1.dead:
                continue
            if v.fixed:
                vals.append((e1, v))
            elif v.hi is not None and v.hi - (v.lo or 0) <= 20:
                for n in range(v.lo or 0, v.hi + 1):
                    e2 = e1.copy()
                    m_ = S.materialise(e2, v, n)
                    if m_ is not None and not e2.dead:
                        m_.sid = fresh_id()
                        vals.append((e2, m_))
        for e1, v in vals:
            inputs = [('compact', e1, v)]
            if rf and rf[0] == 'func':
                fnode = prog.mods[rf[1]].funcs[rf[2]]
                req = len(fnode.args.args) - len(fnode.args.defaults)
                if req == 1:
                    ef = e1.copy()
                    ef.frames = [{}]
                    I.ctx.scopes = [[]]
                    I.ctx.stack = [(mn, '<entry>')]
                    I.closures = []
                    fouts = I.call_func(Func(rf[1], rf[2]), [v], {}, fnode, ef, multi=True)
                    for fe, fv in (fouts if isinstance(fouts, list) else []):
                        if isinstance(fv, Str) and fv.fixed and fv.sid != v.sid:
                            inputs.append(('formatted', fe, fv))
            for how, ein, arg in inputs:
                e = ein.copy()
                e.frames = [{}]
                I.ctx.scopes = [[]]
                I.ctx.stack = [(mn, '<entry>')]
                I.closures = []
                couts = I.call_func(Func(rc[1], rc[2]), [arg], {}, cnode, e, multi=True)
                out['runs'] += 1
                for ev in I.ctx.scopes[0]:
                    if not is_ve(ev.kind):
                        d = describe_event(I, ev)
                        k = (d['kind'], d['module'], d['func'], d['construct'])
                        if k not in seen:
                            seen.add(k)
                            d['input'] = S.describe(ein, arg)[:80]
                            out['alarms'].append(d)
                for ce, cv in (couts if isinstance(couts, list) else []):
                    rec = {'how': how, 'source': S.describe(e1, v)[:80], 'kind': kind_of(I, ce, cv)}
                    if isinstance(cv, Str):
                        rec['desc'] = S.describe(ce, cv)[:100]
                        # compact view of the result through the target's (or the source's) compact()
                        tmod = target or mn
                        rcm = prog.resolve_name(prog.mods[tmod], 'compact')
                        comp = cv
                        if rcm and rcm[0] == 'func':
                            e2 = ce.copy()
                            e2.frames = [{}]
                            I.ctx.scopes.append([])
                            I.ctx.stack = [(tmod, '<entry>')]
                            try:
                                c2 = I.call_func(Func(rcm[1], rcm[2]), [cv], {}, prog.mods[rcm[1]].funcs[rcm[2]], e2, multi=True)
                            finally:
                                I.ctx.scopes.pop()
                            if isinstance(c2, list) and len(c2) == 1 and isinstance(c2[0][1], Str):
                                ce, comp = c2[0]
                        rec['fixed'] = comp.fixed
                        rec['length'] = len(comp.pre) if comp.fixed else None
                        gen = {}
                        for f in ce.facts:
                            if isinstance(f, tuple) and f and f[0] == 'gen2':
                                for c in f[3]:
                                    gen[c] = (f[1], f[2])
                        src_cells = list(v.pre)
                        emb = []
                        gens = set()
                        shape = []
                        for c in (comp.pre if comp.fixed else comp.cells()):
                            ex = B.exact_chars(ce.cls(c))
                            shape.append(''.join(sorted(ex)) if ex is not None else None)
                            if c in gen:
                                gens.add(gen[c][0])
                            elif not isinstance(c, frozenset) and c in src_cells:
                                emb.append(src_cells.index(c))
                        rec['shape'] = shape
                        rec['embedded'] = emb
                        rec['in_order'] = emb == sorted(emb) and len(set(emb)) == len(emb)
                        rec['generators'] = sorted(gens)
                        # generator argument = the payload it is attached to
                        rec['gen_args_ok'] = True
                        for f in ce.facts:
                            if isinstance(f, tuple) and f and f[0] == 'gen2':
                                argcells = [c for c in f[4] if not isinstance(c, frozenset)]
                                rescells = [c for c in (comp.pre if comp.fixed else comp.cells()) if not isinstance(c, frozenset)]
                                if any(c in rescells for c in f[3]) and not all(c in rescells for c in argcells):
                                    rec['gen_args_ok'] = False
                        # can the target accept it?
                        if target:
                            rt = prog.resolve_name(prog.mods[target], 'validate')
                            tnode = prog.mods[rt[1]].funcs[rt[2]]
                            rec['target_prevalidated'] = ('validated', rt[1], skey(cv)) in ce.facts or \
                                (rt[1] == rv[1] and cv.fixed and v.fixed and tuple(cv.pre) == tuple(v.pre))     # the accepted value itself
                            e3 = ce.copy()
                            e3.frames = [{}]
                            I.ctx.scopes = [[]]
                            I.ctx.stack = [(target, '<entry>')]
                            I.closures = []
                            targs = [cv] + entry_args(I, tnode, e3)[1:]
                            touts = I.call_func(Func(rt[1], rt[2]), targs, {}, tnode, e3, multi=True)
                            rec['target_returns'] = len(touts) if isinstance(touts, list) else 0
                            rec['target_raises'] = sorted(set(ev.kind for ev in I.ctx.scopes[0]))
                    out['results'].append(rec)
    except Exception:
        import traceback
        out['crash'] = traceback.format_exc()[-1500:]
    return out


def analyse_option_call(mn, fname, kwargs):
    """`mn.fname(v, **kwargs)` for every accepted fixed-length ASCII shape v of mn.validate(): where the last character of the
    result comes from (a generator, the source) and which characters it can be."""
    I = get_interp()
    S, B = I.ctx.S, I.B
    prog = I.prog
    rv = prog.resolve_name(prog.mods[mn], 'validate')
    vnode = prog.mods[rv[1]].funcs[rv[2]]
    rc = prog.resolve_name(prog.mods[mn], fname)
    cnode = prog.mods[rc[1]].funcs[rc[2]]
    env = Env()
    I.ctx.scopes = [[]]
    I.ctx.stack = [(mn, '<entry>')]
    I.closures = []
    I.memo = {}
    outs = I.call_func(Func(rv[1], rv[2]), entry_args(I, vnode, env), {}, vnode, env, multi=True)
    res = []
    kw = {k: (Bool(v) if isinstance(v, bool) else I.from_py(v, env)) for k, v in kwargs.items()}
    for e0, v in (outs if isinstance(outs, list) else []):
        if not isinstance(v, Str) or not v.fixed:
            continue
        e = e0.copy()
        e.frames = [{}]
        S.refine_all(e, v, S.ASCII)
        if e.dead:
            continue
        I.ctx.scopes = [[]]
        I.ctx.stack = [(mn, '<entry>')]
        I.closures = []
        r = I.call_func(Func(rc[1], rc[2]), [v], dict(kw), cnode, e, multi=True)
        alarms = [describe_event(I, ev) for ev in I.ctx.scopes[0] if not is_ve(ev.kind)]
        for e2, v2 in (r if isinstance(r, list) else []):
            rec = {'source': S.describe(e0, v)[:80], 'source_len': len(v.pre), 'kind': kind_of(I, e2, v2), 'alarms': alarms}
            if isinstance(v2, Str):
                last = v2.pre[-1] if v2.fixed and v2.pre else (v2.suf[0] if v2.suf else None)
                rec['desc'] = S.describe(e2, v2)[:120]
                rec['last_known'] = last is not None
                if last is not None:
                    ex = B.exact_chars(e2.cls(last))
                    rec['last_chars'] = ''.join(sorted(ex)) if ex is not None else None
                    rec['last_generators'] = sorted({f[1] for f in e2.facts if isinstance(f, tuple) and f and f[0] == 'gen2' and last in f[3]})
                    rec['last_is_source'] = last in v.pre
            res.append(rec)
    return res


def analyse_conversions(jobs_list, jobs=None):
    jobs = jobs or min(16, os.cpu_count() or 1)
    get_interp()
    return _pool_map(_conversion_worker, list(jobs_list), jobs)


def validate_with_options(mn, assignment):
    """Return summaries of validate() for one concrete assignment of its options (not cached)."""
    I = get_interp()
    prog = I.prog
    r = prog.resolve_name(prog.mods[mn], 'validate')
    fnode = prog.mods[r[1]].funcs[r[2]]
    env = Env()
    I.ctx.scopes = [[]]
    I.ctx.stack = [(mn, '<entry>')]
    I.closures = []
    I.memo = {}
    full = {}
    for a in option_assignments(fnode):
        full = dict(a)
        break
    full.update(assignment)
    args = concrete_args(I, fnode, env, TOP, full)
    outs = I.call_func(Func(r[1], r[2]), args, {}, fnode, env, multi=True)
    return [summarise_return(I, e, v) for e, v in outs] if isinstance(outs, list) else []


def _pool_map(fn, items, jobs):
    if jobs <= 1 or len(items) <= 2:
        return [fn(x) for x in items]
    ctx = multiprocessing.get_context('fork')
    with ctx.Pool(jobs) as pool:
        return pool.map(fn, items, chunksize=1)


def analyse_validate(names=None, jobs=None, use_cache=True):
    jobs = jobs or min(16, os.cpu_count() or 1)
    key = tree_digest('validate-v5')
    cpath = os.path.join(os.environ.get('SA_CACHE', os.path.join(VERIF, '.cache')), 'validate-%s.pkl' % key[:20])
    if use_cache and names is None and os.path.exists(cpath):
        try:
            with open(cpath, 'rb') as fh:
                return pickle.load(fh)
        except Exception:
            pass
    I = get_interp()
    mods = names or I.prog.number_modules()
    res = _pool_map(_validate_worker, list(mods), jobs)
    out = {r['module']: r for r in res}
    if use_cache and names is None:
        os.makedirs(os.path.dirname(cpath), exist_ok=True)
        tmp = cpath + '.%d' % os.getpid()
        with open(tmp, 'wb') as fh:
            pickle.dump(out, fh)
        os.replace(tmp, cpath)
        prune_cache(os.path.dirname(cpath))
    return out


if __name__ == '__main__':
    names = sys.argv[1:] or None
    t = time.time()
    res = analyse_validate(names, use_cache=False)
    n = 0
    for mn, r in res.items():
        if r['crash']:
            print('CRASH', mn, r['crash'][-300:])
        for a in r['alarms']:
            n += 1
            print('%s | %s | %s L%d | %s | %s' % (mn.replace('stdnum.', ''), a['kind'], ' > '.join(a['chain']), a['line'], a['construct'][:60], a['why'][:100]))
        if names:
            for x in r['returns']:
                print('   R:', x['desc'], '' if x['kind'] != 'str' else ('ws=%s/%s nonascii=%s' % (x['ws_first'], x['ws_last'], x['nonascii_desc'])))
            for x in r['notes']:
                print('   note:', x)
    print('%d modules, %d alarms, %.1fs' % (len(res), n, time.time() - t))


def generator_result_lengths(mn, fname):
    """Lengths (lo, hi) of the strings `mn.fname(<any string>)` can return, None when it returns something else."""
    I = get_interp()
    S = I.ctx.S
    prog = I.prog
    r = prog.resolve_name(prog.mods[mn], fname)
    if not r or r[0] != 'func':
        return None
    fnode = prog.mods[r[1]].funcs[r[2]]
    env = Env()
    I.ctx.scopes = [[]]
    I.ctx.stack = [(mn, '<entry>')]
    I.closures = []
    I.memo = {}
    args = entry_args(I, fnode, env, number=S.any_str(env))
    outs = I.call_func(Func(r[1], r[2]), args, {}, fnode, env, multi=True)
    res = set()
    for e, v in (outs if isinstance(outs, list) else []):
        if not isinstance(v, Str):
            return None
        res.add((v.lo or 0, v.hi) if not v.fixed else (len(v.pre), len(v.pre)))
    return sorted(res, key=str)
