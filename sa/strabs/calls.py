"""Calls: inlining of repo functions, models of builtins, str methods, re, datetime, numdb."""
import ast
import os, re
from .values import *
from .joins import Maybe
from .expr import DictV
from .subs import AbsIter, FuncSet, MethodSet
from .regexlang import RegexLang

# the thorough tier follows calls four levels deeper
MAXDEPTH = 14 if os.environ.get('SA_THOROUGH') else 10
INT_MAX_DIGITS = 4300


class Calls:
    ALG_MODULES = ('stdnum.luhn', 'stdnum.verhoeff', 'stdnum.damm', 'stdnum.iso7064.mod_11_2', 'stdnum.iso7064.mod_11_10', 'stdnum.iso7064.mod_37_2',
                   'stdnum.iso7064.mod_37_36', 'stdnum.iso7064.mod_97_10')
    GEN_NAME = re.compile(r'^_?calc_(isbn10_)?check_digits?(_\w+)?$|^_?checksum$')
    SINK_CALLS = {'builtins.int': 'int', 'datetime.date': 'date', 'datetime.datetime': 'date', 'datetime': 'date', 'builtins.next': 'next',
                  'struct.pack': 'pack', 'datetime.datetime.strptime': 'strptime', 'calendar.monthrange': 'monthrange'}

    def ev_Call(self, node, env):
        fn = self.eval(node.func, env)
        kind = None
        if isinstance(fn, Ext):
            kind = self.SINK_CALLS.get(fn.name)
        elif isinstance(fn, BoundMethod) and fn.name in ('index', 'pop', 'group'):
            kind = fn.name
        if kind and self.ctx.stack:
            self.ctx.visited.add((self.ctx.stack[-1][0], node.lineno, node.col_offset, kind))
        args = []
        for a in node.args:
            if isinstance(a, ast.Starred):
                v = self.eval(a.value, env)
                kind, data = self.abs_iter(v, env, a)
                if kind == 'list':
                    args.extend(data)
                else:
                    args.append(StarMany(data[0]))
            else:
                args.append(self.eval(a, env))
        kwargs = {k.arg: self.eval(k.value, env) for k in node.keywords if k.arg is not None}
        return self.call(fn, args, kwargs, node, env)

    def call(self, fn, args, kwargs, node, env):
        if isinstance(fn, Func):
            return self.call_func(fn, args, kwargs, node, env)
        if isinstance(fn, (FuncSet, MethodSet)):
            alts = fn.funcs if isinstance(fn, FuncSet) else fn.alts
            res = None
            acc = None
            for f in alts:
                e = env.copy()
                r = self.call(f, args, kwargs, node, e)
                if e.dead:
                    continue
                if acc is None:
                    acc, res = e, r
                else:
                    old_ = acc
                    acc = self.join_env(acc, e)
                    res = self.join_sided(res, old_, r, e, acc)
            if acc is None:
                env.dead = True
                return TOP
            env.store, env.frames, env.facts = acc.store, acc.frames, acc.facts
            return res
        if isinstance(fn, BoundMethod):
            return self.call_method(fn.obj, fn.name, args, kwargs, node, env)
        if isinstance(fn, Ext):
            return self.call_ext(fn.name, args, kwargs, node, env)
        if fn is TOP or fn is NONE:
            self.ctx.raise_('TypeError', node, env, 'call of %r' % (fn,))
            return TOP
        self.ctx.unsup(node, 'call of %r' % (fn,))
        return TOP

    # ------------------------------------------------------------- repo functions
    def call_func(self, fn, args, kwargs, node, env, multi=False):
        ctx = self.ctx
        if fn.node is None:
            m = ctx.prog.mods.get(fn.mod)
            fnode = m.funcs.get(fn.name) if m else None
        else:
            fnode = fn.node
        if fnode is None:
            ctx.unsup(node, 'no body for %r' % (fn,))
            return TOP
        key = (fn.mod, fn.name)
        # summaries derived elsewhere
        if key == ('stdnum.util', 'clean'):
            return self.model_clean(args, kwargs, node, env)
        if key == ('stdnum.util', 'get_cc_module'):
            return self.model_get_cc_module(args, node, env)
        if key == ('stdnum.numdb', 'get'):
            name = ctx.S.const_value(env, args[0]) if args and isinstance(args[0], Str) else None
            return RegDB(name)
        if key == ('stdnum.iban', '_struct_to_re') and self.iban_structs is not None and args:
            a = args[0]
            alts = a.alts if isinstance(a, Maybe) else [a]
            regs = [x.reg for x in alts if isinstance(x, Str) and x.reg and x.reg[0] == 'iban' and x.reg[1] == 'bban']
            if regs:
                return RegexV(None, reg=regs[0])
        if key[0] == 'stdnum.util' and key[1] == 'get_soap_client':
            return Opaque('soap')
        # coverage facts: which characters have been handed to a check digit algorithm on this path
        if (fn.mod in self.ALG_MODULES and fn.name in ('validate', 'is_valid', 'checksum', 'calc_check_digit', 'calc_check_digits')) \
                or self.GEN_NAME.match(fn.name):
            cov = []
            for a in list(args) + list(kwargs.values()):
                if isinstance(a, Str):
                    cov.extend(c for c in a.cells() if not isinstance(c, frozenset))
            if cov:
                env.facts = env.facts | {('cov', fn.mod, fn.name) + tuple(cov)}
        if len(ctx.stack) >= MAXDEPTH or ctx.stack.count(key) >= 2:
            ctx.unsup(node, 'depth/recursion limit at %r' % (fn,))
            return TOP
        # bind
        a = fnode.args
        params = [p.arg for p in a.args]
        frame = {}
        defaults = a.defaults
        off = len(params) - len(defaults)
        for i, p in enumerate(params):
            if i < len(args) and not isinstance(args[i], StarMany):
                frame[p] = args[i]
            elif p in kwargs:
                frame[p] = kwargs[p]
            elif i >= off:
                frame[p] = self.eval_default(defaults[i - off], fn, env)
            elif any(isinstance(x, StarMany) for x in args):
                frame[p] = [x for x in args if isinstance(x, StarMany)][0].elem
            else:
                ctx.raise_('TypeError', node, env, 'missing argument %s' % p)
                frame[p] = TOP
        for p, d in zip(a.kwonlyargs, a.kw_defaults):
            frame[p.arg] = kwargs.get(p.arg, self.eval_default(d, fn, env) if d is not None else TOP)
        env.frames.append(frame)
        ctx.stack.append(key)
        self.closures.append(fn.closure)
        try:
            if isinstance(fnode, ast.Lambda):
                v = self.eval(fnode.body, env)
                rets = [('return', env, v)] if not env.dead else []
                normal = []
            else:
                normal, rets = self.exec_block(fnode.body, [env])
        finally:
            self.closures.pop()
            ctx.stack.pop()
        outs = [(e, NONE) for e in normal] + [(c[1], c[2]) for c in rets if c[0] == 'return']
        outs = [(e, v) for e, v in outs if not e.dead]
        if self.GEN_NAME.match(fn.name) and 'check_digit' in fn.name:
            # characters produced by a generator: comparing them with another generated character checks nothing
            for e, v in outs:
                if isinstance(v, Str):
                    g = tuple(c for c in v.cells() if not isinstance(c, frozenset))
                    if g:
                        argc = tuple(c for a_ in args if isinstance(a_, Str) for c in a_.cells())
                        e.facts = e.facts | {('gen',) + g, ('gen2', fn.mod, fn.name, g, argc)}
        if fn.name == 'validate' and args and isinstance(args[0], Str):
            # this very string was accepted by this module's validate() on the paths that return
            for e, v in outs:
                e.facts = e.facts | {('validated', fn.mod, skey(args[0]))}
        if multi:
            for e, v in outs:
                e.frames = e.frames[:-1]
            return outs
        if not outs:
            env.frames = env.frames[:-1] if len(env.frames) > 1 and env.frames[-1] is frame else env.frames
            env.dead = True
            return TOP
        acc, val = outs[0]
        for e, v in outs[1:]:
            old_ = acc
            acc = self.join_env(acc, e)
            val = self.join_sided(val, old_, v, e, acc)
        depth = len(env.frames) - 1 if env.frames and env.frames[-1] is frame else len(env.frames)
        env.store = acc.store
        env.facts = acc.facts
        env.frames = acc.frames[:-1]
        env.dead = False
        return val

    def eval_default(self, dnode, fn, env):
        self.ctx.stack.append((fn.mod, '<default>'))
        try:
            return self.eval(dnode, env)
        finally:
            self.ctx.stack.pop()

    def local_import(self, st, env):
        prog = self.ctx.prog
        if isinstance(st, ast.ImportFrom):
            for a in st.names:
                full = st.module + '.' + a.name
                if full in prog.mods:
                    env.vars[a.asname or a.name] = Mod(full)
                elif st.module in prog.mods:
                    r = prog.resolve_name(prog.mods[st.module], a.name)
                    env.vars[a.asname or a.name] = self.from_resolution(r, env, None, a.name) if r else TOP
                else:
                    env.vars[a.asname or a.name] = Ext(full)
        else:
            for a in st.names:
                nm = (a.asname or a.name).split('.')[0]
                env.vars[nm] = Ext(a.name if a.asname else a.name.split('.')[0])

    # ------------------------------------------------------------- summaries
    def model_clean(self, args, kwargs, node, env):
        S = self.ctx.S
        num = args[0] if args else TOP
        if len(args) > 1:
            dele = args[1]
        elif 'deletechars' in kwargs:
            dele = kwargs['deletechars']
        else:
            # the default of the signature as written today (C14 checks that it is the empty string)
            from ..rawflow import clean_default
            d0 = clean_default(self.ctx.prog)
            dele = S.const(d0) if d0 is not None else TOP
        dv = S.const_value(env, dele) if isinstance(dele, Str) else None
        del_cls = self.B.cls_of_chars(dv) if dv is not None else self.B.ALL
        if not isinstance(num, Str):
            # conversion is inside clean()'s catch-all: anything that is not joinable raises InvalidFormat
            self.ctx.raise_('InvalidFormat', node, env, 'clean() on non-string')
            num = S.any_str(env)
        res = S.delete_chars(env, num, del_cls, self.charmap_fn)
        return res

    def model_isdigits(self, args, node, env):
        v = args[0] if args else TOP
        if not isinstance(v, Str):
            self.ctx.raise_('TypeError', node, env, 'isdigits() on %r' % (v,))
            return Bool(None)
        return Bool(self.match_truth(self.isdigits_lang, v, env))

    def model_get_cc_module(self, args, node, env):
        S = self.ctx.S
        prog = self.ctx.prog
        cc = S.enum_values(env, args[0], 64) if isinstance(args[0], Str) else None
        name = S.const_value(env, args[1]) if isinstance(args[1], Str) else None
        if not isinstance(args[0], Str):
            self.ctx.raise_('AttributeError', node, env, 'get_cc_module(cc=%r)' % (args[0],))
        cands = set()
        maybe_none = False
        if name is None:
            return TOP
        if cc is not None:
            ccs = set(c.lower() for c in cc)
        else:
            ccs = None
        for mn, m in prog.mods.items():
            if not m.is_pkg or mn == 'stdnum' or mn.count('.') != 1:
                continue
            code = mn.split('.')[1]
            key = code[:-1] if code in ('in_', 'is_', 'if_') else code
            if ccs is not None and key not in ccs:
                continue
            r = prog.resolve_name(m, name)
            if r and r[0] == 'mod':
                cands.add(r[1])
            elif (mn + '.' + name) in prog.mods:
                cands.add(mn + '.' + name)
            else:
                maybe_none = True
        if ccs is None or any(('stdnum.' + (c + '_' if c in ('in', 'is', 'if') else c)) not in prog.mods for c in ccs):
            maybe_none = True
        if not cands:
            return NONE
        if len(cands) == 1 and not maybe_none:
            return Mod(next(iter(cands)))
        return ModSet(sorted(cands), maybe_none)

    # ------------------------------------------------------------- externals / builtins
    def call_ext(self, name, args, kwargs, node, env):
        S = self.ctx.S
        ctx = self.ctx
        short = name[len('builtins.'):] if name.startswith('builtins.') else name
        a0 = args[0] if args else None
        if name.startswith('contract.'):
            # assume-guarantee summary of "some number module's <attr>"
            if name.endswith('is_valid'):
                return Bool(None)
            ctx.raise_('ValidationError', node, env, 'callee contract')
            return S.any_str(env, 1 if name.endswith('validate') else 0)
        if short == 'len':
            if isinstance(a0, Str):
                return S.length(a0)
            if isinstance(a0, Tup):
                return Int(len(a0.elems), len(a0.elems))
            if isinstance(a0, PyConst):
                return Int(len(a0.v), len(a0.v))
            if isinstance(a0, (ListOf, RegInfo)):
                return Int(a0.lo, a0.hi)
            if isinstance(a0, Opaque) and a0.kind in ('bytes', 'dict', 'list'):
                return Int(0, None)
            if isinstance(a0, DictV):
                return Int(len(a0.d), len(a0.d))
            ctx.raise_('TypeError', node, env, 'len(%r)' % (a0,))
            return Int(0, None)
        if short == 'int':
            return self.model_int(args, kwargs, node, env)
        if short == 'str':
            if a0 is None:
                return S.const('')
            return self.to_str(a0, env)
        if short == 'bool':
            return Bool(self.truth(a0, env)) if a0 is not None else Bool(False)
        if short == 'repr':
            return S.any_str(env)
        if short in ('sum',):
            kind, data = self.abs_iter(a0, env, node)
            if kind == 'list':
                acc = Int(0, 0)
                for x in data:
                    if not isinstance(x, (Int, Bool)):
                        ctx.raise_('TypeError', node, env, 'sum of %r' % (x,))
                        return Int()
                    acc = self.binop(ast.Add(), acc, x if isinstance(x, Int) else Int(0, 1), env, node)
                return acc
            el = data[0]
            if isinstance(el, Int):
                return Int(0 if (el.lo is not None and el.lo >= 0) else None, 0 if (el.hi is not None and el.hi <= 0) else None)
            if el is None or (data[2] == 0):
                return Int(0, 0)
            ctx.raise_('TypeError', node, env, 'sum of %r' % (el,))
            return Int()
        if short in ('all', 'any'):
            self.abs_iter(a0, env, node)
            return Bool(None)
        if short in ('tuple', 'list', 'sorted', 'set', 'frozenset', 'reversed', 'iter', 'filter'):
            if a0 is None:
                return Tup([], True)
            kind, data = self.abs_iter(a0, env, node)
            if kind == 'list' and short in ('tuple', 'list'):
                return Tup(data, short == 'list')
            if kind == 'list' and short == 'reversed':
                return Tup(list(reversed(data)))
            if kind == 'list':
                return ListOf(self._elem_join(Tup(data), env) if data else TOP, 0 if short in ('set', 'frozenset', 'filter') else len(data), len(data))
            return ListOf(data[0], 0 if short in ('set', 'frozenset', 'filter') else data[1], data[2])
        if short == 'enumerate':
            kind, data = self.abs_iter(a0, env, node)
            start = args[1].const() if len(args) > 1 and isinstance(args[1], Int) else (kwargs['start'].const() if 'start' in kwargs and isinstance(kwargs['start'], Int) else 0)
            if kind == 'list':
                return Tup([Tup([Int(i + start, i + start), x]) for i, x in enumerate(data)])
            return ListOf(Tup([Int(start, None if data[2] is None else start + max(data[2] - 1, 0)), data[0]]), data[1], data[2])
        if short == 'zip':
            its = [self.abs_iter(x, env, node) for x in args]
            if all(k == 'list' for k, _ in its):
                n = min(len(d) for _, d in its) if its else 0
                return Tup([Tup([d[i] for _, d in its]) for i in range(n)])
            elems = []
            lo, hi = None, None
            for k, d in its:
                if k == 'list':
                    el = self._elem_join(Tup(d), env) if d else TOP
                    l, h = len(d), len(d)
                else:
                    el, l, h = d
                elems.append(el)
                lo = l if lo is None else min(lo, l or 0)
                hi = h if hi is None else (hi if h is None else min(hi, h))
            return ListOf(Tup(elems), lo or 0, hi)
        if short == 'range':
            cs = [x.const() if isinstance(x, Int) else None for x in args]
            if all(c is not None for c in cs) and len(range(*cs)) <= 256:
                return Tup([Int(i, i) for i in range(*cs)])
            if all(isinstance(x, Int) for x in args):
                if len(args) == 1:
                    return ListOf(Int(0, None if args[0].hi is None else args[0].hi - 1), max(args[0].lo or 0, 0), args[0].hi)
                lo = min(x for x in (args[0].lo, args[1].lo) if True) if None not in (args[0].lo, args[1].lo) else None
                hi = max(args[0].hi, args[1].hi) if None not in (args[0].hi, args[1].hi) else None
                return ListOf(Int(lo, hi), 0, None)
            ctx.raise_('TypeError', node, env, 'range(%r)' % (args,))
            return ListOf(Int(), 0, None)
        if short == 'divmod':
            if isinstance(a0, Int) and isinstance(args[1], Int):
                q = self.binop(ast.FloorDiv(), a0, args[1], env, node)
                r = self.binop(ast.Mod(), a0, args[1], env, node)
                return Tup([q, r])
            ctx.raise_('TypeError', node, env, 'divmod')
            return Tup([Int(), Int()])
        if short in ('min', 'max', 'abs', 'pow'):
            if short == 'pow' and len(args) == 2:
                return self.binop(ast.Pow(), args[0], args[1], env, node)
            if all(isinstance(x, Int) for x in args) and args:
                if short == 'abs':
                    return Int(0, None)
                los = [x.lo for x in args]; his = [x.hi for x in args]
                f = min if short == 'min' else max
                return Int(None if None in los else f(los), None if None in his else f(his))
            return Int()
        if short == 'ord':
            if isinstance(a0, Str) and a0.lo == 1 and a0.hi == 1:
                return Int(0, 0x10FFFF)
            ctx.raise_('TypeError', node, env, 'ord(%r)' % (a0,))
            return Int(0, 0x10FFFF)
        if short == 'chr':
            return S.any_str(env, 1, 1)
        if short == 'isinstance':
            return Bool(None)
        if short in ('hasattr',):
            nm = S.const_value(env, args[1]) if len(args) > 1 and isinstance(args[1], Str) else None
            if nm is not None and isinstance(a0, Mod):
                m_ = ctx.prog.mods[a0.name]
                return Bool(ctx.prog.resolve_name(m_, nm) is not None or (a0.name + '.' + nm) in ctx.prog.mods or nm in m_.assign_nodes)
            return Bool(None)
        if short == 'getattr':
            nm = S.const_value(env, args[1]) if len(args) > 1 and isinstance(args[1], Str) else None
            if nm is not None and isinstance(a0, (Mod, ModSet)):
                sub = env.copy()
                self.ctx.scopes.append([])
                r = self.getattr(a0, nm, node, sub)
                evs = self.ctx.scopes.pop()
                if evs and len(args) > 2:
                    return self.join(r, args[2], env) if r is not TOP else args[2]
                for ev in evs:
                    self.ctx.scopes[-1].append(ev)
                return r
            return TOP
        if short == 'next':
            ctx.raise_('StopIteration', node, env, 'next()')
            kind, data = self.abs_iter(a0, env, node)
            return data[0] if kind == 'many' else (self._elem_join(Tup(data), env) if data else TOP)
        if short == 'map':
            kind, data = self.abs_iter(args[1], env, node)
            if kind == 'list':
                return Tup([self.call(a0, [x], {}, node, env) for x in data])
            return ListOf(self.call(a0, [data[0]], {}, node, env), data[1], data[2])
        if short in ('dict',):
            return Opaque('dict')
        if short in ('float',):
            ctx.raise_('ValueError', node, env, 'float()')
            return Opaque('float')
        if short == '__import__':
            nm = S.enum_values(env, a0, 16) if isinstance(a0, Str) else None
            if nm and all(n in ctx.prog.mods for n in nm):
                return Mod(nm[0]) if len(nm) == 1 else ModSet(sorted(nm))
            # __import__ of a name taken from a constant dict
            return TOP
        if short in ('globals', 'locals'):
            return Opaque('dict')
        # --- re
        if name in ('re.compile',):
            pat = S.const_value(env, a0) if isinstance(a0, Str) else None
            if pat is None:
                return RegexV(None)
            flags = self.regex_flags(args[1] if len(args) > 1 else kwargs.get('flags'))
            if flags is None:
                return RegexV(None)
            return RegexV(self.regex_lang(pat, flags))
        if name in ('re.match', 're.search', 're.fullmatch'):
            pat = S.const_value(env, a0) if isinstance(a0, Str) else None
            flags = self.regex_flags(args[2] if len(args) > 2 else kwargs.get('flags'))
            if flags is None:
                pat = None
            lang = self.regex_lang(pat, flags) if pat is not None else None
            return self.regex_match(lang, name.split('.')[1], args[1], node, env)
        if name == 're.sub':
            return S.any_str(env)
        # --- datetime
        if name in ('datetime.date', 'datetime.datetime', 'datetime'):
            for x in args:
                if not isinstance(x, Int):
                    ctx.raise_('TypeError', node, env, 'date(%r)' % (x,))
            cs = [x.const() if isinstance(x, Int) else None for x in args]
            okc = False
            if len(cs) >= 3 and all(v is not None for v in cs):
                import datetime as _dt
                try:
                    _dt.datetime(*cs)
                    okc = True
                except Exception:
                    okc = False
            if not okc and len(args) >= 3 and all(isinstance(x, Int) for x in args[:3]) and ('validdate', args[0].iid, args[1].iid, args[2].iid) in env.facts \
                    and args[0].lo is not None and args[0].hi is not None and 1 <= args[0].lo and args[0].hi <= 9999 \
                    and args[1].lo is not None and args[1].hi is not None and 1 <= args[1].lo and args[1].hi <= 12:
                okc = True
            if not okc:
                ctx.raise_('ValueError', node, env, 'date() out of range')
            return Opaque('date')
        if name in ('datetime.date.today', 'datetime.datetime.now', 'datetime.now', 'datetime.datetime.today'):
            return Opaque('date')
        if name in ('datetime.datetime.strptime', 'datetime.strptime'):
            ctx.raise_('ValueError', node, env, 'strptime')
            return Opaque('date')
        if name == 'datetime.timedelta':
            return Opaque('timedelta')
        if name.startswith('calendar.'):
            mth = args[1] if len(args) > 1 else None
            if not (isinstance(mth, Int) and mth.lo is not None and mth.hi is not None and 1 <= mth.lo and mth.hi <= 12 and isinstance(args[0], Int)):
                ctx.raise_('ValueError', node, env, name + ' month %r' % (mth,))
            return Tup([Int(0, 6), Int(28, 31)])
        # --- misc stdlib
        if name.startswith('hashlib.'):
            if a0 is not None and not (isinstance(a0, Opaque) and a0.kind == 'bytes'):
                ctx.raise_('TypeError', node, env, '%s(%r)' % (name, a0))
            return Opaque('hash')
        if name == 'struct.pack':
            v = args[1] if len(args) > 1 else TOP
            if not (isinstance(v, Int) and v.lo is not None and v.hi is not None and v.lo >= 0 and v.hi <= 255):
                ctx.raise_('struct.error', node, env, 'struct.pack(%r)' % (v,))
            return Opaque('bytes')
        if name in ('binascii.a2b_hex', 'a2b_hex'):
            hexc = self.B.cls_of_chars('0123456789abcdefABCDEF')
            ok = isinstance(a0, Str) and a0.fixed and len(a0.pre) % 2 == 0 and all(env.cls(c) <= hexc for c in a0.pre)
            if not ok:
                ctx.raise_('binascii.Error', node, env, 'a2b_hex() argument is not provably an even number of hex digits')
            return Opaque('bytes')
        if name in ('functools.reduce', 'reduce'):
            # reduce(f, iterable, init): run f once on joined element with widening
            f, it, init = args[0], args[1], args[2] if len(args) > 2 else TOP
            kind, data = self.abs_iter(it, env, node)
            el = data[0] if kind == 'many' else (self._elem_join(Tup(data), env) if data else TOP)
            acc = init
            for i in range(3):
                r = self.call(f, [acc, el], {}, node, env)
                acc = self.join(acc, r, env, widen=(i >= 1))
            return acc
        if name.startswith('decimal.'):
            ctx.raise_('ValueError', node, env, 'Decimal()')
            return Opaque('decimal')
        if name == 'collections.defaultdict' or name == 'defaultdict':
            return Opaque('defaultdict_int' if (args and isinstance(args[0], Ext) and args[0].name == 'builtins.int') else 'defaultdict')
        if name.startswith('warnings.'):
            return NONE
        if name.startswith('unicodedata.'):
            return S.any_str(env)
        if name.startswith('class.'):
            return Opaque(name)
        if name.startswith('exc.'):
            return Opaque('exception')
        if name.startswith('importlib') or name.startswith('pkg_resources') or name.startswith('codecs'):
            return Opaque('stream')
        if name.startswith('requests') or name.startswith('lxml') or name.startswith('json'):
            return Opaque('json')
        ctx.unsup(node, 'external call ' + name)
        return TOP

    def model_int(self, args, kwargs, node, env):
        S = self.ctx.S
        ctx = self.ctx
        a0 = args[0] if args else Int(0, 0)
        if isinstance(a0, (Int, Bool)):
            return a0 if isinstance(a0, Int) else Int(0, 1)
        if isinstance(a0, Maybe):
            res = None
            for alt in a0.alts:
                r = self.model_int([alt] + args[1:], kwargs, node, env)
                res = r if res is None else self.join(res, r, env)
            return res
        if not isinstance(a0, Str):
            ctx.raise_('TypeError' if a0 is NONE else 'ValueError', node, env, 'int(%r)' % (a0,))
            return Int()
        base = 10
        if len(args) > 1:
            base = args[1].const() if isinstance(args[1], Int) else None
        ok_cls = self.int_cls(base)
        bad = [self.B.describe(env.cls(c) - ok_cls) for c in a0.cells() if not env.cls(c) <= ok_cls]
        if bad:
            # int() ignores surrounding whitespace: the first and last character may be blank when a
            # digit is certain to exist in between
            edge = ok_cls | S.WS
            cells = a0.cells()
            lo_ = a0.lo or 0
            if a0.fixed:
                inner = cells[1:-1] if len(cells) > 2 else []
                certain = any(env.cls(c) <= ok_cls for c in cells)
                ends = [cells[0], cells[-1]] if cells else []
            else:
                ends = ([a0.pre[0]] if a0.pre else []) + ([a0.suf[0]] if a0.suf else [])
                inner = list(a0.pre[1:]) + list(a0.suf[1:]) + [a0.body]
                certain = any(env.cls(c) <= ok_cls for i, c in enumerate(a0.pre) if i < lo_) or \
                    any(env.cls(c) <= ok_cls for j, c in enumerate(a0.suf) if j < lo_) or \
                    (lo_ - len(a0.pre) - len(a0.suf) >= 1 and env.cls(a0.body) <= ok_cls)
                if not a0.pre or not a0.suf:
                    certain = False
            if certain and len(ends) >= 1 and all(env.cls(c) <= edge for c in ends) and all(env.cls(c) <= ok_cls for c in inner):
                bad = []
        if bad:
            ctx.raise_('ValueError', node, env, 'int() argument may contain %s' % ', '.join(sorted(set(bad))[:3]))
        if (a0.lo or 0) < 1:
            ctx.raise_('ValueError', node, env, 'int() argument may be empty')
        if base not in (2, 4, 8, 16, 32) and (a0.hi is None or a0.hi > INT_MAX_DIGITS):
            ctx.raise_('ValueError', node, env, 'int() argument length unbounded (limit %d digits)' % INT_MAX_DIGITS)
        # on the normal continuation int() succeeded: refine the argument
        post = ok_cls if (a0.hi is not None and a0.hi <= 1) else (ok_cls | S.WS | self.B.cls_of_chars('_+-'))
        S.refine_all(env, a0, post)
        nz = S.set_len(env, a0, 1, None)
        if nz is None:
            env.dead = True
            return Int()
        a0 = nz
        argcells = frozenset(c for c in a0.cells() if not isinstance(c, frozenset))
        if base is not None and a0.hi is not None and a0.hi <= 18:
            r = Int(0, base ** a0.hi - 1)
            r.deps = argcells
            if a0.fixed and base == 10 and all(not isinstance(x, frozenset) for x in a0.pre):
                n = len(a0.pre)
                r.form = ({('digit', x): 10 ** (n - 1 - i) for i, x in enumerate(a0.pre)}, 0)
            return r
        r = Int(0, None)
        r.deps = argcells
        return r

    def int_cls(self, base):
        S = self.ctx.S
        if base == 10:
            return S.ND
        if base is None:
            return frozenset()
        digs = '0123456789abcdefghijklmnopqrstuvwxyz'[:base]
        return self.B.cls_of_chars(digs + digs.upper()) | (S.ND if base >= 10 else frozenset())

    # ------------------------------------------------------------- regex
    def regex_flags(self, v):
        """re flag value of an abstract argument (None when it cannot be determined)."""
        if v is None:
            return 0
        if isinstance(v, Int) and v.const() is not None:
            return v.const()
        if isinstance(v, Ext):
            out = 0
            for part in v.name.replace('flags:', '').split('|'):
                nm = part.split('.')[-1]
                if not part.startswith('re.') or not hasattr(re, nm):
                    return None
                out |= int(getattr(re, nm))
            return out
        return None

    def regex_lang(self, pat, flags):
        key = (pat, flags)
        if key not in self.regex_cache:
            self.regex_cache[key] = RegexLang(pat, flags, self.B)
        return self.regex_cache[key]

    def regex_match(self, lang, how, subject, node, env):
        if not isinstance(subject, Str):
            self.ctx.raise_('TypeError', node, env, 'regex on %r' % (subject,))
            return MatchV(lang, self.ctx.S.any_str(env))
        return MatchV(lang.anchored(how), subject, None, True) if lang is not None else MatchV(None, subject)

    def match_group(self, m, args, env, node):
        S = self.ctx.S
        if m.maybe_none:
            self.ctx.raise_('AttributeError', node, env, 'match may be None')
        if m.lang is None or not m.lang.ok or m.alt is None:
            return Maybe([S.any_str(env), NONE]) if False else S.any_str(env)
        a = args[0] if args else Int(0, 0)
        key = S.const_value(env, a) if isinstance(a, Str) else (a.const() if isinstance(a, Int) else None)
        if key == 0 or key is None and not args:
            return m.subject
        span = m.alt.groups.get(key)
        if span is None:
            return NONE
        return self.alt_span(m, span, env)

    def alt_span(self, m, span, env):
        """Substring of the subject corresponding to items[span] of the matched alternative."""
        S = self.ctx.S
        items = m.alt.items
        s = m.subject
        x, y = span
        if all(it.fixed() for it in items[:y]) and all(it.lo == 1 for it in items[:y]):
            return S.slice(env, s, x, y)
        if all(it.fixed() and it.lo == 1 for it in items[x:]) and m.lang.anch_end is not None:
            # counted from the end of the subject: only when the pattern is anchored there (a `$` may leave one line feed behind it)
            n = len(items) + (1 if m.nl else 0)
            y2 = y + 0
            b = -(n - y2) if y2 < n else None
            return S.slice(env, s, -(n - x), b)
        # fresh string from the group's own items
        cells = []
        lo = hi = 0
        cls = set()
        for it in items[x:y]:
            cls |= it.cls
            lo += it.lo
            hi = None if (hi is None or it.hi is None) else hi + it.hi
        return Str((), env.new_cell(frozenset(cls)), (), lo, hi)

    # ------------------------------------------------------------- helpers
    def collection_char_cls(self, coll, env):
        """Class of single characters c for which `c in coll` can be true (None if unknown)."""
        S = self.ctx.S
        if isinstance(coll, Str):
            v = S.const_value(env, coll)
            if v is not None:
                return self.B.cls_of_chars(v)
            return S.join_cls(env, coll)
        if isinstance(coll, PyConst):
            items = coll.v.keys() if isinstance(coll.v, dict) else coll.v
            if all(isinstance(x, str) for x in items):
                return self.B.cls_of_chars(''.join(x for x in items if len(x) == 1))
        if isinstance(coll, Tup):
            chars = ''
            for e in coll.elems:
                v = S.const_value(env, e) if isinstance(e, Str) else None
                if v is None:
                    return None
                if len(v) == 1:
                    chars += v
            return self.B.cls_of_chars(chars)
        if isinstance(coll, DictV):
            return self.B.cls_of_chars(''.join(k for k in coll.d if len(k) == 1))
        return None


class StarMany:
    __slots__ = ('elem',)

    def __init__(self, elem):
        self.elem = elem
