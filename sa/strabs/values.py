"""Abstract values and string operations for the STRABS prototype."""
import itertools

INF = None
_cell_counter = itertools.count(1)


def fresh_id():
    return next(_cell_counter)


class _Top:
    def __repr__(self):
        return 'TOP'


TOP = _Top()


class _NoneV:
    def __repr__(self):
        return 'NONE'


NONE = _NoneV()


class Bool:
    __slots__ = ('v',)

    def __init__(self, v=None):
        self.v = v

    def __repr__(self):
        return 'Bool(%r)' % (self.v,)


class Int:
    __slots__ = ('lo', 'hi', 'form', '_iid', 'deps')

    def __init__(self, lo=None, hi=None, form=None):
        self.lo, self.hi = lo, hi
        self.form = form      # None or (dict cell -> (kind, coeff)), const): value == const + sum coeff*val(cell)
        self._iid = None
        self.deps = frozenset()   # input cells this integer was computed from (coverage only)

    def alldeps(self):
        d = self.deps
        if self.form is not None:
            d = d | frozenset(cell for (_k, cell) in self.form[0] if not isinstance(cell, frozenset))
        return d

    @property
    def iid(self):
        """Identity of this particular integer value for relational facts."""
        if self._iid is None:
            self._iid = fresh_id()
        return self._iid

    def const(self):
        return self.lo if (self.lo is not None and self.lo == self.hi) else None

    def __repr__(self):
        return 'Int[%s,%s]' % (self.lo, self.hi)


class Opaque:
    """Some object of a known kind that is not modelled further (bytes, date, ...)."""
    __slots__ = ('kind',)

    def __init__(self, kind):
        self.kind = kind

    def __repr__(self):
        return 'Opaque(%s)' % self.kind


class Tup:
    __slots__ = ('elems', 'mutable')

    def __init__(self, elems, mutable=False):
        self.elems, self.mutable = list(elems), mutable

    def __repr__(self):
        return 'Tup(%r)' % (self.elems,)


class ListOf:
    """Sequence of unknown length."""
    __slots__ = ('elem', 'lo', 'hi')

    def __init__(self, elem, lo=0, hi=INF):
        self.elem, self.lo, self.hi = elem, lo, hi

    def __repr__(self):
        return 'ListOf(%r,%s,%s)' % (self.elem, self.lo, self.hi)


class PyConst:
    """A folded python constant that is a container (dict/set/tuple/list of constants)."""
    __slots__ = ('v',)

    def __init__(self, v):
        self.v = v

    def __repr__(self):
        r = repr(self.v)
        return 'PyConst(%s)' % (r if len(r) < 60 else r[:57] + '...')


class Mod:
    __slots__ = ('name',)

    def __init__(self, name):
        self.name = name

    def __repr__(self):
        return 'Mod(%s)' % self.name


class ModSet:
    """One of several modules (dynamic dispatch)."""
    __slots__ = ('names', 'maybe_none')

    def __init__(self, names, maybe_none=False):
        self.names, self.maybe_none = tuple(names), maybe_none

    def __repr__(self):
        return 'ModSet(%d)' % len(self.names)


class Func:
    __slots__ = ('mod', 'name', 'node', 'closure')

    def __init__(self, mod, name, node=None, closure=None):
        self.mod, self.name, self.node, self.closure = mod, name, node, closure

    def __repr__(self):
        return 'Func(%s.%s)' % (self.mod, self.name)


class Ext:
    """External (stdlib) object referenced by dotted name."""
    __slots__ = ('name',)

    def __init__(self, name):
        self.name = name

    def __repr__(self):
        return 'Ext(%s)' % self.name


class BoundMethod:
    __slots__ = ('obj', 'name')

    def __init__(self, obj, name):
        self.obj, self.name = obj, name

    def __repr__(self):
        return 'BoundMethod(%r.%s)' % (self.obj, self.name)


class RegexV:
    __slots__ = ('lang', 'reg')

    def __init__(self, lang, reg=None):
        self.lang = lang
        self.reg = reg


class MatchV:
    __slots__ = ('lang', 'subject', 'alt', 'maybe_none', 'nl')

    def __init__(self, lang, subject, alt=None, maybe_none=True, nl=False):
        self.lang, self.subject, self.alt, self.maybe_none, self.nl = lang, subject, alt, maybe_none, nl


class RegDB:
    __slots__ = ('name',)

    def __init__(self, name):
        self.name = name


class RegInfo:
    """Result of NumDB.info(): list of (part, props); nonempty iff query nonempty."""
    __slots__ = ('name', 'lo', 'hi', 'query')

    def __init__(self, name, lo, hi=INF, query=None):
        self.name, self.lo, self.hi, self.query = name, lo, hi, query


class RegNone:
    """None obtained from <registry props>.get(key): absent only if some entry lacks the key."""
    __slots__ = ('name', 'key')

    def __init__(self, name, key):
        self.name, self.key = name, key

    def __repr__(self):
        return 'RegNone(%s,%s)' % (self.name, self.key)


class RegDict:
    __slots__ = ('name', 'query', 'rid')

    def __init__(self, name, query=None):
        self.name = name
        self.query = query
        self.rid = fresh_id()     # identity for facts (never the Python id(), which is reused)


def skey(s):
    """Stable identity of a string value for facts: its cells when the length is fixed, else its sid."""
    if isinstance(s, Str):
        return ('cells',) + tuple(s.pre) if s.fixed else ('sid', s.sid)
    return ('obj', repr(s))


class Str:
    """pre: cells for the first positions, body: cell for the middle (None if fixed length),
    suf: cells for the last positions counted from the end (suf[0] is the last char).
    A cell is an int (looked up in env.store) or a frozenset (immediate class)."""
    __slots__ = ('pre', 'body', 'suf', 'lo', 'hi', 'imprecise', 'parent', 'roots', 'sid', 'reg')

    def __init__(self, pre, body=None, suf=(), lo=None, hi=None, imprecise=False, parent=None, roots=(), sid=None):
        self.pre, self.body, self.suf = tuple(pre), body, tuple(suf)
        if body is None:
            self.lo = self.hi = len(self.pre)
        else:
            self.lo, self.hi = lo, hi
        self.imprecise = imprecise
        self.parent = parent     # (base Str, number of characters dropped) for slices
        self.roots = roots       # sids of strings that are non-empty whenever this one is
        self.sid = sid if sid is not None else fresh_id()
        self.reg = None          # (registry, key, sid of the queried string) for values read from a registry

    @property
    def fixed(self):
        return self.body is None

    def cells(self):
        out = list(self.pre)
        if self.body is not None:
            out.append(self.body)
            out.extend(self.suf)
        return out

    def __repr__(self):
        if self.fixed:
            return 'Str(fixed %d)' % len(self.pre)
        return 'Str(pre %d, suf %d, len %s..%s)' % (len(self.pre), len(self.suf), self.lo, self.hi)


class Env:
    __slots__ = ('frames', 'store', 'dead', 'facts')
    ALL = frozenset()

    def __init__(self, frames=None, store=None):
        self.frames = frames if frames is not None else [{}]
        self.store = store if store is not None else {}
        self.dead = False
        self.facts = frozenset()

    def copy(self):
        e = Env([dict(f) for f in self.frames], dict(self.store))
        e.dead = self.dead
        e.facts = self.facts
        return e

    @property
    def vars(self):
        return self.frames[-1]

    def cls(self, cell):
        if isinstance(cell, frozenset):
            return cell
        c = self.store.get(cell)
        if c is None:
            # created in a sibling environment: nothing known here
            return Env.ALL
        return c

    def new_cell(self, cls):
        i = fresh_id()
        self.store[i] = cls
        return i

    def set_cls(self, cell, cls):
        if isinstance(cell, frozenset):
            return cls if cls <= cell else cls  # cannot record; caller handles
        self.store[cell] = cls
        if not cls:
            self.dead = True
        return cls

    def find_sid(self, sid):
        for f in self.frames:
            for v in f.values():
                if isinstance(v, Str) and v.sid == sid:
                    return v
        return None

    def replace_value(self, old, new):
        n = 0
        for f in self.frames:
            for k, v in f.items():
                if v is old:
                    f[k] = new
                    n += 1
        return n
