"""Program model: parse stdnum, resolve imports/aliases, fold module-level constants."""
import ast, glob, os

REPO = os.environ.get('SA_REPO', '/repo')


class ModInfo:
    def __init__(self, name, path, tree, is_pkg):
        self.name, self.path, self.tree, self.is_pkg = name, path, tree, is_pkg
        self.funcs = {}      # name -> FunctionDef
        self.classes = {}
        self.imports = {}    # local name -> ('mod', modname) | ('attr', modname, attr)
        self.star = []       # modules star-imported
        self.aliases = {}    # name -> ast expr (module-level Assign of Name/Attribute)
        self.consts = {}     # name -> python object (folded)
        self.const_nodes = {}
        self.assign_nodes = {}


class Program:
    def __init__(self, repo=REPO):
        self.repo = repo
        self.mods = {}
        for path in sorted(glob.glob(os.path.join(repo, 'stdnum', '**', '*.py'), recursive=True)):
            rel = os.path.relpath(path, repo)[:-3]
            parts = rel.split(os.sep)
            is_pkg = parts[-1] == '__init__'
            if is_pkg:
                parts = parts[:-1]
            name = '.'.join(parts)
            with open(path, encoding='utf-8') as f:
                src = f.read()
            self.mods[name] = ModInfo(name, path, ast.parse(src), is_pkg)
        for m in self.mods.values():
            self._index(m)
        for m in self.mods.values():
            self._fold(m)

    def _index(self, m):
        for n in m.tree.body:
            if isinstance(n, ast.FunctionDef):
                m.funcs[n.name] = n
            elif isinstance(n, ast.ClassDef):
                m.classes[n.name] = n
            elif isinstance(n, (ast.Import, ast.ImportFrom)):
                self._imp(m, n, m.imports, m.star)
            elif isinstance(n, ast.Assign) and len(n.targets) == 1 and isinstance(n.targets[0], ast.Name):
                m.assign_nodes[n.targets[0].id] = n.value
                if isinstance(n.value, (ast.Name, ast.Attribute)):
                    m.aliases[n.targets[0].id] = n.value

    def _imp(self, m, n, imports, star):
        if isinstance(n, ast.Import):
            for a in n.names:
                imports[(a.asname or a.name).split('.')[0]] = ('mod', a.name if a.asname else a.name.split('.')[0])
        else:
            mod = n.module
            for a in n.names:
                if a.name == '*':
                    star.append(mod)
                    continue
                full = mod + '.' + a.name
                if full in self.mods:
                    imports[a.asname or a.name] = ('mod', full)
                else:
                    imports[a.asname or a.name] = ('attr', mod, a.name)

    SAFE = {'set': set, 'dict': dict, 'list': list, 'tuple': tuple, 'zip': zip, 'enumerate': enumerate,
            'sorted': sorted, 'range': range, 'str': str, 'len': len, 'frozenset': frozenset, 'int': int}

    def _fold(self, m):
        """Constant-fold module level initialisers (literals and pure builtins only)."""
        ns = {'__builtins__': self.SAFE}
        for n in m.tree.body:
            try:
                if isinstance(n, ast.Assign) and len(n.targets) == 1 and isinstance(n.targets[0], ast.Name):
                    if any(isinstance(x, (ast.Attribute,)) and not self._pure_attr(x) for x in ast.walk(n.value)):
                        continue
                    if any(isinstance(x, ast.Name) and x.id not in ns and x.id not in self.SAFE and not self._local_name(n.value, x) for x in ast.walk(n.value)):
                        # maybe imported constant
                        ok = True
                        for x in ast.walk(n.value):
                            if isinstance(x, ast.Name) and x.id not in ns and x.id not in self.SAFE and not self._local_name(n.value, x):
                                v = self._imported_const(m, x.id)
                                if v is None:
                                    ok = False
                                else:
                                    ns[x.id] = v
                        if not ok:
                            continue
                    val = eval(compile(ast.Expression(n.value), m.path, 'eval'), ns)
                    ns[n.targets[0].id] = val
                    m.const_nodes[n.targets[0].id] = n.value
                elif isinstance(n, ast.Expr) and isinstance(n.value, ast.Call) and isinstance(n.value.func, ast.Attribute) \
                        and n.value.func.attr == 'update' and isinstance(n.value.func.value, ast.Name) and n.value.func.value.id in ns:
                    eval(compile(ast.Expression(n.value), m.path, 'eval'), ns)
                elif isinstance(n, ast.Delete):
                    for t in n.targets:
                        if isinstance(t, ast.Name):
                            ns.pop(t.id, None)
            except Exception:
                continue
        m.consts = {k: v for k, v in ns.items() if k != '__builtins__' and isinstance(v, (str, int, tuple, list, set, frozenset, dict))}

    @staticmethod
    def _local_name(expr, name_node):
        # comprehension / lambda targets
        for x in ast.walk(expr):
            if isinstance(x, ast.comprehension):
                for t in ast.walk(x.target):
                    if isinstance(t, ast.Name) and t.id == name_node.id:
                        return True
            if isinstance(x, ast.Lambda):
                if any(a.arg == name_node.id for a in x.args.args):
                    return True
        return False

    @staticmethod
    def _pure_attr(x):
        return x.attr in ('split', 'join', 'keys', 'values', 'items', 'fromkeys', 'lower', 'upper', 'strip', 'format')

    def _imported_const(self, m, name):
        imp = m.imports.get(name)
        if imp and imp[0] == 'attr' and imp[1] in self.mods:
            return self.mods[imp[1]].consts.get(imp[2])
        return None

    # ------------------------------------------------------------ resolution
    def resolve_name(self, m, name, depth=0):
        """Resolve a module-level name to ('func', modname, fname) | ('mod', modname) | ('const', obj)
        | ('class', modname, cname) | None"""
        if depth > 6:
            return None
        if name in m.funcs:
            return ('func', m.name, name)
        if name in m.classes:
            return ('class', m.name, name)
        if name in m.aliases:
            return self.resolve_expr(m, m.aliases[name], depth + 1)
        if name in m.consts:
            return ('const', m.consts[name])
        if name in m.imports:
            imp = m.imports[name]
            if imp[0] == 'mod':
                return ('mod', imp[1])
            if imp[1] in self.mods:
                return self.resolve_name(self.mods[imp[1]], imp[2], depth + 1)
            return ('ext', imp[1], imp[2])
        for s in m.star:
            if s in self.mods:
                r = self.resolve_name(self.mods[s], name, depth + 1)
                if r:
                    return r
        return None

    def resolve_expr(self, m, expr, depth=0):
        if isinstance(expr, ast.Name):
            return self.resolve_name(m, expr.id, depth)
        if isinstance(expr, ast.Attribute):
            base = self.resolve_expr(m, expr.value, depth)
            if base and base[0] == 'mod':
                if base[1] in self.mods:
                    sub = base[1] + '.' + expr.attr
                    r = self.resolve_name(self.mods[base[1]], expr.attr, depth + 1)
                    if r:
                        return r
                    if sub in self.mods:
                        return ('mod', sub)
                    return None
                return ('ext', base[1], expr.attr)
            if base and base[0] == 'ext':
                return ('ext', base[1] + '.' + base[2], expr.attr)
        return None

    def number_modules(self):
        out = []
        for name, m in sorted(self.mods.items()):
            if m.is_pkg or name in ('stdnum.util', 'stdnum.exceptions', 'stdnum.numdb', 'stdnum.iso9362'):
                continue
            r = self.resolve_name(m, 'validate')
            if r and r[0] == 'func':
                out.append(name)
        return out

    def all_string_chars(self):
        chars = set()
        for m in self.mods.values():
            for n in ast.walk(m.tree):
                if isinstance(n, ast.Constant) and isinstance(n.value, str):
                    if n.value is getattr(ast.get_docstring, '__doc__', None):
                        continue
                    chars.update(n.value)
        return chars


