"""Statement level of the STRABS prototype: environments, exceptions, control flow."""
import ast
from .values import *
from .strops import StrOps

import os
TRACE = os.environ.get('SA_TRACE')
TRACEVAR = os.environ.get('SA_TRACEVAR', 'number')
# disjuncts kept per program point / per call result before environments are joined (thorough tier: four times as many)
MAXENV = 192 if os.environ.get('SA_THOROUGH') else 48
MAXPAIRS = 96 if os.environ.get('SA_THOROUGH') else 24
VE_CLASSES = {'ValidationError': None, 'InvalidFormat': 'ValidationError', 'InvalidChecksum': 'ValidationError',
              'InvalidLength': 'InvalidFormat', 'InvalidComponent': 'ValidationError'}
PY_HIER = {'ValueError': 'Exception', 'IndexError': 'LookupError', 'KeyError': 'LookupError', 'LookupError': 'Exception',
           'TypeError': 'Exception', 'AttributeError': 'Exception', 'ZeroDivisionError': 'ArithmeticError',
           'ArithmeticError': 'Exception', 'OverflowError': 'ArithmeticError', 'struct.error': 'Exception',
           'StopIteration': 'Exception', 'UnicodeError': 'ValueError', 'binascii.Error': 'ValueError',
           'ImportError': 'Exception', 'Unknown': 'Exception', 'Exception': 'BaseException',
           'ValidationError': 'ValueError'}


def kind_parents(kind):
    out = [kind]
    k = kind
    while True:
        if k in VE_CLASSES and VE_CLASSES[k]:
            k = VE_CLASSES[k]
        elif k in PY_HIER:
            k = PY_HIER[k]
        else:
            break
        out.append(k)
    return out


def is_ve(kind):
    return kind in VE_CLASSES


class Event:
    __slots__ = ('kind', 'node', 'env', 'chain', 'why', 'mod', 'reg')

    def __init__(self, kind, node, env, chain, why, mod, reg=None):
        self.kind, self.node, self.env, self.chain, self.why, self.mod, self.reg = kind, node, env, chain, why, mod, reg


class Ctx:
    def __init__(self, prog, blocks):
        self.prog, self.B = prog, blocks
        self.S = StrOps(blocks)
        self.scopes = [[]]
        self.stack = []          # (modname, fname)
        self.unsupported = []
        self.reg_obligations = []
        self.notes = []
        self.visited = set()      # partial operations reached: (module, line, col, kind)

    def raise_(self, kind, node, env, why='', reg=None):
        if env.dead:
            return
        mod = self.stack[-1][0] if self.stack else '?'
        self.scopes[-1].append(Event(kind, node, env.copy(), tuple(self.stack), why, mod, reg))

    def unsup(self, node, what):
        mod = self.stack[-1] if self.stack else ('?', '?')
        self.unsupported.append((mod, getattr(node, 'lineno', 0), what))


class Exec:
    """Mixin with statement execution; Interp (interp.py) adds expressions."""
    SUMMARISED = {('stdnum.util', 'clean'), ('stdnum.util', 'get_cc_module'), ('stdnum.numdb', 'get'), ('stdnum.util', 'get_soap_client')}

    def exec_block(self, stmts, envs):
        """Run statements on a list of envs. Returns (normal_envs, completions) where completions are
        ('return', env, value) | ('break', env) | ('continue', env)."""
        comps = []
        for st in stmts:
            if not envs:
                break
            nxt = []
            for env in envs:
                if env.dead:
                    continue
                n, c = self.exec_stmt(st, env)
                if TRACE and self.ctx.stack and ('%s:%s' % self.ctx.stack[-1]).endswith(TRACE):
                    import ast as _a
                    print('TRACE', self.ctx.stack[-1][1], 'L%d' % st.lineno, _a.unparse(st).split('\n')[0][:60], '->', len(n), 'envs', len(c), 'comps')
                    for e in n:
                        v = e.vars.get(TRACEVAR)
                        print('      ', self.ctx.S.describe(e, v)[:230] if isinstance(v, Str) else v)
                nxt.extend(e for e in n if not e.dead)
                comps.extend(c)
            envs = self.cap(nxt)
        return envs, comps

    def cap(self, envs):
        if len(envs) <= MAXENV:
            return envs
        # join environments pairwise by a coarse key until under the cap
        groups = {}
        for e in envs:
            key = tuple(sorted((k, type(v).__name__, (v.lo, v.hi) if isinstance(v, Str) else None) for k, v in e.vars.items()))
            groups.setdefault(key, []).append(e)
        out = []
        for g in groups.values():
            acc = g[0]
            for e in g[1:]:
                acc = self.join_env(acc, e)
            out.append(acc)
        if len(out) > MAXENV:
            acc = out[0]
            for e in out[1:]:
                acc = self.join_env(acc, e)
            out = [acc]
        return out

    # -------------------------------------------------------------- statements
    def exec_stmt(self, st, env):
        ctx = self.ctx
        if isinstance(st, ast.Expr):
            if isinstance(st.value, ast.Constant):
                return [env], []
            self.eval(st.value, env)
            return [env], []
        if isinstance(st, ast.Assign):
            outs = self.eval_multi(st.value, env)
            res = []
            for e, v in outs:
                if len(self.ctx.stack) == 2 and len(st.targets) == 1 and isinstance(st.targets[0], ast.Name):
                    old_ = e.vars.get(st.targets[0].id)
                    if isinstance(old_, Str) and ('input', old_.sid) in e.facts and not (isinstance(v, Str) and v.sid == old_.sid):
                        self.note_input_coverage(e)      # the canonical input is about to be rebound: take stock now
                for t in st.targets:
                    self.assign(t, v, e, st)
                if len(self.ctx.stack) == 2 and isinstance(v, Str) and len(st.targets) == 1 and isinstance(st.targets[0], ast.Name) \
                        and not any(isinstance(f, tuple) and f and f[0] == 'input' for f in e.facts):
                    # the first string bound in the entry function: the canonical form of the input
                    e.facts = e.facts | {('input', v.sid)}
                    if isinstance(st.value, ast.Call) and isinstance(st.value.func, ast.Name) and st.value.func.id == 'compact':
                        e.facts = e.facts | {('compactinput', v.sid)}
                res.append(e)
            return res, []
        if isinstance(st, ast.AugAssign):
            cur = self.eval(st.target, env)
            rhs = self.eval(st.value, env)
            v = self.binop(st.op, cur, rhs, env, st)
            self.assign(st.target, v, env, st)
            return [env], []
        if isinstance(st, ast.Return):
            if st.value is None:
                return [], [('return', env, NONE)]
            if self.is_predicate_expr(st.value):
                # a predicate's return paths are kept apart by truth value, each refined by what makes it so
                outs = []
                for truth in (True, False):
                    for e in self.assume(st.value, truth, env.copy()):
                        outs.append(('return', e, Bool(truth)))
                return [], outs
            outs = self.eval_multi(st.value, env)
            if len(self.ctx.stack) == 2:
                for e, v in outs:
                    self.note_input_coverage(e)
            return [], [('return', e, v) for e, v in outs if not e.dead]
        if isinstance(st, ast.Raise):
            self.do_raise(st, env)
            return [], []
        if isinstance(st, ast.If):
            t_envs = self.assume(st.test, True, env.copy())
            f_envs = self.assume(st.test, False, env.copy())
            n1, c1 = self.exec_block(st.body, t_envs)
            n2, c2 = self.exec_block(st.orelse, f_envs) if st.orelse else (f_envs, [])
            return n1 + n2, c1 + c2
        if isinstance(st, ast.For):
            return self.exec_for(st, env)
        if isinstance(st, ast.While):
            return self.exec_while(st, env)
        if isinstance(st, ast.Try):
            return self.exec_try(st, env)
        if isinstance(st, ast.Pass):
            return [env], []
        if isinstance(st, ast.Break):
            return [], [('break', env)]
        if isinstance(st, ast.Continue):
            return [], [('continue', env)]
        if isinstance(st, (ast.Import, ast.ImportFrom)):
            self.local_import(st, env)
            return [env], []
        if isinstance(st, ast.FunctionDef):
            env.vars[st.name] = Func(self.ctx.stack[-1][0], st.name, st, closure=env.vars)
            return [env], []
        if isinstance(st, ast.Delete):
            return [env], []
        if isinstance(st, ast.Global):
            return [env], []
        if isinstance(st, ast.With):
            for it in st.items:
                v = self.eval(it.context_expr, env)
                if it.optional_vars is not None:
                    self.assign(it.optional_vars, TOP, env, st)
            return self.exec_block(st.body, [env])
        ctx.unsup(st, 'stmt ' + type(st).__name__)
        return [env], []

    def note_input_coverage(self, e):
        """At a return of the entry function: which characters of the canonical input were never handed to a
        check digit algorithm / generator / comparison on this path."""
        sids = [f[1] for f in e.facts if isinstance(f, tuple) and f and f[0] == 'input']
        if not sids:
            return
        s = e.find_sid(sids[0])
        if s is None:
            return
        if ('compactinput', sids[0]) in e.facts and not any(isinstance(f, tuple) and f and f[0] == 'inputstr' for f in e.facts):
            # the canonical input itself (as bound by `number = compact(number)`), for analyses that want to hand it to another validator
            e.facts = e.facts | {('inputstr', s)}
        if any(isinstance(f, tuple) and f and f[0] == 'uncov' for f in e.facts):
            return
        covered = set()
        for f in e.facts:
            if isinstance(f, tuple) and f and f[0] == 'cov':
                covered.update(f[3:])
        from .strops import DERIVED, ORIGIN
        # a summary cell (body of a concatenation, loop element) that was handed over covers the cells it summarises
        todo = list(covered)
        while todo:
            d0 = todo.pop()
            o0 = ORIGIN.get(d0)
            if o0 is not None and not isinstance(o0, frozenset) and o0 not in covered:
                covered.add(o0)
                todo.append(o0)
            dd = DERIVED.get(d0)
            for p, _inv in ((dd if isinstance(dd, list) else [dd]) if dd else []):
                if not isinstance(p, frozenset) and p not in covered:
                    covered.add(p)
                    todo.append(p)
        unc = []
        cells = s.cells()
        for i, c in enumerate(cells):
            if isinstance(c, frozenset) or c in covered:
                continue
            ex = self.B.exact_chars(e.cls(c))
            if ex is not None and len(ex) <= 1:
                continue
            d = DERIVED.get(c)
            srcs = [p for p, _inv in (d if isinstance(d, list) else [d])] if d else []
            if srcs and all(p in covered for p in srcs):
                continue
            o = c
            hit = False
            while o in ORIGIN:
                o = ORIGIN[o]
                if o in covered:
                    hit = True
                    break
            if hit:
                continue
            unc.append((i if s.fixed or i < len(s.pre) else i - len(cells), self.B.describe(e.cls(c))[:24]))
        e.facts = e.facts | {('uncov', tuple(unc), self.ctx.S.describe(e, s)[:80])}

    PRED_FUNCS = {'bool', 'all', 'any'}
    PRED_METHODS = {'startswith', 'endswith', 'isdigit', 'isalpha', 'isalnum', 'isdecimal', 'isspace'}

    def is_predicate_expr(self, node):
        if isinstance(node, ast.Compare):
            return True
        if isinstance(node, ast.UnaryOp) and isinstance(node.op, ast.Not):
            return True
        if isinstance(node, ast.BoolOp):
            return all(self.is_predicate_expr(v) for v in node.values)
        if isinstance(node, ast.Call):
            if isinstance(node.func, ast.Name) and node.func.id in self.PRED_FUNCS:
                return True
            if isinstance(node.func, ast.Attribute) and node.func.attr in self.PRED_METHODS:
                return True
        return False

    def eval_multi(self, node, env):
        """Evaluate an expression; a direct call to a repo function keeps its return paths apart."""
        if isinstance(node, ast.Call) and not any(isinstance(a, ast.Starred) for a in node.args):
            fn = self.eval(node.func, env)
            if isinstance(fn, Func) and (fn.mod, fn.name) not in self.SUMMARISED:
                # a nested repo call in argument position keeps its return paths apart as well: f(g(x))
                nested = [i for i, a in enumerate(node.args) if isinstance(a, ast.Call) and not any(isinstance(x, ast.Starred) for x in a.args)
                          and isinstance(self.eval(a.func, env.copy()), Func) and (self.eval(a.func, env.copy()).mod, self.eval(a.func, env.copy()).name) not in self.SUMMARISED]
                if len(nested) == 1 and len(node.args) <= 3:
                    i0 = nested[0]
                    res = []
                    for e1, v1 in self.eval_multi(node.args[i0], env):
                        args = [v1 if j == i0 else self.eval(a, e1) for j, a in enumerate(node.args)]
                        kwargs = {k.arg: self.eval(k.value, e1) for k in node.keywords if k.arg is not None}
                        if e1.dead:
                            continue
                        outs = self.call_func(fn, args, kwargs, node, e1, multi=True)
                        if outs is None or isinstance(outs, list) is False:
                            if not e1.dead:
                                res.append((e1, outs))
                        else:
                            res.extend(outs)
                    return self.cap_pairs(res)
                args = [self.eval(a, env) for a in node.args]
                kwargs = {k.arg: self.eval(k.value, env) for k in node.keywords if k.arg is not None}
                if env.dead:
                    return []
                outs = self.call_func(fn, args, kwargs, node, env, multi=True)
                if outs is None or isinstance(outs, list) is False:
                    return [(env, outs)] if not env.dead else []
                return self.cap_pairs(outs)
        v = self.eval(node, env)
        return [(env, v)] if not env.dead else []

    def cap_pairs(self, outs):
        if len(outs) <= MAXPAIRS:
            return outs
        acc, val = outs[0]
        for e, v in outs[1:]:
            old_ = acc
            acc = self.join_env(acc, e)
            val = self.join_sided(val, old_, v, e, acc)
        return [(acc, val)]

    def do_raise(self, st, env):
        ctx = self.ctx
        if st.exc is None:
            ctx.raise_('RERAISE', st, env)
            return
        e = st.exc
        c = e.func if isinstance(e, ast.Call) else e
        name = ast.unparse(c)
        if isinstance(e, ast.Call):
            for a in e.args:
                if not (isinstance(a, ast.Call) and ast.unparse(a.func) in VE_CLASSES):
                    self.eval(a, env)
        short = name.split('.')[-1]
        if short in VE_CLASSES:
            ctx.raise_(short, st, env, 'raise')
        elif short in PY_HIER:
            ctx.raise_(short, st, env, 'explicit raise of non-ValidationError')
        else:
            ctx.raise_('Unknown', st, env, 'explicit raise of ' + name)

    def assign(self, target, v, env, st):
        if isinstance(target, ast.Name):
            env.vars[target.id] = v
        elif isinstance(target, (ast.Tuple, ast.List)):
            n = len(target.elts)
            elems = self.unpack(v, n, env, st)
            for t, x in zip(target.elts, elems):
                self.assign(t, x, env, st)
        elif isinstance(target, ast.Subscript):
            if isinstance(target.value, ast.Name) and target.value.id not in env.vars:
                # store into a module level dict (memo cache): remember the stored values
                key = (self.ctx.stack[-1][0], target.value.id)
                old = self.memo.get(key)
                self.memo[key] = v if old is None else self.join(old, v, env)
                self.eval(target.slice, env)
                return
            base = self.eval(target.value, env)
            self.eval(target.slice, env)
            if isinstance(base, Tup) and base.mutable:
                idx = self.eval(target.slice, env)
                c = idx.const() if isinstance(idx, Int) else None
                if c is not None and -len(base.elems) <= c < len(base.elems):
                    base.elems[c] = v
                else:
                    base.elems[:] = [self.join(x, v, env) for x in base.elems]
            elif base.__class__.__name__ == 'DictV':
                # a dict literal that is written to: its key set is no longer known
                env.replace_value(base, Opaque('dict'))
            # list stores on other objects: ignored (no aliasing model in the prototype)
        elif isinstance(target, ast.Attribute):
            self.eval(target.value, env)
        else:
            self.ctx.unsup(st, 'assign target')

    # -------------------------------------------------------------- loops
    def exec_for(self, st, env):
        it = self.eval(st.iter, env)
        complete = not any(isinstance(x, (ast.Break, ast.Return)) for b in st.body for x in ast.walk(b))
        kind, data = self.abs_iter(it, env, st.iter, link=complete)
        out_norm, comps = [], []
        if kind == 'list' and len(data) <= 40:
            envs = [env]
            for elem in data:
                nxt = []
                for e in envs:
                    e2 = e
                    self.assign(st.target, elem, e2, st)
                    n, c = self.exec_block(st.body, [e2])
                    for cc in c:
                        if cc[0] == 'break':
                            out_norm.append(cc[1])
                        elif cc[0] == 'continue':
                            n.append(cc[1])
                        else:
                            comps.append(cc)
                    nxt.extend(n)
                envs = self.cap(nxt)
            if st.orelse:
                n, c = self.exec_block(st.orelse, envs)
                comps.extend(c)
                envs = n
            return out_norm + envs, comps
        # unknown number of iterations: fixpoint with widening
        if kind == 'list':
            elem = None
            for x in data:
                elem = x if elem is None else self.join(elem, x, env)
            lo = hi = len(data)
        else:
            elem, lo, hi = data
        filt = self.char_filter_idiom(st, env, it)
        cur = env
        exits = []
        if lo == 0 or lo is None:
            exits.append(env.copy())
        for rnd in range(4):
            e2 = cur.copy()
            self.assign(st.target, elem, e2, st)
            n, c = self.exec_block(st.body, [e2])
            after = list(n)
            for cc in c:
                if cc[0] == 'break':
                    exits.append(cc[1])
                elif cc[0] == 'continue':
                    after.append(cc[1])
                else:
                    comps.append(cc)
            if not after:
                break
            j = after[0]
            for e in after[1:]:
                j = self.join_env(j, e)
            new = self.join_env(cur, j, widen=(rnd >= 1))
            exits.append(j)
            if self.env_leq(new, cur):
                break
            cur = new
        if not exits:
            return [], comps
        res = exits[0]
        for e in exits[1:]:
            res = self.join_env(res, e, widen=False)
        if filt is not None:
            filt(res)
        if st.orelse:
            n, c = self.exec_block(st.orelse, [res])
            return n, comps + c
        return [res], comps

    def char_filter_idiom(self, st, env, it):
        """for x in S: if <x not in A>: raise/return  ->  after the loop every char of S is in A."""
        if not (isinstance(it, Str) and isinstance(st.target, ast.Name) and len(st.body) == 1 and isinstance(st.body[0], ast.If)):
            return None
        iff = st.body[0]
        if iff.orelse or not isinstance(iff.body[-1], (ast.Raise, ast.Return)):
            return None
        t = iff.test
        if isinstance(t, ast.Compare) and len(t.ops) == 1 and isinstance(t.ops[0], ast.NotIn) \
                and isinstance(t.left, ast.Name) and t.left.id == st.target.id:
            coll = self.eval(t.comparators[0], env)
            cls = self.collection_char_cls(coll, env)
            if cls is not None:
                S = self.ctx.S
                parts = [it]
                def chain(n):
                    if isinstance(n, ast.BinOp) and isinstance(n.op, ast.Add):
                        chain(n.left); chain(n.right)
                    elif isinstance(n, ast.Name):
                        v = env.vars.get(n.id)
                        if isinstance(v, Str):
                            parts.append(v)
                chain(st.iter)
                def apply(e):
                    for p in parts:
                        S.refine_all(e, p, cls)
                return apply
        return None

    def exec_while(self, st, env):
        cur = env
        exits, comps = [], []
        for rnd in range(5):
            exits.extend(self.assume(st.test, False, cur.copy()))
            t = self.assume(st.test, True, cur.copy())
            n, c = self.exec_block(st.body, t)
            after = list(n)
            for cc in c:
                if cc[0] == 'break':
                    exits.append(cc[1])
                elif cc[0] == 'continue':
                    after.append(cc[1])
                else:
                    comps.append(cc)
            if not after:
                break
            j = after[0]
            for e in after[1:]:
                j = self.join_env(j, e)
            new = self.join_env(cur, j, widen=(rnd >= 1))
            if self.env_leq(new, cur):
                break
            cur = new
        if not exits:
            return [], comps
        res = exits[0]
        for e in exits[1:]:
            res = self.join_env(res, e)
        return [res], comps

    # -------------------------------------------------------------- try
    def exec_try(self, st, env):
        ctx = self.ctx
        depth = len(env.frames)      # the body may push callee frames onto this very object
        ctx.scopes.append([])
        n, comps = self.exec_block(st.body, [env])
        events = ctx.scopes.pop()
        if st.orelse:
            ctx.scopes.append([])
            n, c2 = self.exec_block(st.orelse, n)
            comps += c2
            ctx.scopes[-1:] = []  # discard placeholder (events in else are not handled here)
        out = list(n)
        for ev in events:
            handled = False
            parents = kind_parents(ev.kind) if ev.kind != 'RERAISE' else ['RERAISE']
            for h in st.handlers:
                names = self.handler_names(h)
                if names is None or any(p in names for p in parents) or ('Exception' in names and ev.kind != 'RERAISE') or 'BaseException' in names:
                    handled = True
                    henv = ev.env
                    # restore frame depth: handler runs in the frame of the try statement
                    henv.frames = henv.frames[:depth]
                    if h.name:
                        henv.vars[h.name] = Opaque('exception')
                    ctx.scopes.append([])
                    hn, hc = self.exec_block(h.body, [henv])
                    hevents = ctx.scopes.pop()
                    for he in hevents:
                        if he.kind == 'RERAISE':
                            he.kind = ev.kind
                            he.why = ev.why
                            he.node = ev.node
                        ctx.scopes[-1].append(he)
                    out.extend(hn)
                    comps.extend(hc)
                    break
            if not handled:
                ctx.scopes[-1].append(ev)
        if st.finalbody:
            out, c3 = self.exec_block(st.finalbody, out)
            comps += c3
        return out, comps

    def handler_names(self, h):
        if h.type is None:
            return None
        if isinstance(h.type, ast.Tuple):
            return [ast.unparse(x).split('.')[-1] if ast.unparse(x) not in ('struct.error',) else ast.unparse(x) for x in h.type.elts]
        n = ast.unparse(h.type)
        return [n if n == 'struct.error' else n.split('.')[-1]]
