"""Joins / ordering of abstract values and environments."""
from .values import *


class Joins:
    _sides = None

    def join_sided(self, a, ea, b, eb, env, widen=False):
        """join of value a as seen in environment ea with b as seen in eb; new cells are minted in env (the joined environment)"""
        old = self._sides
        self._sides = (ea, eb)
        try:
            return self.join(a, b, env, widen)
        finally:
            self._sides = old

    def join(self, a, b, env, widen=False):
        S = self.ctx.S
        if a is b:
            return a
        if a is TOP or b is TOP:
            return TOP
        if isinstance(a, Int) and isinstance(b, Int):
            lo = None if (a.lo is None or b.lo is None) else min(a.lo, b.lo)
            hi = None if (a.hi is None or b.hi is None) else max(a.hi, b.hi)
            if widen:
                if lo is not None and a.lo is not None and lo < a.lo:
                    lo = None
                if hi is not None and a.hi is not None and hi > a.hi:
                    hi = None
            return Int(lo, hi)
        if isinstance(a, Bool) and isinstance(b, Bool):
            return a if a.v == b.v else Bool(None)
        if isinstance(a, Str) and isinstance(b, Str):
            return self.join_str(a, b, env)
        if a is NONE and b is NONE:
            return NONE
        if isinstance(a, Tup) and isinstance(b, Tup) and len(a.elems) == len(b.elems):
            return Tup([self.join(x, y, env, widen) for x, y in zip(a.elems, b.elems)], a.mutable or b.mutable)
        if isinstance(a, Tup) and isinstance(b, Tup):
            el = None
            for x in a.elems + b.elems:
                el = x if el is None else self.join(el, x, env, widen)
            return ListOf(el if el is not None else TOP, min(len(a.elems), len(b.elems)), max(len(a.elems), len(b.elems)))
        if isinstance(a, ListOf) and isinstance(b, ListOf):
            return ListOf(self.join(a.elem, b.elem, env, widen), min(a.lo, b.lo), None if (a.hi is None or b.hi is None) else max(a.hi, b.hi))
        if isinstance(a, ListOf) and isinstance(b, Tup):
            return self.join(a, ListOf(self._elem_join(b, env), len(b.elems), len(b.elems)), env, widen)
        if isinstance(b, ListOf) and isinstance(a, Tup):
            if self._sides:
                return self.join_sided(b, self._sides[1], a, self._sides[0], env, widen)
            return self.join(b, a, env, widen)
        if isinstance(a, Opaque) and isinstance(b, Opaque) and a.kind == b.kind:
            return a
        if isinstance(a, Mod) and isinstance(b, Mod):
            return a if a.name == b.name else ModSet(sorted({a.name, b.name}))
        if isinstance(a, (Mod, ModSet)) and isinstance(b, (Mod, ModSet)) or (a is NONE and isinstance(b, (Mod, ModSet))) or (b is NONE and isinstance(a, (Mod, ModSet))):
            names = set()
            mn = False
            for x in (a, b):
                if x is NONE:
                    mn = True
                elif isinstance(x, Mod):
                    names.add(x.name)
                else:
                    names.update(x.names)
                    mn = mn or x.maybe_none
            return ModSet(sorted(names), mn)
        if isinstance(a, PyConst) and isinstance(b, PyConst) and a.v == b.v:
            return a
        if isinstance(a, PyConst) and isinstance(a.v, (tuple, list)):
            return self.join(Tup([self.from_py(x, env) for x in a.v]), b, env, widen)
        if isinstance(b, PyConst) and isinstance(b.v, (tuple, list)):
            return self.join(a, Tup([self.from_py(x, env) for x in b.v]), env, widen)
        if isinstance(a, RegDict) and isinstance(b, RegDict) and a.name == b.name:
            return a
        if isinstance(a, Func) and isinstance(b, Func) and a.mod == b.mod and a.name == b.name:
            return a
        return Maybe.of(a, b)

    def _elem_join(self, t, env):
        el = None
        for x in t.elems:
            el = x if el is None else self.join(el, x, env)
        return el if el is not None else TOP

    def join_str(self, a, b, env):
        S = self.ctx.S
        ea, eb = self._sides or (env, env)
        if a.fixed and b.fixed and len(a.pre) == len(b.pre):
            cells = []
            for x, y in zip(a.pre, b.pre):
                if (x is y or x == y) and (isinstance(x, frozenset) or x in env.store):
                    cells.append(x)
                else:
                    cells.append(env.new_cell(ea.cls(x) | eb.cls(y)))
            return Str(cells, imprecise=a.imprecise or b.imprecise, sid=a.sid if a.sid == b.sid else None)
        # different shapes: keep as many leading/trailing positions as both have
        lo = min(a.lo or 0, b.lo or 0)
        hi = None if (a.hi is None or b.hi is None) else max(a.hi, b.hi)
        k = min(self._npre(a), self._npre(b))
        m = min(self._nsuf(a), self._nsuf(b))
        pre = [env.new_cell(self._pcls(a, i, ea) | self._pcls(b, i, eb)) for i in range(k)]
        suf = [env.new_cell(self._scls(a, j, ea) | self._scls(b, j, eb)) for j in range(m)]
        body = env.new_cell(S.join_cls(ea, a) | S.join_cls(eb, b))
        # two refinements of one and the same runtime string keep its identity
        return Str(pre, body, suf, lo, hi, a.imprecise or b.imprecise, sid=a.sid if a.sid == b.sid else None)

    @staticmethod
    def _npre(s):
        return len(s.pre)

    @staticmethod
    def _nsuf(s):
        return len(s.pre) if s.fixed else len(s.suf)

    @staticmethod
    def _pcls(s, i, env):
        return env.cls(s.pre[i])

    @staticmethod
    def _scls(s, j, env):
        if s.fixed:
            return env.cls(s.pre[len(s.pre) - 1 - j])
        return env.cls(s.suf[j])

    def join_env(self, a, b, widen=False):
        """Join b into a new env based on a. Cells with the same id get the union of classes."""
        e = a.copy()
        st = e.store
        for k, v in b.store.items():
            cur = st.get(k)
            if cur is None:
                st[k] = v
            elif cur is not v and cur != v:
                st[k] = cur | v
        for fi, (fa, fb) in enumerate(zip(a.frames, b.frames)):
            out = {}
            for k in fa:
                if k in fb:
                    out[k] = self.join_sided(fa[k], a, fb[k], b, e, widen)
                # variables defined on one side only are dropped (possibly undefined)
            e.frames[fi] = out
        e.dead = a.dead and b.dead
        e.facts = a.facts & b.facts
        return e

    def env_leq(self, new, old):
        """Cheap fixpoint test: same variable kinds, int intervals and cell classes not larger."""
        for k, v in new.vars.items():
            o = old.vars.get(k)
            if o is None:
                return False
            if isinstance(v, Int):
                if not isinstance(o, Int):
                    return False
                if (o.lo is not None and (v.lo is None or v.lo < o.lo)) or (o.hi is not None and (v.hi is None or v.hi > o.hi)):
                    return False
            elif isinstance(v, Str):
                if not isinstance(o, Str):
                    return False
                if (v.lo or 0) < (o.lo or 0) or (o.hi is not None and (v.hi is None or v.hi > o.hi)):
                    return False
                if self.ctx.S.join_cls(new, v) - self.ctx.S.join_cls(old, o):
                    return False
            elif type(v) is not type(o):
                return False
        return True


class Maybe:
    """Union of unlike values (e.g. Str or None)."""
    __slots__ = ('alts',)

    def __init__(self, alts):
        self.alts = alts

    @staticmethod
    def of(a, b):
        alts = []
        for x in (a, b):
            if isinstance(x, Maybe):
                alts.extend(x.alts)
            else:
                alts.append(x)
        if len(alts) > 4:
            return TOP
        return Maybe(alts)

    def __repr__(self):
        return 'Maybe(%r)' % (self.alts,)
