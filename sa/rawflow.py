"""Where does the raw (caller supplied) first parameter of a function flow before it is rebound?

Used by C03 (validate depends on compact(x) only), C04 (format consumes compact) and C14 (every
module looks at its input only through util.clean)."""
import ast

from .common import src
from .match import strip_doc


class Use:
    __slots__ = ('kind', 'node', 'stmt', 'target', 'sub', 'detail', 'parent')

    def __init__(self, kind, node, stmt, target=None, sub=None, detail=''):
        self.kind, self.node, self.stmt, self.target, self.sub, self.detail = kind, node, stmt, target, sub, detail
        self.parent = None


def parents_of(fn):
    par = {}
    for p in ast.walk(fn):
        for c in ast.iter_child_nodes(p):
            par[c] = p
    return par


def module_tuple(prog, m, name):
    """Module-level `NAME = (mod_a, mod_b, ...)` -> list of module names."""
    node = m.assign_nodes.get(name)
    if isinstance(node, (ast.Tuple, ast.List)):
        out = []
        for e in node.elts:
            r = prog.resolve_expr(m, e)
            if not r or r[0] != 'mod':
                return None
            out.append(r[1])
        return out
    return None


def resolve_callee(prog, m, fn, call, par):
    """-> list of ('func', mod, name) candidates, or None when not resolvable."""
    f = call.func
    r = prog.resolve_expr(m, f)
    if r is not None:
        return [r]
    # mod.validate(...) with `mod` a loop variable over a module-level tuple of modules
    if isinstance(f, ast.Attribute) and isinstance(f.value, ast.Name):
        var = f.value.id
        for n in ast.walk(fn):
            if isinstance(n, (ast.For, ast.comprehension)) and isinstance(n.target, ast.Name) and n.target.id == var and isinstance(n.iter, ast.Name):
                mods = module_tuple(prog, m, n.iter.id)
                if mods:
                    out = []
                    for mn in mods:
                        rr = prog.resolve_name(prog.mods[mn], f.attr)
                        if not rr:
                            return None
                        out.append(rr)
                    return out
        # function-local import: from stdnum import numdb / from stdnum.xx import yy
        for n in ast.walk(fn):
            if isinstance(n, ast.ImportFrom):
                for a in n.names:
                    if (a.asname or a.name) == var:
                        full = n.module + '.' + a.name
                        if full in prog.mods:
                            rr = prog.resolve_name(prog.mods[full], f.attr)
                            return [rr] if rr else None
    if isinstance(f, ast.Name):
        for n in ast.walk(fn):
            if isinstance(n, ast.ImportFrom) and n.module in prog.mods:
                for a in n.names:
                    if (a.asname or a.name) == f.id:
                        rr = prog.resolve_name(prog.mods[n.module], a.name)
                        return [rr] if rr else None
    return None


def raw_uses(prog, modname, fn, pindex=0, depth=0, seen=None):
    """All reads of parameter #pindex of fn while it still holds the caller's value."""
    seen = seen or set()
    m = prog.mods[modname]
    if pindex >= len(fn.args.args):
        return []
    p = fn.args.args[pindex].arg
    par = parents_of(fn)
    uses = []
    body = strip_doc(fn.body)
    raw = True
    for st in body:
        if not raw:
            break
        for n in ast.walk(st):
            if isinstance(n, ast.Name) and n.id == p and isinstance(n.ctx, ast.Load):
                uses.append(classify(prog, m, fn, n, st, par, depth, seen))
        if isinstance(st, ast.Assign):
            for t in st.targets:
                if isinstance(t, ast.Name) and t.id == p:
                    # p = p.strip() / .upper() / .lower(): still the caller's text with all its separators inside
                    v = st.value
                    weak = False
                    while isinstance(v, ast.Call) and isinstance(v.func, ast.Attribute) and v.func.attr in ('strip', 'upper', 'lower', 'lstrip', 'rstrip') and not v.args:
                        v = v.func.value
                        weak = True
                    if not (weak and isinstance(v, ast.Name) and v.id == p):
                        raw = False
                if isinstance(t, ast.Tuple) and any(isinstance(e, ast.Name) and e.id == p for e in t.elts):
                    raw = False
    return uses


def classify(prog, m, fn, name, st, par, depth, seen):
    parent = par.get(name)
    call = None
    argpos = None
    if isinstance(parent, ast.Call) and name in parent.args:
        call, argpos = parent, parent.args.index(name)
    elif isinstance(parent, ast.keyword) and isinstance(par.get(parent), ast.Call):
        call, argpos = par[parent], parent.arg
    if call is None:
        u = Use('bad', name, st, detail='read by `%s`' % src(parent)[:80])
        u.parent = parent
        return u
    cands = resolve_callee(prog, m, fn, call, par)
    if not cands:
        fs = src(call.func)
        if fs in ('bool', 'str', 'isinstance', 'len', 'repr', 'int'):
            return Use('bad', name, st, detail='read by builtin %s()' % fs)
        f = call.func
        if isinstance(f, ast.Attribute) and f.attr in ('sub', 'subn', 'match', 'search', 'fullmatch', 'findall', 'finditer', 'split'):
            base = f.value
            compiled = isinstance(base, ast.Name) and isinstance(m.assign_nodes.get(base.id), ast.Call) \
                and src(m.assign_nodes[base.id].func) in ('re.compile', 'compile')
            if compiled or (isinstance(base, ast.Name) and m.imports.get(base.id) == ('mod', 're')) \
                    or (isinstance(base, ast.Call) and src(base.func) == 're.compile'):
                return Use('bad', name, st, detail='matched by the regular expression in `%s`' % src(call)[:80])
        return Use('dynamic', name, st, detail='argument of unresolved call %s(...)' % fs[:60])
    subs = []
    for r in cands:
        if r[0] != 'func':
            return Use('bad', name, st, detail='argument of non-function %s' % (r,))
        tm, tf = r[1], r[2]
        if (tm, tf) == ('stdnum.util', 'clean'):
            if argpos == 0:
                subs.append(Use('clean', name, st, target=(tm, tf)))
            else:
                subs.append(Use('bad', name, st, detail='passed to clean() as deletechars'))
            continue
        if tm.startswith('stdnum.util') or tm in ('stdnum.numdb',):
            subs.append(Use('bad', name, st, detail='passed to %s.%s' % (tm, tf)))
            continue
        callee = prog.mods[tm].funcs.get(tf)
        if callee is None:
            return Use('dynamic', name, st, detail='no body for %s.%s' % (tm, tf))
        if isinstance(argpos, int):
            pi = argpos
        else:
            names = [a.arg for a in callee.args.args]
            if argpos not in names:
                return Use('bad', name, st, detail='keyword %s of %s.%s' % (argpos, tm, tf))
            pi = names.index(argpos)
        if tf == 'compact':
            subs.append(Use('compact', name, st, target=(tm, tf)))
            continue
        key = (tm, tf, pi)
        if key in seen or depth >= 4:
            subs.append(Use('call', name, st, target=(tm, tf), sub=[], detail='recursion cut'))
            continue
        inner = raw_uses(prog, tm, callee, pi, depth + 1, seen | {key})
        subs.append(Use('call', name, st, target=(tm, tf), sub=inner))
    if len(subs) == 1:
        return subs[0]
    return Use('multi', name, st, sub=subs)


def flatten(uses):
    """Leaf uses (kind in clean/compact/bad/dynamic) with the chain of calls that leads there."""
    out = []

    def rec(u, chain):
        if u.kind in ('call',):
            if not u.sub and u.detail != 'recursion cut':
                out.append((Use('unused', u.node, u.stmt, target=u.target), chain + [u.target]))
            for s in u.sub or []:
                rec(s, chain + [u.target])
        elif u.kind == 'multi':
            for s in u.sub:
                rec(s, chain)
        else:
            out.append((u, chain))
    for u in uses:
        rec(u, [])
    return out


# ------------------------------------------------------------------------- normal form of compact()
def clean_default(prog):
    """The characters util.clean() deletes when called without a second argument, read from its signature
    (None when the default is not a constant string)."""
    fn = prog.mods['stdnum.util'].funcs.get('clean')
    if fn is None or len(fn.args.args) < 2 or not fn.args.defaults:
        return None
    d = fn.args.defaults[-1] if len(fn.args.defaults) >= 1 and len(fn.args.args) - len(fn.args.defaults) <= 1 else None
    if isinstance(d, ast.Constant) and isinstance(d.value, str):
        return d.value
    if isinstance(d, ast.Name):
        for st in prog.mods['stdnum.util'].tree.body:
            if isinstance(st, ast.Assign) and len(st.targets) == 1 and isinstance(st.targets[0], ast.Name) and st.targets[0].id == d.id:
                try:
                    v = ast.literal_eval(st.value)
                except (ValueError, SyntaxError):
                    return None
                return v if isinstance(v, str) else None
    return None


def compact_nf(prog, modname, fname='compact', depth=0):
    """Normal form of a compact()-like function, or None when its shape is not one of the modelled
    families.  NF = ('nf', frozenset(deletechars), frozenset(flag ops), tuple(ordered ops), tuple(prefix rules))
    or ('same', mod, func) for anything else (compared by identity)."""
    m = prog.mods[modname]
    r = prog.resolve_name(m, fname)
    if not r or r[0] != 'func' or depth > 4:
        return None
    tm, tf = r[1], r[2]
    fn = prog.mods[tm].funcs[tf]
    body = strip_doc(fn.body)
    if not fn.args.args:
        return ('same', tm, tf)
    p = fn.args.args[0].arg
    tmod = prog.mods[tm]

    def chain_nf(expr):
        ops = []
        e = expr
        while isinstance(e, ast.Call) and isinstance(e.func, ast.Attribute):
            rr0 = prog.resolve_expr(tmod, e.func)
            if rr0 and rr0[0] == 'func':
                break
            nm = e.func.attr
            if nm in ('strip', 'upper', 'lower') and not e.args:
                ops.append(nm)
            elif nm in ('lstrip', 'rstrip', 'zfill', 'strip') and len(e.args) == 1 and isinstance(e.args[0], ast.Constant):
                ops.append('%s(%r)' % (nm, e.args[0].value))
            else:
                return None
            e = e.func.value
        if isinstance(e, ast.Call):
            rr = prog.resolve_expr(tmod, e.func)
            if rr == ('func', 'stdnum.util', 'clean') and e.args and src(e.args[0]) == p:
                d = clean_default(prog)
                if d is None and len(e.args) < 2:
                    return None
                if len(e.args) > 1:
                    if not isinstance(e.args[1], ast.Constant):
                        return None
                    d = e.args[1].value
                ops.reverse()
                flags = frozenset(o for o in ops if o in ('strip', 'upper', 'lower'))
                ordered = tuple(o for o in ops if o not in ('strip', 'upper', 'lower'))
                return ('nf', frozenset(d), flags, ordered)
            if rr and rr[0] == 'func' and rr[2] == 'compact' and e.args and src(e.args[0]) == p and not ops:
                return compact_nf(prog, rr[1], rr[2], depth + 1)
        return None

    if len(body) == 1 and isinstance(body[0], ast.Return) and body[0].value is not None:
        v = body[0].value
        # f'FR{expr}' is 'FR' + expr for a string-valued expr
        if isinstance(v, ast.JoinedStr) and len(v.values) == 2 and isinstance(v.values[0], ast.Constant) and isinstance(v.values[0].value, str) \
                and isinstance(v.values[1], ast.FormattedValue) and v.values[1].format_spec is None and v.values[1].conversion == -1:
            v = ast.BinOp(left=v.values[0], op=ast.Add(), right=v.values[1].value)
        nf = chain_nf(v)
        if nf is not None:
            return nf + ((),) if nf[0] == 'nf' and len(nf) == 4 else nf
        if isinstance(v, ast.BinOp) and isinstance(v.op, ast.Add) and isinstance(v.left, ast.Constant) and isinstance(v.left.value, str):
            inner = chain_nf(v.right)
            if inner is not None:
                inner = inner + ((),) if inner[0] == 'nf' and len(inner) == 4 else inner
                return ('prefixed', v.left.value, inner)
        return ('same', tm, tf)
    # number = chain ; prefix rules ; return number
    if len(body) >= 2 and isinstance(body[0], ast.Assign) and src(body[0].targets[0]) == p and isinstance(body[-1], ast.Return) and src(body[-1].value) == p:
        nf = chain_nf(body[0].value)
        if nf is not None and nf[0] == 'nf' and len(nf) == 4:
            rules = []
            for st in body[1:-1]:
                rules.append(src(st))
            return nf + (tuple(rules),)
    return ('same', tm, tf)


def statement_nf(prog, modname, fn, stmt):
    """Normal form of `x = clean(p, D).strip()...` / `return clean(...)...` written inline in fn (None if not such a chain)."""
    import copy
    val = getattr(stmt, 'value', None)
    if val is None or not fn.args.args:
        return None
    tmp = ast.FunctionDef(name='__inline__', args=fn.args, body=[ast.Return(value=val)], decorator_list=[], returns=None, type_comment=None, type_params=[])
    m = prog.mods[modname]
    saved = m.funcs.get('__inline__')
    m.funcs['__inline__'] = tmp
    try:
        nf = compact_nf(prog, modname, '__inline__')
    finally:
        if saved is None:
            del m.funcs['__inline__']
        else:
            m.funcs['__inline__'] = saved
    return nf if nf and nf[0] in ('nf', 'prefixed') else None


def nf_equiv(a, b):
    if a is None or b is None:
        return False
    if a == b:
        return True
    # a constant prefix in front does not change which inputs are identified
    if a[0] == 'prefixed':
        return nf_equiv(a[2], b)
    if b[0] == 'prefixed':
        return nf_equiv(a, b[2])
    return False
