"""Shared plumbing of the checkers: obligations, findings, known-findings file, scope
exclusions, evidence writer, exit codes.

Exit codes: 0 = every obligation discharged or listed as a known finding,
            1 = at least one violation that known_findings.json does not list,
            2 = ANALYSIS-ERROR (anchor vanished / instance count below the confirmed one /
                construct outside the decidable dialect) - never a silent pass.
"""
import ast
import json
import os
import re
import sys
import time

VERIF = os.path.dirname(os.path.dirname(os.path.abspath(__file__)))
REPO = os.environ.get('SA_REPO', '/repo')
KNOWN = os.path.join(VERIF, 'known_findings.json')
# where violation records and evidence go (the seeded-change matrix runs several trees side by side)
OUTBASE = os.environ.get('SA_OUT', VERIF)


class AnalysisError(Exception):
    """The checker cannot decide: the anchored construct is missing or has an unknown shape."""


def norm(text):
    """Normalised construct text used in finding keys (no line numbers, no spacing)."""
    return re.sub(r'\s+', ' ', text).strip()


def src(node):
    try:
        return norm(ast.unparse(node))
    except Exception:
        return '<%s>' % type(node).__name__


def rel(path):
    path = os.path.abspath(path)
    if path.startswith(REPO.rstrip('/') + '/'):
        return path[len(REPO.rstrip('/')) + 1:]
    return path


class Finding:
    __slots__ = ('rule', 'file', 'func', 'construct', 'line', 'detail')

    def __init__(self, rule, file, func, construct, line, detail):
        self.rule, self.file, self.func = rule, file, func
        self.construct, self.line, self.detail = norm(construct), line, detail

    @property
    def key(self):
        return '%s|%s|%s|%s' % (self.rule, self.file, self.func, self.construct)

    def as_dict(self):
        return {'rule': self.rule, 'file': self.file, 'function': self.func, 'construct': self.construct,
                'line': self.line, 'detail': self.detail, 'key': self.key}


class Report:
    def __init__(self, pid, tier='quick', level='other', rule_text='', trusted=(), assumptions=()):
        self.pid, self.tier, self.level = pid, tier, level
        self.rule_text = rule_text
        self.trusted = list(trusted)
        self.assumptions = list(assumptions)
        self.t0 = time.time()
        self.obligations = 0
        self.discharged = 0
        self.keys = set()
        self.findings = []
        self.undecided = []
        self.samples = []
        self.counts = {}
        self.units = {}
        self.extra = {}
        self.not_decided = []
        self.errors = []

    # ------------------------------------------------------------------ obligations
    def ok(self, rule, where, what=''):
        """One discharged obligation."""
        self.obligations += 1
        self.discharged += 1
        self.counts[rule] = self.counts.get(rule, 0) + 1
        self.keys.add((rule, where, what))
        if len(self.samples) < 400:
            self.samples.append({'rule': rule, 'where': where, 'what': what, 'verdict': 'holds'})

    def fail(self, rule, file, func, construct, line, detail):
        """One failed obligation."""
        self.obligations += 1
        self.counts[rule] = self.counts.get(rule, 0) + 1
        f = Finding(rule, file, func, construct, line, detail)
        for g in self.findings:
            if g.key == f.key:
                return g
        self.findings.append(f)
        self.keys.add((rule, f.key, ''))
        return f

    def check(self, cond, rule, file, func, construct, line, detail, what=''):
        if cond:
            self.ok(rule, '%s:%s %s' % (file, line, func), what or norm(construct)[:120])
        else:
            self.fail(rule, file, func, construct, line, detail)
        return cond

    def undecide(self, rule, where, reason):
        self.undecided.append({'rule': rule, 'where': where, 'reason': reason})

    def unit(self, name, n):
        self.units[name] = self.units.get(name, 0) + n

    def expect_at_least(self, rule, n, what):
        """A rule that matches fewer instances than were confirmed by hand is broken, not passing."""
        got = self.counts.get(rule, 0)
        if got < n:
            self.errors.append('rule %s matched %d instances of %s, at least %d confirmed on the reference tree'
                               % (rule, got, what, n))

    def error(self, msg):
        self.errors.append(msg)

    # ------------------------------------------------------------------ finish
    def finish(self):
        known = load_known(self.pid)
        wall = time.time() - self.t0
        viol, kf = [], []
        used = set()
        for f in self.findings:
            ent = match_known(known, f)
            if ent is not None:
                kf.append((f, ent))
                used.add(id(ent))
            else:
                viol.append(f)
        outdir = os.path.join(OUTBASE, 'out', self.pid)
        lines = []
        if viol:
            os.makedirs(outdir, exist_ok=True)
            for old in os.listdir(outdir):
                if re.match(r'v\d+\.json$', old):
                    os.unlink(os.path.join(outdir, old))
        for f, ent in kf:
            lines.append('KNOWN-FINDING: property=%s %s [%s] %s' % (self.pid, ent.get('what', f.detail), f.rule,
                                                                    '%s:%s' % (f.file, f.func)))
        for i, f in enumerate(viol, 1):
            path = os.path.join(outdir, 'v%d.json' % i)
            with open(path, 'w') as fh:
                json.dump({'property': self.pid, 'finding': f.as_dict()}, fh, indent=1)
            lines.append('VIOLATION property=%s replay=%s' % (self.pid, path))
            lines.append('    %s:%s in %s [%s] %s\n    construct: %s' % (f.file, f.line, f.func, f.rule, f.detail, f.construct[:200]))
        for e in self.errors:
            lines.append('ANALYSIS-ERROR property=%s %s' % (self.pid, e))
        # a located violation stands even when another part of the check could not be decided
        status = 1 if viol else (2 if self.errors else 0)
        self.write_evidence(wall, viol, kf)
        print('\n'.join(lines))
        print('%s [%s] obligations=%d discharged=%d known-findings=%d violations=%d undecided=%d errors=%d wall=%.1fs'
              % (self.pid, self.tier, self.obligations, self.discharged, len(kf), len(viol), len(self.undecided),
                 len(self.errors), wall))
        return status

    def write_evidence(self, wall, viol, kf):
        samples = self.samples
        if len(samples) > 24:
            step = len(samples) // 24
            samples = samples[::step][:24]
        samples = samples + [dict(f.as_dict(), verdict='known finding') for f, _ in kf[:6]] \
            + [dict(f.as_dict(), verdict='VIOLATION') for f in viol[:6]]
        cov = {
            'obligations': self.obligations,
            'discharged': self.discharged,
            'known_findings': len(kf),
            'evaluations': max(self.obligations, 1),
            'distinct_nontrivial': len(self.keys),
            'rule': self.rule_text + ' | distinct = distinct (rule, construct) pairs; an obligation is a statement about '
                    'all inputs reaching that construct, decided from the syntax tree of /repo as it is now',
            'samples': samples or [{'note': 'no obligation generated'}],
            'checker_cmd': '/venv/bin/python -m sa %s --tier %s' % (self.pid, self.tier),
            'trusted_base': self.trusted,
            'explanation': 'static analysis of the source (no code of the repository is executed): ' + self.rule_text,
            'exhaustive': True,
            'rule_instances': self.counts,
            'units_analysed': self.units,
            'undecided': self.undecided[:60],
            'undecided_count': len(self.undecided),
            'not_decided_by_this_check': self.not_decided,
            'known_finding_keys': [f.key for f, _ in kf],
            'analysis_errors': self.errors,
        }
        cov.update(self.extra)
        ev = {
            'property_id': self.pid,
            'tier': self.tier,
            'seed': int(os.environ.get('VERIF_SEED', '0') or 0),
            'level': self.level,
            'coverage': cov,
            'assumptions': self.assumptions,
            'wall_s': round(wall, 2),
            'violations': len(viol),
        }
        os.makedirs(os.path.join(OUTBASE, 'evidence'), exist_ok=True)
        path = os.path.join(OUTBASE, 'evidence', '%s.json' % self.pid)
        tmp = path + '.tmp'
        with open(tmp, 'w') as fh:
            json.dump(ev, fh, indent=1, default=str)
        os.replace(tmp, path)


def load_known(pid):
    try:
        with open(KNOWN) as fh:
            data = json.load(fh)
    except FileNotFoundError:
        return []
    return [e for e in data.get('findings', []) if e.get('property') == pid]


def match_known(known, f):
    """An entry suppresses a finding only when status is 'known' and the key matches exactly
    (rule, file, function, normalised construct).  'fixed:<commit>' entries suppress nothing."""
    for e in known:
        if e.get('status') != 'known':
            continue
        if e.get('key') == f.key:
            return e
    return None


def run_guarded(pid, fn, tier):
    """Run a check function; tracebacks become ANALYSIS-ERROR / exit 2, never exit 1."""
    try:
        return fn(tier)
    except AnalysisError as e:
        print('ANALYSIS-ERROR property=%s %s' % (pid, e))
        return 2
    except Exception:
        import traceback
        traceback.print_exc()
        print('ANALYSIS-ERROR property=%s internal error of the checker (see traceback)' % pid)
        return 2
