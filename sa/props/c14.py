"""C14 - character clean-up never changes the value of a number (engine TAB).

Decided from the source of stdnum/util.py: the look-alike table literal is read with
ast.literal_eval, every entry is checked against the Unicode database of the interpreter the
repository runs on, and the bodies of _mk_char_map/_clean_chars/clean are matched against the
map-then-delete pipeline.  Nothing of the repository is imported or executed."""
import ast
import os
import unicodedata

from ..common import Report, REPO, AnalysisError, src
from ..match import match_expr, match_stmts, strip_doc, unify, parse_expr, canonical, inline_statement_helpers

FILE = 'stdnum/util.py'


def load_util():
    path = os.path.join(REPO, FILE)
    with open(path, encoding='utf-8') as fh:
        tree = canonical(ast.parse(fh.read()))      # list comprehensions consumed by join()/dict() read as generator expressions
    funcs = {n.name: n for n in tree.body if isinstance(n, ast.FunctionDef)}
    assigns = {}
    for n in tree.body:
        if isinstance(n, ast.Assign) and len(n.targets) == 1 and isinstance(n.targets[0], ast.Name):
            assigns[n.targets[0].id] = n
    return tree, funcs, assigns


def derive_table(rep=None):
    """Returns (list of (name, char, target, line)), map_name).  Raises AnalysisError when the anchors vanished."""
    tree, funcs, assigns = load_util()
    cand = None
    for name, n in assigns.items():
        b = match_expr('dict(V_mk(E_table))', n.value) or match_expr('str.maketrans(dict(V_mk(E_table)))', n.value)
        if b and isinstance(b['E_table'], ast.Name) and b['E_table'].id in assigns and isinstance(assigns[b['E_table'].id].value, ast.Dict):
            # the literal table bound to a module-level name first; nobody else may write that name
            tname = b['E_table'].id
            stores = [x for x in ast.walk(tree) if isinstance(x, ast.Name) and x.id == tname and isinstance(x.ctx, ast.Store)]
            muts = [x for x in ast.walk(tree) if isinstance(x, ast.Subscript) and isinstance(x.ctx, (ast.Store, ast.Del)) and src(x.value) == tname] + \
                [x for x in ast.walk(tree) if isinstance(x, ast.Call) and isinstance(x.func, ast.Attribute) and src(x.func.value) == tname
                 and x.func.attr in ('update', 'pop', 'clear', 'setdefault', 'popitem')]
            if len(stores) == 1 and not muts:
                b = dict(b)
                b['E_table'] = assigns[tname].value
        if b and isinstance(b['E_table'], ast.Dict):
            cand = (name, n, b)
    if cand is None:
        raise AnalysisError('%s: no module-level `X = dict(<generator>({...literal table...}))` found (look-alike table anchor)' % FILE)
    name, node, b = cand
    mk = b['V_mk'].id
    if mk not in funcs:
        raise AnalysisError('%s: table builder %s is not a module-level function' % (FILE, mk))
    # shape of the builder: every comma separated name is looked up and paired with the value
    body = strip_doc(funcs[mk].body)
    pat = '''
for V_k, V_v in V_m.items():
    for V_c in V_k.split(','):
        yield (unicodedata.lookup(V_c), V_v)
'''
    bb = match_stmts(pat, body)
    if bb is None or bb['V_m'].id != funcs[mk].args.args[0].arg:
        raise AnalysisError('%s:%d %s() is not the name-list -> (char, value) generator the table rule understands'
                            % (FILE, funcs[mk].lineno, mk))
    entries = []
    table = b['E_table']
    for k, v in zip(table.keys, table.values):
        if not (isinstance(k, ast.Constant) and isinstance(k.value, str) and isinstance(v, ast.Constant) and isinstance(v.value, str)):
            raise AnalysisError('%s:%d look-alike table entry is not a literal' % (FILE, getattr(k, 'lineno', node.lineno)))
        for nm in k.value.split(','):
            entries.append((nm, v.value, k.lineno))
    return entries, name, funcs, assigns


def charmap():
    """The effective mapping (later entries win, as in dict(generator)); used by STRABS."""
    entries, name, funcs, assigns = derive_table()
    out = {}
    for nm, tgt, line in entries:
        try:
            out[unicodedata.lookup(nm)] = tgt
        except KeyError:
            raise AnalysisError('%s:%d unknown Unicode character name %r' % (FILE, line, nm))
    return out


def check_pipeline(rep, funcs, mapname, translate_table=None):
    if translate_table is None:
        translate_table = is_translate_table(mapname)
    return _check_pipeline(rep, funcs, mapname, translate_table)


def is_translate_table(mapname):
    tree, funcs, assigns = load_util()
    n = assigns.get(mapname)
    return n is not None and match_expr('str.maketrans(dict(V_mk(E_table)))', n.value) is not None


def _check_pipeline(rep, funcs, mapname, translate_table):
    """_clean_chars is a 1:1 order preserving map through the table; clean() is
    total-conversion -> map -> delete, with deletion last."""
    ok = True
    cc = None
    for fname, fn in funcs.items():
        body = strip_doc(fn.body)
        if len(body) == 1 and isinstance(body[0], ast.Return) and body[0].value is not None:
            pats = ["''.join(%s.get(V_x, V_x) for V_x in V_n)" % mapname, "''.join([%s.get(V_x, V_x) for V_x in V_n])" % mapname]
            if translate_table:
                # str.translate with str.maketrans(<the same dict>) maps every character through the table and keeps the others
                pats.append('V_n.translate(%s)' % mapname)
            for p in pats:
                b = match_expr(p, body[0].value)
                if b and fn.args.args and b['V_n'].id == fn.args.args[0].arg:
                    cc = fname
    if cc is None:
        # is the table used at all?
        users = [f for f, fn in funcs.items() if any(isinstance(x, ast.Name) and x.id == mapname for x in ast.walk(fn))]
        if not users:
            rep.fail('TAB.map-1to1', FILE, '_clean_chars', 'no function applies %s' % mapname, 0,
                     'the look-alike table is never applied')
            return None
        fn = funcs[users[0]]
        rep.fail('TAB.map-1to1', FILE, users[0], src(strip_doc(fn.body)[-1]), fn.lineno,
                 "the function applying the table is not ''.join(table.get(x, x) for x in number): characters may be dropped, "
                 'duplicated, reordered or altered beyond the table')
        return None
    rep.ok('TAB.map-1to1', '%s:%d %s' % (FILE, funcs[cc].lineno, cc), "''.join(%s.get(x, x) for x in number)" % mapname)
    if 'clean' not in funcs:
        raise AnalysisError('%s: clean() vanished' % FILE)
    fn = funcs['clean']
    num = fn.args.args[0].arg
    dele = fn.args.args[1].arg if len(fn.args.args) > 1 else None
    tree_ = load_util()[0]
    # called without a second argument nothing is deleted: the callers that write clean(number) rely on it
    if dele and fn.args.defaults:
        d0 = fn.args.defaults[-1]
        rep.check(isinstance(d0, ast.Constant) and d0.value == '', 'TAB.default-deletes-nothing', FILE, 'clean', '%s=%s' % (dele, src(d0)), fn.lineno,
                  'clean() called without %s deletes %s: the default must be the empty string, callers of clean(number) expect only the look-alike mapping'
                  % (dele, src(d0)), what='clean(number, %s=\'\')' % dele)
    stage = 'raw'
    # private helpers of one statement and try/else are read as the statements they stand for
    body = inline_statement_helpers(tree_, fn, exclude=(cc,))
    # `return ''.join(x for x in <map>(number) if ...)`: the mapping written inside the final expression is its own stage
    if body and isinstance(body[-1], ast.Return) and body[-1].value is not None:
        inner = [c for c in ast.walk(body[-1].value) if isinstance(c, ast.Call) and isinstance(c.func, ast.Name) and c.func.id == cc
                 and len(c.args) == 1 and src(c.args[0]) == num]
        if len(inner) == 1:
            import copy
            last = copy.deepcopy(body[-1])
            for par in ast.walk(last):
                for f_, v_ in ast.iter_fields(par):
                    if isinstance(v_, ast.Call) and ast.dump(v_) == ast.dump(inner[0]):
                        setattr(par, f_, ast.Name(id=num, ctx=ast.Load()))
                    elif isinstance(v_, list):
                        for i_, x_ in enumerate(v_):
                            if isinstance(x_, ast.Call) and ast.dump(x_) == ast.dump(inner[0]):
                                v_[i_] = ast.Name(id=num, ctx=ast.Load())
            pre_ = ast.copy_location(ast.Assign(targets=[ast.Name(id=num, ctx=ast.Store())], value=inner[0]), body[-1])
            body = body[:-1] + [ast.fix_missing_locations(pre_), ast.fix_missing_locations(last)]
    returned = False
    for st in body:
        where = '%s:%d clean' % (FILE, st.lineno)
        if isinstance(st, ast.Try):
            b = match_stmts("%s = ''.join(V_x for V_x in %s)" % (num, num), st.body)
            if b is None:
                b = match_stmts("%s = ''.join(%s)" % (num, num), st.body)
            catches = False
            for h in st.handlers:
                t = None if h.type is None else src(h.type)
                if t in (None, 'Exception', 'BaseException'):
                    hb = h.body
                    if len(hb) == 1 and isinstance(hb[0], ast.Raise) and hb[0].exc is not None and \
                            src(hb[0].exc).split('(')[0] in ('InvalidFormat', 'ValidationError', 'InvalidLength', 'InvalidComponent'):
                        catches = True
            if b is not None and not st.orelse and not st.finalbody:
                rep.check(catches and stage == 'raw', 'TAB.total-conversion', FILE, 'clean', src(st), st.lineno,
                          'conversion of the argument to str is not inside `except Exception: raise InvalidFormat()`')
                stage = 'conv'
                continue
            rep.fail('TAB.pipeline', FILE, 'clean', src(st), st.lineno, 'unrecognised try block in clean()')
            ok = False
            continue
        b = match_stmts('%s = %s(%s)' % (num, cc, num), [st])
        if b is not None:
            rep.check(stage == 'conv', 'TAB.map-before-delete', FILE, 'clean', src(st), st.lineno,
                      'look-alike mapping applied at stage %r (must follow the total conversion and precede deletion)' % stage)
            stage = 'mapped'
            continue
        if isinstance(st, ast.Return) and st.value is not None and dele:
            b = None
            for p in ("''.join(V_x for V_x in %s if V_x not in %s)", "''.join([V_x for V_x in %s if V_x not in %s])",
                      "''.join(V_x for V_x in %s if not V_x in %s)"):
                b = b or match_expr(p % (num, dele), st.value)
            if b is not None:
                rep.check(stage == 'mapped', 'TAB.delete-last', FILE, 'clean', src(st), st.lineno,
                          'deletion runs at stage %r: it must be the last transformation, after the look-alike mapping' % stage)
                returned = True
                stage = 'deleted'
                continue
            rep.fail('TAB.delete-last', FILE, 'clean', src(st), st.lineno,
                     "clean() does not return ''.join(x for x in number if x not in deletechars): the result may contain "
                     'deleted characters or be transformed further')
            returned = True
            continue
        # anything else touching the number is an extra transformation
        names = {x.id for x in ast.walk(st) if isinstance(x, ast.Name)}
        if num in names:
            rep.fail('TAB.pipeline', FILE, 'clean', src(st), st.lineno,
                     'extra statement on the number inside clean(): only total-conversion, look-alike mapping and deletion may touch it')
            ok = False
        else:
            rep.undecide('TAB.pipeline', where, 'statement does not mention the number: ' + src(st))
    if not returned:
        rep.fail('TAB.delete-last', FILE, 'clean', 'return', fn.lineno, 'clean() has no deleting return statement')
    return cc


def check_input_flow(rep):
    """Every module with a compact() looks at the caller's string only through util.clean():
    otherwise a look-alike spelling is not equivalent to its ASCII spelling."""
    from ..strabs.model import Program
    from ..rawflow import raw_uses, flatten
    from ..common import rel
    prog = Program()
    for mn in prog.number_modules():
        m = prog.mods[mn]
        rc = prog.resolve_name(m, 'compact')
        rv = prog.resolve_name(m, 'validate')
        if not rc or rc[0] != 'func' or not rv or rv[0] != 'func':
            continue
        vfn = prog.mods[rv[1]].funcs[rv[2]]
        file = rel(prog.mods[rv[1]].path)
        todo = [(u, chain) for u, chain in flatten(raw_uses(prog, rv[1], vfn))]
        seen = set()
        while todo:
            u, chain = todo.pop()
            where = ' -> '.join('%s.%s' % (a.replace('stdnum.', ''), b) for a, b in chain)
            if u.kind == 'compact':
                if u.target in seen:
                    continue
                seen.add(u.target)
                cfn = prog.mods[u.target[0]].funcs.get(u.target[1])
                inner = flatten(raw_uses(prog, u.target[0], cfn)) if cfn is not None else []
                if not inner:
                    rep.fail('TAB.input-through-clean', rel(prog.mods[u.target[0]].path), 'compact', 'compact()', getattr(cfn, 'lineno', 0),
                             'compact() does not read its argument through util.clean()')
                todo.extend((x, chain + [u.target] + c) for x, c in inner)
            elif u.kind == 'clean':
                rep.ok('TAB.input-through-clean', '%s:%d %s' % (file, u.stmt.lineno, mn), (where + ' -> ' if where else '') + 'clean()')
            elif u.kind in ('unused',):
                continue
            elif u.kind == 'dynamic':
                rep.undecide('TAB.input-through-clean', '%s:%d' % (file, u.stmt.lineno), u.detail)
            else:
                f = chain[-1] if chain else (rv[1], 'validate')
                rep.fail('TAB.input-through-clean', rel(prog.mods[f[0]].path), f[1], src(u.stmt).split(' : ')[0][:140], u.stmt.lineno,
                         'the caller\'s string is %s before util.clean() has replaced look-alike characters%s: a number typed with look-alike '
                         'dashes, spaces or digits is treated differently from its ASCII spelling'
                         % (u.detail or u.kind, (' (reached through ' + where + ')') if where else ''))


def check_module_maps(rep):
    """TAB.module-map: a module that translates further characters in its own compact() (the Arabic digits of eg.tn) keeps them in a
    module-level dict of single characters; wherever such a table produces an ASCII digit from a character that has a Unicode decimal
    value, that value must be the digit."""
    from ..strabs.model import Program
    from ..common import rel
    prog = Program()
    n = 0
    for mn in sorted(prog.mods):
        m = prog.mods[mn]
        if mn == 'stdnum.util':
            continue
        for name, table in sorted(m.consts.items()):
            if not (isinstance(table, dict) and table and all(isinstance(k, str) and len(k) == 1 and isinstance(v, str) for k, v in table.items())):
                continue
            node = m.assign_nodes.get(name)
            line = getattr(node, 'lineno', 0)
            for k, v in sorted(table.items()):
                dv = unicodedata.decimal(k, None)
                if ord(k) < 128 or not (len(v) == 1 and v in '0123456789'):
                    continue
                n += 1
                rep.check(dv is not None and dv == int(v), 'TAB.module-map', rel(m.path), name, 'U+%04X %s -> %r' % (ord(k), unicodedata.name(k, '?'), v), line,
                          '%s[U+%04X %s] is %r, the Unicode decimal value of that character is %r: a number typed with these digits is read as another number'
                          % (name, ord(k), unicodedata.name(k, '?'), v, dv), what='%s.%s U+%04X -> %s' % (mn, name, ord(k), v))
    return n


def check(tier):
    rep = Report('C14', tier, level='proof',
                 rule_text='every entry of the look-alike table literal in stdnum/util.py is checked against the Unicode '
                           'database (single characters, digit value, Zs for space, ASCII alphanumerics untouched, no letter '
                           'or digit produced from a non-digit, targets are fixed points, no conflicting duplicate); the '
                           'abstract transformer x -> table.get(x, x) is then tabulated over all 1,114,112 code points; '
                           'clean() must be conversion-in-catch-all, 1:1 map, delete-last',
                 trusted=['CPython ast/unicodedata %s' % unicodedata.unidata_version,
                          'dict(generator): later duplicates win', "semantics of ''.join over a generator"],
                 assumptions=['no monkey-patching of stdnum.util._char_map at run time (C13 checks the writers of module state)'])
    entries, mapname, funcs, assigns = derive_table()
    rep.unit('table entries', len(entries))
    if check_module_maps(rep) < 10:
        rep.error('TAB.module-map found fewer than 10 digit entries in module-level character tables (eg.tn confirmed on the reference tree)')
    m = {}
    first_line = {}
    for nm, tgt, line in entries:
        f = lambda cond, rule, detail: rep.check(cond, rule, FILE, mapname, '%s -> %r' % (nm, tgt), line, detail, what='%s -> %r' % (nm, tgt))
        try:
            ch = unicodedata.lookup(nm)
        except KeyError:
            rep.fail('TAB.name', FILE, mapname, '%s -> %r' % (nm, tgt), line, 'not a Unicode character name: import of stdnum.util fails')
            continue
        f(len(ch) == 1 and len(tgt) == 1, 'TAB.single', 'source or target is not a single character (count of characters changes)')
        if len(tgt) != 1:
            continue
        f(ord(tgt) < 128, 'TAB.ascii-target', 'target %r is not ASCII' % tgt)
        if tgt.isalnum():
            dv = unicodedata.decimal(ch, None)
            f(tgt in '0123456789' and dv is not None and dv == int(tgt) if tgt in '0123456789' else False, 'TAB.digit-value',
              'produces %r from U+%04X %s whose Unicode decimal value is %r' % (tgt, ord(ch), nm, dv))
        elif tgt == ' ':
            f(unicodedata.category(ch) == 'Zs', 'TAB.space-from-Zs', 'U+%04X (category %s) becomes a space' % (ord(ch), unicodedata.category(ch)))
        else:
            f(unicodedata.decimal(ch, None) is None, 'TAB.digit-kept', 'a decimal digit U+%04X is replaced by punctuation %r' % (ord(ch), tgt))
        f(not (ord(ch) < 128 and ch.isalnum()), 'TAB.ascii-alnum-untouched', 'ASCII letter/digit %r is altered' % ch)
        if ch in m:
            f(m[ch] == tgt, 'TAB.no-conflict', 'listed under two targets (%r at line %d, %r here)' % (m[ch], first_line[ch], tgt))
        else:
            first_line[ch] = line
        m[ch] = tgt
    # fixed points (idempotence) on the effective map
    for ch, tgt in m.items():
        rep.check(m.get(tgt, tgt) == tgt, 'TAB.idempotent', FILE, mapname, 'U+%04X -> %r' % (ord(ch), tgt), first_line.get(ch, 0),
                  'target %r is itself mapped to %r: cleaning twice differs from cleaning once' % (tgt, m.get(tgt)),
                  what='U+%04X target %r is a fixed point' % (ord(ch), tgt))
    rep.expect_at_least('TAB.single', 150, 'look-alike table entries')
    check_pipeline(rep, funcs, mapname)
    # exhaustive tabulation of the derived transformer over every code point
    bad = 0
    changed = 0
    for cp in range(0x110000):
        ch = chr(cp)
        t = m.get(ch, ch)
        if t == ch:
            continue
        changed += 1
        if len(t) != 1 or (t.isalnum() and not (t in '0123456789' and unicodedata.decimal(ch, None) == int(t))) \
                or (t == ' ' and unicodedata.category(ch) != 'Zs') or (cp < 128 and ch.isalnum()) or m.get(t, t) != t:
            bad += 1
    rep.check(bad == 0, 'TAB.all-codepoints', FILE, mapname, 'x -> table.get(x, x) over U+0000..U+10FFFF', 0,
              '%d code points violate the value-preservation rules' % bad, what='1114112 code points, %d changed' % changed)
    check_input_flow(rep)
    rep.extra['code_points_tabulated'] = 0x110000
    rep.extra['code_points_changed'] = changed
    rep.not_decided = ['that every module calls clean() before looking at the number (C03)']
    return rep.finish()
