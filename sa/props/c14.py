"""C14 - character clean-up never changes the value of a number (engine TAB).

Decided from the source of stdnum/util.py: the look-alike table literal is read with
ast.literal_eval, every entry is checked against the Unicode database of the interpreter the
repository runs on, and the bodies of _mk_char_map/_clean_chars/clean are matched against the
map-then-delete pipeline.  Nothing of the repository is imported or executed."""
import ast
import os
import unicodedata

from ..common import Report, REPO, AnalysisError, src
from ..match import match_expr, match_stmts, strip_doc, unify, parse_expr, canonical, inline_statement_helpers

FILE = 'stdnum/util.py'


def load_util():
    path = os.path.join(REPO, FILE)
    with open(path, encoding='utf-8') as fh:
        tree = canonical(ast.parse(fh.read()))      # list comprehensions consumed by join()/dict() read as generator expressions
    funcs = {n.name: n for n in tree.body if isinstance(n, ast.FunctionDef)}
    assigns = {}
    for n in tree.body:
        if isinstance(n, ast.Assign) and len(n.targets) == 1 and isinstance(n.targets[0], ast.Name):
            assigns[n.targets[0].id] = n
    return tree, funcs, assigns


def derive_table(rep=None):
    """Returns (list of (name, target, line)), map_name, funcs, assigns).  Raises AnalysisError when the anchors vanished.
    The table is the module-level name bound to <builder>({...literal...}), dict(<builder>(...)) or str.maketrans(...) of one of them;
    the builder is either the known generator (matched) or a one-expression function that is evaluated on the literal and must
    give exactly "every comma separated name -> the value"."""
    tree, funcs, assigns = load_util()
    cand = None
    for name, n in assigns.items():
        b = None
        for pat in ('dict(V_mk(E_table))', 'str.maketrans(dict(V_mk(E_table)))', 'V_mk(E_table)', 'str.maketrans(V_mk(E_table))'):
            b = b or match_expr(pat, n.value)
        if b and b['V_mk'].id not in funcs:
            b = None
        if b and isinstance(b['E_table'], ast.Name) and b['E_table'].id in assigns and isinstance(assigns[b['E_table'].id].value, ast.Dict):
            # the literal table bound to a module-level name first; nobody else may write that name
            tname = b['E_table'].id
            stores = [x for x in ast.walk(tree) if isinstance(x, ast.Name) and x.id == tname and isinstance(x.ctx, ast.Store)]
            muts = [x for x in ast.walk(tree) if isinstance(x, ast.Subscript) and isinstance(x.ctx, (ast.Store, ast.Del)) and src(x.value) == tname] + \
                [x for x in ast.walk(tree) if isinstance(x, ast.Call) and isinstance(x.func, ast.Attribute) and src(x.func.value) == tname
                 and x.func.attr in ('update', 'pop', 'clear', 'setdefault', 'popitem')]
            if len(stores) == 1 and not muts:
                b = dict(b)
                b['E_table'] = assigns[tname].value
        if b and isinstance(b['E_table'], ast.Dict):
            cand = (name, n, b)
    if cand is None:
        raise AnalysisError('%s: no module-level `X = [dict(]<builder>({...literal table...})[)]` found (look-alike table anchor)' % FILE)
    name, node, b = cand
    mk = b['V_mk'].id
    entries = []
    table = b['E_table']
    for k, v in zip(table.keys, table.values):
        if not (isinstance(k, ast.Constant) and isinstance(k.value, str) and isinstance(v, ast.Constant) and isinstance(v.value, str)):
            raise AnalysisError('%s:%d look-alike table entry is not a literal' % (FILE, getattr(k, 'lineno', node.lineno)))
        for nm in k.value.split(','):
            entries.append((nm, v.value, k.lineno))
    # shape of the builder: every comma separated name is looked up and paired with the value
    body = strip_doc(funcs[mk].body)
    pat = '''
for V_k, V_v in V_m.items():
    for V_c in V_k.split(','):
        yield (unicodedata.lookup(V_c), V_v)
'''
    bb = match_stmts(pat, body)
    if bb is not None and bb['V_m'].id == funcs[mk].args.args[0].arg:
        return entries, name, funcs, assigns
    if len(body) == 1 and isinstance(body[0], ast.Return) and body[0].value is not None and len(funcs[mk].args.args) == 1:
        from ..minieval import ev, Undecidable
        want = {}
        ok_names = True
        for nm, tgt, _line in entries:
            try:
                want[unicodedata.lookup(nm)] = tgt
            except KeyError:
                ok_names = False
        if ok_names:
            try:
                got = ev(body[0].value, {funcs[mk].args.args[0].arg: ast.literal_eval(table)})
                got = dict(got)
            except (Undecidable, TypeError, ValueError) as e:
                raise AnalysisError('%s:%d %s() cannot be evaluated on the table literal: %s' % (FILE, funcs[mk].lineno, mk, e))
            if got != want:
                raise AnalysisError('%s:%d %s() does not turn the table literal into {character of every listed name: value} (%d entries differ)'
                                    % (FILE, funcs[mk].lineno, mk, len(set(got.items()) ^ set(want.items()))))
        return entries, name, funcs, assigns
    raise AnalysisError('%s:%d %s() is not the name-list -> (char, value) builder the table rule understands' % (FILE, funcs[mk].lineno, mk))


def charmap():
    """The effective mapping (later entries win, as in dict(generator)); used by STRABS."""
    entries, name, funcs, assigns = derive_table()
    out = {}
    for nm, tgt, line in entries:
        try:
            out[unicodedata.lookup(nm)] = tgt
        except KeyError:
            raise AnalysisError('%s:%d unknown Unicode character name %r' % (FILE, line, nm))
    return out


def check_pipeline(rep, funcs, mapname, translate_table=None):
    if translate_table is None:
        translate_table = is_translate_table(mapname)
    return _check_pipeline(rep, funcs, mapname, translate_table)


def is_translate_table(mapname):
    tree, funcs, assigns = load_util()
    n = assigns.get(mapname)
    return n is not None and (match_expr('str.maketrans(dict(V_mk(E_table)))', n.value) is not None or match_expr('str.maketrans(V_mk(E_table))', n.value) is not None)


class _Stream:
    """The characters of clean()'s argument after a sequence of operations."""
    def __init__(self, ops=(), guarded=None, line=0):
        self.ops, self.guarded, self.line = tuple(ops), guarded, line

    def then(self, op, line):
        return _Stream(self.ops + (op,), self.guarded, line)


_RAW, _TABLE, _TGET, _DELE, _UNKNOWN = 'raw', 'table', 'table.get', 'deletechars', 'unknown'


def _check_pipeline(rep, funcs, mapname, translate_table):
    """clean() is interpreted over a small domain of values (the raw argument, a stream of characters with the operations applied so
    far, the table, its bound .get, the deletechars parameter): helpers are followed, generator expressions and joins compose.
    The result has to be: conversion (inside the catch-all) -> 1:1 map through the table -> deletion of deletechars, nothing else."""
    if 'clean' not in funcs:
        raise AnalysisError('%s: clean() vanished' % FILE)
    fn = funcs['clean']
    num = fn.args.args[0].arg
    dele = fn.args.args[1].arg if len(fn.args.args) > 1 else None
    if dele and fn.args.defaults:
        d0 = fn.args.defaults[-1]
        rep.check(isinstance(d0, ast.Constant) and d0.value == '', 'TAB.default-deletes-nothing', FILE, 'clean', '%s=%s' % (dele, src(d0)), fn.lineno,
                  'clean() called without %s deletes %s: the default must be the empty string, callers of clean(number) expect only the look-alike mapping'
                  % (dele, src(d0)), what='clean(number, %s=\'\')' % dele)
    # module-level names bound once to str.maketrans(<the table>): a translation table with exactly the table's entries
    tree_, _f, assigns_ = load_util()
    trans_names = set()
    for nm_, st_ in assigns_.items():
        if match_expr('str.maketrans(%s)' % mapname, st_.value) is not None:
            stores_ = [x for x in ast.walk(tree_) if isinstance(x, ast.Name) and x.id == nm_ and isinstance(x.ctx, ast.Store)]
            if len(stores_) == 1:
                trans_names.add(nm_)
    users = [f for f, f_ in funcs.items() if any(isinstance(x, ast.Name) and (x.id == mapname or x.id in trans_names) for x in ast.walk(f_))]
    problems = []
    mapper = []

    def catches_all(tr):
        for h in tr.handlers:
            t = None if h.type is None else src(h.type)
            if t in (None, 'Exception', 'BaseException') and len(h.body) == 1 and isinstance(h.body[0], ast.Raise) and h.body[0].exc is not None \
                    and src(h.body[0].exc).split('(')[0] in ('InvalidFormat', 'ValidationError', 'InvalidLength', 'InvalidComponent'):
                return True
        return False

    def ev_(node, env, guarded, owner, depth):
        if isinstance(node, ast.Name):
            if node.id in env:
                return env[node.id]
            if node.id == mapname:
                return _TABLE
            return _UNKNOWN
        if isinstance(node, ast.Attribute) and node.attr == 'get' and ev_(node.value, env, guarded, owner, depth) == _TABLE:
            return _TGET
        if isinstance(node, (ast.GeneratorExp, ast.ListComp)):
            if len(node.generators) != 1 or not isinstance(node.generators[0].target, ast.Name):
                return _UNKNOWN
            g = node.generators[0]
            base = ev_(g.iter, env, guarded, owner, depth)
            x = g.target.id
            if base == _RAW:
                base = _Stream((), None, node.lineno)
                raw_iter = True
            else:
                raw_iter = False
            if not isinstance(base, _Stream):
                return _UNKNOWN
            out = base
            elt = node.elt
            env2 = dict(env)
            env2[x] = 'char'
            if isinstance(elt, ast.Name) and elt.id == x:
                if raw_iter:
                    out = _Stream(('conv',), guarded, node.lineno)
            elif isinstance(elt, ast.Call) and len(elt.args) == 2 and not elt.keywords and all(isinstance(a, ast.Name) and a.id == x for a in elt.args) \
                    and ev_(elt.func, env2, guarded, owner, depth) == _TGET:
                if raw_iter:
                    out = _Stream(('conv',), guarded, node.lineno)
                out = out.then('map', node.lineno)
                mapper.append(owner)
            elif isinstance(elt, ast.IfExp) and match_expr('%s[%s] if %s in %s else %s' % (mapname, x, x, mapname, x), elt) is not None:
                if raw_iter:
                    out = _Stream(('conv',), guarded, node.lineno)
                out = out.then('map', node.lineno)
                mapper.append(owner)
            else:
                out = out.then('other:' + src(elt)[:40], node.lineno)
            for c in g.ifs:
                t = c
                neg = False
                if isinstance(t, ast.UnaryOp) and isinstance(t.op, ast.Not):
                    t, neg = t.operand, True
                okf = isinstance(t, ast.Compare) and len(t.ops) == 1 and isinstance(t.left, ast.Name) and t.left.id == x \
                    and ((isinstance(t.ops[0], ast.NotIn) and not neg) or (isinstance(t.ops[0], ast.In) and neg)) \
                    and ev_(t.comparators[0], env, guarded, owner, depth) == _DELE
                out = out.then('delete' if okf else 'filter:' + src(c)[:40], node.lineno)
            return out
        if isinstance(node, ast.Call):
            f = node.func
            if isinstance(f, ast.Attribute) and f.attr == 'join' and isinstance(f.value, ast.Constant) and f.value.value == '' and len(node.args) == 1:
                v = ev_(node.args[0], env, guarded, owner, depth)
                if v == _RAW:
                    return _Stream(('conv',), guarded, node.lineno)
                return v if isinstance(v, _Stream) else _UNKNOWN
            if isinstance(f, ast.Attribute) and f.attr == 'translate' and len(node.args) == 1 and isinstance(node.args[0], ast.Name) \
                    and ((translate_table and node.args[0].id == mapname) or node.args[0].id in trans_names):
                v = ev_(f.value, env, guarded, owner, depth)
                if isinstance(v, _Stream):
                    mapper.append(owner)
                    return v.then('map', node.lineno)
                return _UNKNOWN
            if isinstance(f, ast.Name) and f.id in funcs and depth < 4 and not node.keywords:
                callee = funcs[f.id]
                params = [a.arg for a in callee.args.args]
                if len(params) != len(node.args) or callee.args.vararg or callee.args.kwarg:
                    return _UNKNOWN
                args = [ev_(a, env, guarded, owner, depth) for a in node.args]
                return run(callee, dict(zip(params, args)), guarded, depth + 1)
            if isinstance(f, ast.Attribute):
                v = ev_(f.value, env, guarded, owner, depth)
                if isinstance(v, _Stream) or v == _RAW:
                    base = v if isinstance(v, _Stream) else _Stream((), None, node.lineno)
                    return base.then('other:.%s()' % f.attr, node.lineno)
            if isinstance(f, ast.Name) and f.id in ('str', 'list', 'tuple', 'iter'):
                v = ev_(node.args[0], env, guarded, owner, depth) if len(node.args) == 1 else _UNKNOWN
                if f.id == 'str' and v == _RAW:
                    return _Stream(('other:str()',), guarded, node.lineno)
                return v
            return _UNKNOWN
        return _UNKNOWN

    def run(f_, env, guarded, depth):
        result = [None]

        def block(stmts, guarded):
            for st in stmts:
                if isinstance(st, ast.Expr) and isinstance(st.value, ast.Constant):
                    continue
                if isinstance(st, ast.Assign) and len(st.targets) == 1 and isinstance(st.targets[0], ast.Name):
                    env[st.targets[0].id] = ev_(st.value, env, guarded, f_.name, depth)
                    continue
                if isinstance(st, ast.Return):
                    result[0] = ev_(st.value, env, guarded, f_.name, depth) if st.value is not None else _UNKNOWN
                    return True
                if isinstance(st, ast.Try):
                    if st.finalbody:
                        problems.append((st, 'try/finally in the clean-up pipeline'))
                    if block(st.body, guarded or catches_all(st)):
                        return True
                    if st.orelse and block(st.orelse, guarded):
                        return True
                    continue
                if isinstance(st, ast.Raise):
                    return True
                names = {x.id for x in ast.walk(st) if isinstance(x, ast.Name)}
                if names & {k for k, v in env.items() if isinstance(v, _Stream) or v == _RAW}:
                    problems.append((st, 'statement on the number that is neither an assignment nor the return'))
            return False
        block(strip_doc(f_.body), guarded)
        return result[0] if result[0] is not None else _UNKNOWN
    env0 = {num: _RAW}
    if dele:
        env0[dele] = _DELE
    res = run(fn, env0, False, 0)
    for st, why in problems:
        rep.fail('TAB.pipeline', FILE, 'clean', src(st)[:120], st.lineno, 'extra statement on the number inside clean(): %s' % why)
    if not users:
        rep.fail('TAB.map-1to1', FILE, '_clean_chars', 'no function applies %s' % mapname, 0, 'the look-alike table is never applied')
        return None
    if not isinstance(res, _Stream):
        rep.fail('TAB.pipeline', FILE, 'clean', 'return value of clean()', fn.lineno,
                 'clean() does not return the joined characters of its argument after conversion, look-alike mapping and deletion (the value could not be '
                 'followed through the function)')
        return None
    ops = list(res.ops)
    line = res.line or fn.lineno
    others = [o for o in ops if o.startswith(('other:', 'filter:'))]
    rep.check(ops[:1] == ['conv'] and res.guarded, 'TAB.total-conversion', FILE, 'clean', 'first operation: %s' % (ops[:1] or ['-'])[0], fn.lineno,
              'conversion of the argument to str is not inside `except Exception: raise InvalidFormat()`')
    nmap = ops.count('map')
    rep.check(nmap == 1 and not others, 'TAB.map-1to1', FILE, (mapper or ['clean'])[0], ' -> '.join(ops), line,
              "the characters do not pass exactly once through table.get(x, x) (operations: %s): characters may be dropped, duplicated, reordered or altered "
              'beyond the table' % ' -> '.join(ops), what="''.join(%s.get(x, x) for x in number)" % mapname)
    if dele:
        ndel = ops.count('delete')
        rep.check(ndel == 1 and ops[-1:] == ['delete'], 'TAB.delete-last', FILE, 'clean', ' -> '.join(ops), line,
                  'deletion of %s is not the single, last operation (operations: %s): the result may contain deleted characters or be transformed further'
                  % (dele, ' -> '.join(ops)))
        if 'map' in ops and 'delete' in ops:
            rep.check(ops.index('map') < ops.index('delete') and ops.index('map') > 0, 'TAB.map-before-delete', FILE, 'clean', ' -> '.join(ops), line,
                      'the look-alike mapping must follow the total conversion and precede deletion (operations: %s)' % ' -> '.join(ops))
    return (mapper or [None])[0]


def check_input_flow(rep):
    """Every module with a compact() looks at the caller's string only through util.clean():
    otherwise a look-alike spelling is not equivalent to its ASCII spelling."""
    from ..strabs.model import Program
    from ..rawflow import raw_uses, flatten
    from ..common import rel
    prog = Program()
    for mn in prog.number_modules():
        m = prog.mods[mn]
        rc = prog.resolve_name(m, 'compact')
        rv = prog.resolve_name(m, 'validate')
        if not rc or rc[0] != 'func' or not rv or rv[0] != 'func':
            continue
        vfn = prog.mods[rv[1]].funcs[rv[2]]
        file = rel(prog.mods[rv[1]].path)
        todo = [(u, chain) for u, chain in flatten(raw_uses(prog, rv[1], vfn))]
        seen = set()
        while todo:
            u, chain = todo.pop()
            where = ' -> '.join('%s.%s' % (a.replace('stdnum.', ''), b) for a, b in chain)
            if u.kind == 'compact':
                if u.target in seen:
                    continue
                seen.add(u.target)
                cfn = prog.mods[u.target[0]].funcs.get(u.target[1])
                inner = flatten(raw_uses(prog, u.target[0], cfn)) if cfn is not None else []
                if not inner:
                    rep.fail('TAB.input-through-clean', rel(prog.mods[u.target[0]].path), 'compact', 'compact()', getattr(cfn, 'lineno', 0),
                             'compact() does not read its argument through util.clean()')
                todo.extend((x, chain + [u.target] + c) for x, c in inner)
            elif u.kind == 'clean':
                rep.ok('TAB.input-through-clean', '%s:%d %s' % (file, u.stmt.lineno, mn), (where + ' -> ' if where else '') + 'clean()')
            elif u.kind in ('unused',):
                continue
            elif u.kind == 'dynamic':
                rep.undecide('TAB.input-through-clean', '%s:%d' % (file, u.stmt.lineno), u.detail)
            else:
                f = chain[-1] if chain else (rv[1], 'validate')
                rep.fail('TAB.input-through-clean', rel(prog.mods[f[0]].path), f[1], src(u.stmt).split(' : ')[0][:140], u.stmt.lineno,
                         'the caller\'s string is %s before util.clean() has replaced look-alike characters%s: a number typed with look-alike '
                         'dashes, spaces or digits is treated differently from its ASCII spelling'
                         % (u.detail or u.kind, (' (reached through ' + where + ')') if where else ''))


def check_module_maps(rep):
    """TAB.module-map: a module that translates further characters in its own compact() (the Arabic digits of eg.tn) keeps them in a
    module-level dict of single characters; wherever such a table produces an ASCII digit from a character that has a Unicode decimal
    value, that value must be the digit."""
    from ..strabs.model import Program
    from ..common import rel
    prog = Program()
    n = 0
    for mn in sorted(prog.mods):
        m = prog.mods[mn]
        if mn == 'stdnum.util':
            continue
        for name, table in sorted(m.consts.items()):
            if not (isinstance(table, dict) and table and all(isinstance(k, str) and len(k) == 1 and isinstance(v, str) for k, v in table.items())):
                continue
            node = m.assign_nodes.get(name)
            n += _module_map_entries(rep, rel(m.path), mn, name, table, getattr(node, 'lineno', 0))
    return n


def _module_map_entries(rep, relpath, mn, name, table, line):
    n = 0
    for k, v in sorted(table.items()):
        dv = unicodedata.decimal(k, None)
        if ord(k) < 128 or not (len(v) == 1 and v in '0123456789'):
            continue
        n += 1
        rep.check(dv is not None and dv == int(v), 'TAB.module-map', relpath, name, 'U+%04X %s -> %r' % (ord(k), unicodedata.name(k, '?'), v), line,
                  '%s[U+%04X %s] is %r, the Unicode decimal value of that character is %r: a number typed with these digits is read as another number'
                  % (name, ord(k), unicodedata.name(k, '?'), v, dv), what='%s.%s U+%04X -> %s' % (mn, name, ord(k), v))
    return n


def check_table_owner(rep, mapname):
    """TAB.single-writer: the look-alike table belongs to stdnum/util.py.  Another module that imports it can change it for every
    module of the process (at import time or later): what clean() does then depends on which modules have been imported."""
    from ..strabs.model import Program
    from ..common import rel
    prog = Program()
    n = 0
    for mn in sorted(prog.mods):
        if mn == 'stdnum.util':
            continue
        m = prog.mods[mn]
        for x in ast.walk(m.tree):
            hit = None
            if isinstance(x, ast.ImportFrom) and x.module in ('stdnum.util', 'util') and any(a.name == mapname for a in x.names):
                hit = x
            elif isinstance(x, ast.Attribute) and x.attr == mapname and src(x.value).endswith('util'):
                hit = x
            if hit is not None:
                n += 1
                rep.fail('TAB.single-writer', rel(m.path), '-', src(hit)[:100], hit.lineno,
                         '%s reaches into stdnum.util.%s: the table clean() applies is shared by every module, a change made here (at import or at call '
                         'time) alters the clean-up of all other formats and makes it depend on the import history' % (mn.replace('stdnum.', ''), mapname))
    if not n:
        rep.ok('TAB.single-writer', 'stdnum/*', 'no module other than stdnum.util refers to %s' % mapname)


def check(tier):
    rep = Report('C14', tier, level='proof',
                 rule_text='every entry of the look-alike table literal in stdnum/util.py is checked against the Unicode '
                           'database (single characters, digit value, Zs for space, ASCII alphanumerics untouched, no letter '
                           'or digit produced from a non-digit, targets are fixed points, no conflicting duplicate); the '
                           'abstract transformer x -> table.get(x, x) is then tabulated over all 1,114,112 code points; '
                           'clean() must be conversion-in-catch-all, 1:1 map, delete-last',
                 trusted=['CPython ast/unicodedata %s' % unicodedata.unidata_version,
                          'dict(generator): later duplicates win', "semantics of ''.join over a generator"],
                 assumptions=['no monkey-patching of stdnum.util._char_map at run time (C13 checks the writers of module state)'])
    entries, mapname, funcs, assigns = derive_table()
    rep.unit('table entries', len(entries))
    check_module_maps(rep)
    # the rule has to recognise its construct even when no module keeps such a table any more
    probe = Report('C14', tier)
    _module_map_entries(probe, 'probe.py', 'stdnum.probe', '_MAP', {'\u0667': '6', '\u0666': '6'}, 1)
    if len(probe.findings) != 1:
        rep.error('TAB.module-map no longer recognises its positive example')
    m = {}
    first_line = {}
    for nm, tgt, line in entries:
        f = lambda cond, rule, detail: rep.check(cond, rule, FILE, mapname, '%s -> %r' % (nm, tgt), line, detail, what='%s -> %r' % (nm, tgt))
        try:
            ch = unicodedata.lookup(nm)
        except KeyError:
            rep.fail('TAB.name', FILE, mapname, '%s -> %r' % (nm, tgt), line, 'not a Unicode character name: import of stdnum.util fails')
            continue
        f(len(ch) == 1 and len(tgt) == 1, 'TAB.single', 'source or target is not a single character (count of characters changes)')
        if len(tgt) != 1:
            continue
        f(ord(tgt) < 128, 'TAB.ascii-target', 'target %r is not ASCII' % tgt)
        if tgt.isalnum():
            dv = unicodedata.decimal(ch, None)
            f(tgt in '0123456789' and dv is not None and dv == int(tgt) if tgt in '0123456789' else False, 'TAB.digit-value',
              'produces %r from U+%04X %s whose Unicode decimal value is %r' % (tgt, ord(ch), nm, dv))
        elif tgt == ' ':
            f(unicodedata.category(ch) == 'Zs', 'TAB.space-from-Zs', 'U+%04X (category %s) becomes a space' % (ord(ch), unicodedata.category(ch)))
        else:
            f(unicodedata.decimal(ch, None) is None, 'TAB.digit-kept', 'a decimal digit U+%04X is replaced by punctuation %r' % (ord(ch), tgt))
        f(not (ord(ch) < 128 and ch.isalnum()), 'TAB.ascii-alnum-untouched', 'ASCII letter/digit %r is altered' % ch)
        if ch in m:
            f(m[ch] == tgt, 'TAB.no-conflict', 'listed under two targets (%r at line %d, %r here)' % (m[ch], first_line[ch], tgt))
        else:
            first_line[ch] = line
        m[ch] = tgt
    # fixed points (idempotence) on the effective map
    for ch, tgt in m.items():
        rep.check(m.get(tgt, tgt) == tgt, 'TAB.idempotent', FILE, mapname, 'U+%04X -> %r' % (ord(ch), tgt), first_line.get(ch, 0),
                  'target %r is itself mapped to %r: cleaning twice differs from cleaning once' % (tgt, m.get(tgt)),
                  what='U+%04X target %r is a fixed point' % (ord(ch), tgt))
    rep.expect_at_least('TAB.single', 150, 'look-alike table entries')
    check_pipeline(rep, funcs, mapname)
    check_table_owner(rep, mapname)
    # exhaustive tabulation of the derived transformer over every code point
    bad = 0
    changed = 0
    for cp in range(0x110000):
        ch = chr(cp)
        t = m.get(ch, ch)
        if t == ch:
            continue
        changed += 1
        if len(t) != 1 or (t.isalnum() and not (t in '0123456789' and unicodedata.decimal(ch, None) == int(t))) \
                or (t == ' ' and unicodedata.category(ch) != 'Zs') or (cp < 128 and ch.isalnum()) or m.get(t, t) != t:
            bad += 1
    rep.check(bad == 0, 'TAB.all-codepoints', FILE, mapname, 'x -> table.get(x, x) over U+0000..U+10FFFF', 0,
              '%d code points violate the value-preservation rules' % bad, what='1114112 code points, %d changed' % changed)
    check_input_flow(rep)
    rep.extra['code_points_tabulated'] = 0x110000
    rep.extra['code_points_changed'] = changed
    rep.not_decided = ['that every module calls clean() before looking at the number (C03)']
    return rep.finish()
