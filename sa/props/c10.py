"""C10 - registry lookup splits numbers losslessly and by the documented prefix rules (engine DT).

NumDB._find touches (length, low, high, part) only through comparisons, so one iteration of its
loop is a finite decision table over the 27 order types
    a = sign(len(part) - length), b = sign(low - part[:length]), c = sign(part[:length] - high).
The loop body is abstractly executed once per cell (tests are decided from the cell, assignments
and calls are classified as actions) and the resulting action sequence is compared with the
specification: match iff a>=0, b<=0, c<=0; a match with a>0 first shrinks the part and resets the
collected properties/children to fresh containers; every match merges props and children.
Base case, initialisation, result expression and the tuple layout shared by _parse/read/_find are
checked as dataflow facts.  sa/dt/LEMMA.md gives the induction that turns this into losslessness
and shortest-prefix-wins for every registry and every query."""
import ast
import itertools
import os

from ..common import Report, REPO, AnalysisError, src
from ..match import match_expr, match_stmts, strip_doc

FILE = 'stdnum/numdb.py'


def load():
    path = os.path.join(REPO, FILE)
    with open(path, encoding='utf-8') as fh:
        tree = ast.parse(fh.read())
    cls = [n for n in tree.body if isinstance(n, ast.ClassDef) and n.name == 'NumDB']
    if not cls:
        raise AnalysisError('%s: class NumDB vanished' % FILE)
    methods = {n.name: n for n in cls[0].body if isinstance(n, ast.FunctionDef)}
    funcs = {n.name: n for n in tree.body if isinstance(n, ast.FunctionDef)}
    return tree, methods, funcs


class Cell:
    def __init__(self, a, b, c, d=None):
        # d = sign(len(number) - length); len(number) >= len(part) always
        self.a, self.b, self.c, self.d = a, b, c, d


class Depends(Exception):
    """The guard is not a function of the order type: it looks at characters the prefix rules do not mention."""


def decide(test, cell, names):
    """Truth value of a guard in an order-type cell."""
    length, low, high, part = names['length'], names['low'], names['high'], names['part']

    def term(n):
        s = src(n)
        if isinstance(n, ast.Name) and s in names.get('aliases', {}):
            return term(names['aliases'][s])
        if isinstance(n, ast.Name) and s in names.get('loop_aliases', {}):
            # a temporary of the iteration: the value its expression had when it was assigned (the part may have been cut since)
            node_, snap = names['loop_aliases'][s]
            return ('SNAP', term(node_), snap)
        if isinstance(n, ast.Call) and src(n.func) == 'len' and len(n.args) == 1 and isinstance(n.args[0], ast.Name) \
                and n.args[0].id in names.get('loop_aliases', {}):
            node_, snap = names['loop_aliases'][n.args[0].id]
            if term(node_) == 'P':
                return ('SNAP', 'LPFX', snap)       # len(part[:length]) = min(len(part), length)
        if s == 'len(%s)' % names.get('number', '\0'):
            return 'LN'
        if s == 'len(%s)' % part:
            return 'LP'
        if s == length:
            return 'LEN'
        if s == low:
            return 'LOW'
        if s == high:
            return 'HIGH'
        if s in ('%s[:%s]' % (part, length), '%s[0:%s]' % (part, length)):
            return 'P'
        if s == part:
            return 'PART'           # the whole remainder, not cut to the length of the range
        if isinstance(n, ast.BinOp) and isinstance(n.op, ast.Add) and src(n.left) == high and isinstance(n.right, ast.Constant) \
                and isinstance(n.right.value, str) and n.right.value:
            return ('HIGH+', n.right.value)
        raise AnalysisError('%s: _find guard uses the term `%s`, which is not one of len(part), length, low, high, part[:length]' % (FILE, s))

    def rel(x, y):
        c_ = cell
        if isinstance(x, tuple) and x[0] == 'SNAP':
            x, c_ = x[1], x[2]
        if isinstance(y, tuple) and y[0] == 'SNAP':
            y, c_ = y[1], y[2]
        if c_ is not cell:
            return decide_rel(x, y, c_)
        return decide_rel(x, y, cell)

    def decide_rel(x, y, cell):
        if isinstance(x, tuple) and x[0] == 'SNAP':
            x = x[1]
        if isinstance(y, tuple) and y[0] == 'SNAP':
            y = y[1]
        # length of the cut prefix against the length of the range: equal iff the part is long enough, else shorter
        if (x, y) == ('LPFX', 'LEN'):
            return 0 if cell.a >= 0 else -1
        if (x, y) == ('LEN', 'LPFX'):
            return 0 if cell.a >= 0 else 1
        table = {('LP', 'LEN'): cell.a, ('LOW', 'P'): cell.b, ('P', 'HIGH'): cell.c, ('LN', 'LEN'): cell.d}
        if (x, y) in table:
            return table[(x, y)]
        if (y, x) in table:
            return -table[(y, x)]
        # comparisons of the uncut remainder: decided by the prefix unless the prefix equals the bound
        if cell.a >= 0:
            if (x, y) == ('LOW', 'PART') or (y, x) == ('LOW', 'PART'):
                r_ = cell.b if cell.b != 0 else (0 if cell.a == 0 else -1)
                return r_ if x == 'LOW' else -r_
            if (x, y) == ('PART', 'HIGH') or (y, x) == ('PART', 'HIGH'):
                r_ = cell.c if cell.c != 0 else (0 if cell.a == 0 else 1)
                return r_ if x == 'PART' else -r_
            for p_, q_ in ((x, y), (y, x)):
                if p_ == 'PART' and isinstance(q_, tuple) and q_[0] == 'HIGH+':
                    if cell.c != 0:
                        r_ = cell.c
                    elif cell.a == 0:
                        r_ = -1
                    else:
                        raise Depends('the remainder is compared as a whole with %s + %r: when its first %s characters equal %s the outcome depends on the '
                                      'characters that follow (anything greater than %r is not matched)' % (high, q_[1], length, high, q_[1]))
                    return r_ if p_ == x else -r_
        elif 'PART' in (x, y):
            return 0 if False else (-1 if x == 'PART' else 1)      # shorter than the range: guarded by the length test, any order
        raise AnalysisError('%s: _find compares %s with %s, which is not an atom of the decision table' % (FILE, x, y))

    if isinstance(test, ast.BoolOp):
        vs = [decide(v, cell, names) for v in test.values]
        return all(vs) if isinstance(test.op, ast.And) else any(vs)
    if isinstance(test, ast.UnaryOp) and isinstance(test.op, ast.Not):
        return not decide(test.operand, cell, names)
    if isinstance(test, ast.Compare):
        left = test.left
        ok = True
        for op, c in zip(test.ops, test.comparators):
            s = rel(term(left), term(c))
            f = {ast.Lt: s < 0, ast.LtE: s <= 0, ast.Gt: s > 0, ast.GtE: s >= 0, ast.Eq: s == 0, ast.NotEq: s != 0}.get(type(op))
            if f is None:
                raise AnalysisError('%s: unsupported comparison operator in _find guard' % FILE)
            ok = ok and f
            left = c
        return ok
    raise AnalysisError('%s: unsupported guard expression `%s` in _find' % (FILE, src(test)))


def classify(st, names):
    part, length, props, children = names['part'], names['length'], names['props'], names['children']
    P, C = names['acc_props'], names['acc_children']
    s = src(st)
    if s in ('%s = %s[:%s]' % (part, part, length), '%s = %s[0:%s]' % (part, part, length)):
        return 'shrink'
    if isinstance(st, ast.Assign) and len(st.targets) == 1 and src(st.targets[0]) == part and isinstance(st.value, ast.Name) \
            and st.value.id in names.get('loop_aliases', {}) and src(names['loop_aliases'][st.value.id][0]) in ('%s[:%s]' % (part, length), '%s[0:%s]' % (part, length)) \
            and names['loop_aliases'][st.value.id][1].a == names['_cell'].a:
        return 'shrink'
    if s in ('%s = {}' % P, '%s = dict()' % P):
        return 'reset-props'
    if s in ('%s = []' % C, '%s = list()' % C):
        return 'reset-children'
    if s in ('%s.update(%s)' % (P, props), '%s.update(**%s)' % (P, props)):
        return 'merge-props'
    if s in ('%s.extend(%s)' % (C, children), '%s += %s' % (C, children)):
        return 'merge-children'
    if s in ('%s = %s' % (P, props), '%s = %s' % (C, children)):
        return 'ALIAS:' + s
    return 'OTHER:' + s


def acc_guard(test, names):
    """Guards on the emptiness of an accumulator (`if next_prefixes:`): not a function of the order type, both outcomes are followed."""
    accs = (names['acc_props'], names['acc_children'])
    t = test.operand if isinstance(test, ast.UnaryOp) and isinstance(test.op, ast.Not) else test
    if isinstance(t, ast.Call) and src(t.func) in ('len', 'bool') and len(t.args) == 1:
        t = t.args[0]
    return isinstance(t, ast.Name) and t.id in accs


def run_paths(body, cell, names):
    """All action lists of the loop body in one order-type cell (guards on accumulator emptiness fork)."""
    out, pending = [], [[]]
    while pending:
        bits = pending.pop()
        c = Cell(cell.a, cell.b, cell.c, cell.d)
        extra = []
        acts = run_body(body, c, names, list(bits), extra)
        if extra:
            if len(bits) > 6:
                raise AnalysisError('%s: too many accumulator guards in _find' % FILE)
            pending.append(bits + [False])
            pending.append(bits + [True])
        else:
            out.append(acts)
    return out


def run_body(body, cell, names, bits=None, extra=None):
    """Abstract execution of the loop body in one order-type cell -> list of actions."""
    acts = []
    bits = [] if bits is None else bits
    extra = [] if extra is None else extra

    def guard(test):
        if acc_guard(test, names):
            if bits:
                return bits.pop(0)
            extra.append(test)
            return False
        return decide(test, cell, names)

    def block(stmts):
        for st in stmts:
            if isinstance(st, ast.If):
                if guard(st.test):
                    if block(st.body):
                        return True
                elif st.orelse:
                    if block(st.orelse):
                        return True
            elif isinstance(st, ast.Continue):
                return True
            elif isinstance(st, ast.Pass):
                continue
            elif isinstance(st, (ast.Break, ast.Return)):
                acts.append('OTHER:' + src(st))
                return True
            else:
                names['_cell'] = cell
                if isinstance(st, ast.Assign) and len(st.targets) == 1 and isinstance(st.targets[0], ast.Name) \
                        and st.targets[0].id not in (names['part'], names['acc_props'], names['acc_children'], names['length'], names['low'], names['high'],
                                                     names['props'], names['children'], names.get('number')):
                    # a temporary holding one of the atoms (len(part), part[:length], ...)
                    v_ = src(st.value)
                    if v_ in ('len(%s)' % names['part'], '%s[:%s]' % (names['part'], names['length']), '%s[0:%s]' % (names['part'], names['length']),
                              'len(%s)' % names.get('number', '\0')):
                        names['loop_aliases'][st.targets[0].id] = (st.value, Cell(cell.a, cell.b, cell.c, cell.d))
                        continue
                k = classify(st, names)
                acts.append(k)
                if k == 'shrink':
                    cell.a = 0      # len(part) == length from here on
        return False
    names['loop_aliases'] = {}
    block(body)
    return acts


def spec_actions(a, b, c):
    if not (a >= 0 and b <= 0 and c <= 0):
        return []
    if a > 0:
        return ['shrink+reset', 'merge']
    return ['merge']


def normal_form(acts):
    """Collapse the concrete action list into the spec vocabulary; returns (form, problem)."""
    if any(x.startswith(('OTHER:', 'ALIAS:')) for x in acts):
        bad = [x for x in acts if x.startswith(('OTHER:', 'ALIAS:'))][0]
        return None, bad
    out = []
    resets = [x for x in acts if x in ('shrink', 'reset-props', 'reset-children')]
    merges = [x for x in acts if x in ('merge-props', 'merge-children')]
    if resets:
        if sorted(resets) != ['reset-children', 'reset-props', 'shrink']:
            return None, 'incomplete reset %r' % (resets,)
        last_reset = max(i for i, x in enumerate(acts) if x in ('reset-props', 'reset-children'))
        first_merge = min([i for i, x in enumerate(acts) if x in ('merge-props', 'merge-children')] or [len(acts)])
        if last_reset > first_merge:
            return None, 'reset after merge'
        out.append('shrink+reset')
    if merges:
        if sorted(merges) != ['merge-children', 'merge-props']:
            return None, 'incomplete merge %r' % (merges,)
        out.append('merge')
    return out, None


def check_find(rep, methods):
    fn = methods.get('_find')
    if fn is None:
        raise AnalysisError('%s: NumDB._find vanished' % FILE)
    params = [a.arg for a in fn.args.args]
    if len(params) != 2:
        raise AnalysisError('%s:%d _find no longer takes (number, prefixes)' % (FILE, fn.lineno))
    number, prefixes = params
    body = strip_doc(fn.body)
    loops = [s for s in body if isinstance(s, ast.For)]
    if len(loops) != 1 or not isinstance(loops[0].target, ast.Tuple) or len(loops[0].target.elts) != 5 or src(loops[0].iter) != prefixes:
        raise AnalysisError('%s:%d _find has no single `for length, low, high, props, children in prefixes` loop' % (FILE, fn.lineno))
    loop = loops[0]
    li = body.index(loop)
    tnames = [e.id for e in loop.target.elts]
    # --- base case
    first = body[0]
    base_ok = isinstance(first, ast.If) and len(first.body) == 1 and isinstance(first.body[0], ast.Return) \
        and first.body[0].value is not None and src(first.body[0].value) in ('[]', 'list()') \
        and src(first.test) in ('not %s' % number, "%s == ''" % number, 'len(%s) == 0' % number, 'not len(%s)' % number)
    rep.check(base_ok, 'DT.base-case', FILE, '_find', src(first), first.lineno,
              'the empty remainder does not return an empty list first: an unmatched remainder would not end the recursion as one property-less part')
    # --- initialisation: part = number, props = {}, children = []
    init = body[1:li] if base_ok else body[:li]
    acc = {}
    for st in init:
        if isinstance(st, ast.Assign) and len(st.targets) == 1 and isinstance(st.targets[0], ast.Name):
            acc[st.targets[0].id] = src(st.value)
    part = [k for k, v in acc.items() if v == number]
    accp = [k for k, v in acc.items() if v in ('{}', 'dict()')]
    accc = [k for k, v in acc.items() if v in ('[]', 'list()')]
    rep.check(len(part) == 1 and len(accp) == 1 and len(accc) == 1, 'DT.init', FILE, '_find', ' ; '.join(src(s) for s in init), fn.lineno,
              'before the loop the candidate part must be the whole number and the collected properties/children fresh empty containers')
    if not (len(part) == 1 and len(accp) == 1 and len(accc) == 1):
        return None
    aliases = {}
    for st in init:
        if isinstance(st, ast.Assign) and len(st.targets) == 1 and isinstance(st.targets[0], ast.Name) and st.targets[0].id not in (part[0], accp[0], accc[0]):
            stores = [x for x in ast.walk(fn) if isinstance(x, ast.Name) and isinstance(x.ctx, ast.Store) and x.id == st.targets[0].id]
            if len(stores) == 1:
                aliases[st.targets[0].id] = st.value
    names = {'length': tnames[0], 'low': tnames[1], 'high': tnames[2], 'props': tnames[3], 'children': tnames[4],
             'part': part[0], 'acc_props': accp[0], 'acc_children': accc[0], 'number': number, 'aliases': aliases}
    # --- decision table
    if loop.orelse:
        raise AnalysisError('%s:%d for/else in _find' % (FILE, loop.lineno))
    for a, b, c, d in itertools.product((-1, 0, 1), repeat=4):
        # len(number) >= len(part): the whole number is never shorter than the candidate part
        if (a > 0 and d <= 0) or (a == 0 and d < 0):
            continue
        cell = Cell(a, b, c, d)
        desc = 'len(part)%slength, low%spart[:length], part[:length]%shigh, len(number)%slength' % tuple('<=>'[x + 1] for x in (a, b, c, d))
        try:
            paths = run_paths(loop.body, cell, names)
        except Depends as e:
            rep.fail('DT.cell', FILE, '_find', 'order type (%s)' % desc, loop.lineno, str(e))
            continue
        want = spec_actions(a, b, c)
        acts, form, problem = paths[0], None, None
        for acts in paths:
            form, problem = normal_form(acts)
            if problem is not None or form != want:
                break
        desc = 'len(part)%slength, low%spart[:length], part[:length]%shigh, len(number)%slength' % tuple('<=>'[x + 1] for x in (a, b, c, d))
        if problem is not None and problem.startswith('ALIAS:'):
            rep.fail('DT.no-alias', FILE, '_find', problem[6:], loop.lineno,
                     'the result would share a container with the loaded registry: later lookups change when the caller mutates it')
            continue
        rep.check(form == want, 'DT.cell', FILE, '_find', 'order type (%s)' % desc, loop.lineno,
                  'in this order type the loop does %r%s, the prefix rules prescribe %r'
                  % (acts, (' [%s]' % problem) if problem else '', want), what='(%s) -> %r' % (desc, want))
    # --- result
    tail = body[li + 1:]
    ret = tail[-1] if tail else None
    ok_ret = False
    # `if <remainder> and not <children>: return [(part, properties), (<remainder>, {})]`: what the recursion returns for a non-empty
    # remainder and an empty list to search (base case false, the loop does not run, the remainder is one property-less part)
    from ..match import _Subst as _S
    import copy as _copy
    pre_sub = {}
    kept = []
    for st in tail[:-1]:
        if isinstance(st, ast.Assign) and len(st.targets) == 1 and isinstance(st.targets[0], ast.Name):
            pre_sub[st.targets[0].id] = _S(dict(pre_sub)).visit(_copy.deepcopy(st.value))
            kept.append(st)
            continue
        if isinstance(st, ast.If) and not st.orelse and len(st.body) == 1 and isinstance(st.body[0], ast.Return) and st.body[0].value is not None:
            t_ = src(_S(dict(pre_sub)).visit(_copy.deepcopy(st.test)))
            r_ = src(_S(dict(pre_sub)).visit(_copy.deepcopy(st.body[0].value)))
            rem = '%s[len(%s):]' % (number, names['part'])
            if t_ in ('%s and (not %s)' % (rem, names['acc_children']), '%s and not %s' % (rem, names['acc_children']),
                      'not %s and %s' % (names['acc_children'], rem), '(not %s) and %s' % (names['acc_children'], rem)) \
                    and r_ in ('[(%s, %s), (%s, {})]' % (names['part'], names['acc_props'], rem), '[(%s, %s), (%s, dict())]' % (names['part'], names['acc_props'], rem)):
                rep.ok('DT.result', '%s:%d _find' % (FILE, st.lineno), 'fast path for an empty list of children returns what the recursion returns')
                continue
        kept.append(st)
    tail = kept + [tail[-1]] if tail else tail
    simple_tail = all(isinstance(st, ast.Assign) and len(st.targets) == 1 and isinstance(st.targets[0], ast.Name)
                      and st.targets[0].id not in (names['part'], names['acc_props'], names['acc_children'], number) for st in tail[:-1])
    if isinstance(ret, ast.Return) and ret.value is not None and simple_tail:
        rv = ret.value
        if len(tail) > 1:
            from ..match import _Subst
            import copy
            sub = {}
            for st in tail[:-1]:
                sub[st.targets[0].id] = _Subst(dict(sub)).visit(copy.deepcopy(st.value))
            rv = _Subst(sub).visit(copy.deepcopy(rv))
        for callee in ('NumDB._find', 'cls._find', 'self._find', '_find'):
            if match_expr('[(%s, %s)] + %s(%s[len(%s):], %s)' % (names['part'], names['acc_props'], callee, number, names['part'], names['acc_children']), rv) is not None:
                ok_ret = True
    rep.check(ok_ret, 'DT.result', FILE, '_find', src(ret) if ret is not None else 'return', getattr(ret, 'lineno', fn.lineno),
              'the result is not [(part, properties)] + _find(number[len(part):], next_prefixes): parts would not concatenate to the '
              'number or children would not be searched in the remainder')
    # --- no other write to the accumulators / part outside the classified actions
    for n in ast.walk(fn):
        if isinstance(n, ast.Assign):
            for t in n.targets:
                if isinstance(t, ast.Name) and t.id in (names['acc_props'], names['acc_children']):
                    v = src(n.value)
                    rep.check(v in ('{}', '[]', 'dict()', 'list()'), 'DT.no-alias', FILE, '_find', src(n), n.lineno,
                              'collected %s is bound to %s instead of a fresh container: registry storage would escape to the caller'
                              % (t.id, v))
    return names


def check_wrappers(rep, methods):
    info = methods.get('info')
    split = methods.get('split')
    if info is None or split is None:
        raise AnalysisError('%s: NumDB.info/split vanished' % FILE)
    b = strip_doc(info.body)
    ok = len(b) == 1 and isinstance(b[0], ast.Return) and any(
        match_expr('%s(%s, self.prefixes)' % (c, info.args.args[1].arg), b[0].value) is not None for c in ('NumDB._find', 'self._find'))
    rep.check(ok, 'DT.info', FILE, 'info', src(b[-1]), info.lineno, 'info() is not _find(number, self.prefixes)')
    b = strip_doc(split.body)
    ok = len(b) == 1 and isinstance(b[0], ast.Return) and (
        match_expr('[V_p for V_p, V_q in self.info(%s)]' % split.args.args[1].arg, b[0].value) is not None
        or match_expr('[V_x[0] for V_x in self.info(%s)]' % split.args.args[1].arg, b[0].value) is not None)
    rep.check(ok, 'DT.split', FILE, 'split', src(b[-1]), split.lineno, 'split() is not the list of first components of info()')


def grammar(rep):
    """DT.grammar: the property pattern reads key="value" with a value that is any run of non-quote characters, the empty
    run included (shipped files contain region="" and name=""), and the key class is not narrowed below [0-9a-zA-Z-_]."""
    import re._parser as P
    import re._constants as C
    path = os.path.join(REPO, FILE)
    with open(path, encoding='utf-8') as fh:
        tree = ast.parse(fh.read())
    pat = None
    # the property pattern is the module-level compiled pattern whose findall() builds the properties in _parse (whatever its name)
    pname = '_prop_re'
    for fn_ in tree.body:
        if isinstance(fn_, ast.FunctionDef) and fn_.name == '_parse':
            for c_ in ast.walk(fn_):
                if isinstance(c_, ast.Call) and isinstance(c_.func, ast.Attribute) and c_.func.attr == 'findall' and isinstance(c_.func.value, ast.Name):
                    pname = c_.func.value.id
    for st in tree.body:
        if isinstance(st, ast.Assign) and len(st.targets) == 1 and isinstance(st.targets[0], ast.Name) and st.targets[0].id == pname \
                and isinstance(st.value, ast.Call) and st.value.args:
            try:
                pat = ast.literal_eval(st.value.args[0])
            except (ValueError, SyntaxError):
                pat = None
            line = st.lineno
    if not isinstance(pat, str):
        raise AnalysisError('%s: the property pattern %s is not a literal pattern' % (FILE, pname))
    try:
        t = P.parse(pat)
    except Exception as e:
        raise AnalysisError('%s: _prop_re does not parse: %s' % (FILE, e))
    groups = {v: k for k, v in t.state.groupdict.items()}
    val = None
    for op, av in t:
        if op is C.SUBPATTERN and groups.get(av[0]) == 'value':
            val = list(av[3])
    if val is None:
        raise AnalysisError('%s: the property pattern %s has no group named value' % (FILE, pname))
    ok = len(val) == 1 and val[0][0] in (C.MAX_REPEAT, C.MIN_REPEAT) and val[0][1][0] == 0 and val[0][1][1] == C.MAXREPEAT
    if ok:
        inner = list(val[0][1][2])
        ok = len(inner) == 1 and ((inner[0][0] is C.NOT_LITERAL and inner[0][1] == ord('"')) or
                                  (inner[0][0] is C.IN and inner[0][1][0] == (C.NEGATE, None) and inner[0][1][1:] == [(C.LITERAL, ord('"'))]))
    rep.check(ok, 'DT.grammar', FILE, pname, pat, line,
              'the value of a property is not `any run of characters other than the quote, possibly empty` ([^"]*): properties with an empty or '
              'unusual value are dropped from the entry without an error', what='value = [^"]*')
    # the name of a property: every character of [0-9a-zA-Z-_] has to be accepted inside a name (a narrower class cuts the name at
    # the first character it does not know and files the value under the remainder)
    import re as _re
    try:
        cre = _re.compile(pat)
    except _re.error as e:
        raise AnalysisError('%s: the property pattern does not compile: %s' % (FILE, e))
    pgroup = 'prop' if 'prop' in cre.groupindex else next((g for g in cre.groupindex if g != 'value'), None)
    if pgroup is None:
        raise AnalysisError('%s: the property pattern %s has no group for the property name' % (FILE, pname))
    lost = []
    for c in '0123456789abcdefghijklmnopqrstuvwxyzABCDEFGHIJKLMNOPQRSTUVWXYZ-_':
        found = cre.findall('a%sb="v"' % c)
        m_ = cre.search('a%sb="v"' % c)
        if m_ is None or m_.group(pgroup) != 'a%sb' % c:
            lost.append(c)
    rep.check(not lost, 'DT.grammar', FILE, pname, pat + ' (names)', line,
              'a property name containing %r is not read as one name (e.g. `a%sb="v"` is filed under another key): the properties attached to a part '
              'are not those written in the file' % (''.join(lost)[:10], (lost or ['-'])[0]), what='name class contains [0-9a-zA-Z-_]')


def inline_generator_helpers(fn, funcs):
    """`for a, b in _helper(E): BODY` with `def _helper(p): for x in F(p): ...; yield u, v` is read as the helper's loop with BODY
    in the place of the yield (a, b standing for u, v): a private generator that only splits the work of the loop."""
    import copy
    from ..match import _Subst

    def expand(loop):
        if not (isinstance(loop.iter, ast.Call) and isinstance(loop.iter.func, ast.Name) and loop.iter.func.id in funcs and loop.iter.func.id.startswith('_')
                and not loop.iter.keywords and not loop.orelse):
            return None
        g = funcs[loop.iter.func.id]
        gb = strip_doc(g.body)
        params = [a.arg for a in g.args.args]
        if len(gb) != 1 or not isinstance(gb[0], ast.For) or len(params) != len(loop.iter.args) or g.args.vararg or g.args.kwarg:
            return None
        ys = [n for n in ast.walk(g) if isinstance(n, (ast.Yield, ast.YieldFrom))]
        tgt = loop.target.elts if isinstance(loop.target, ast.Tuple) else [loop.target]
        if len(ys) != 1 or not isinstance(ys[0], ast.Yield) or ys[0].value is None or not all(isinstance(t, ast.Name) for t in tgt):
            return None
        yv = ys[0].value.elts if isinstance(ys[0].value, ast.Tuple) else [ys[0].value]
        if len(yv) != len(tgt):
            return None
        # names the helper binds must not clash with names the caller's body reads
        gnames = {n.id for n in ast.walk(g) if isinstance(n, ast.Name) and isinstance(n.ctx, ast.Store)}
        bnames = {n.id for st in loop.body for n in ast.walk(st) if isinstance(n, ast.Name)} - {t.id for t in tgt}
        if gnames & bnames:
            return None
        new = copy.deepcopy(gb[0])
        new = _Subst(dict(zip(params, loop.iter.args))).visit(new)
        body = [_Subst({t.id: copy.deepcopy(v) for t, v in zip(tgt, yv)}).visit(copy.deepcopy(st)) for st in loop.body]

        class R(ast.NodeTransformer):
            def visit_Expr(self, node):
                if isinstance(node.value, ast.Yield):
                    return body
                return node
        new = R().visit(new)
        return ast.fix_missing_locations(new)

    class T(ast.NodeTransformer):
        def visit_For(self, node):
            self.generic_visit(node)
            e = expand(node)
            return e if e is not None else node
    return ast.fix_missing_locations(T().visit(copy.deepcopy(fn)))


def check_layout(rep, methods, funcs, names):
    """The 5-field entry layout written by read() must be the one _parse yields and _find unpacks."""
    parse, read = funcs.get('_parse'), funcs.get('read')
    if parse is None or read is None:
        raise AnalysisError('%s: _parse/read vanished' % FILE)
    parse = inline_generator_helpers(parse, funcs)
    ys = [n for n in ast.walk(parse) if isinstance(n, ast.Yield)]
    if len(ys) != 1 or not isinstance(ys[0].value, ast.Tuple) or len(ys[0].value.elts) != 6:
        raise AnalysisError('%s:%d _parse does not yield one 6-tuple (indent, length, low, high, props, children)' % (FILE, parse.lineno))
    y = [src(e) for e in ys[0].value.elts]
    grammar(rep)
    # length field must be len(low field)
    rep.check(y[1] == 'len(%s)' % y[2], 'DT.layout', FILE, '_parse', src(ys[0]), ys[0].lineno,
              'the length field is %s, not the length of the low endpoint %s' % (y[1], y[2]))
    # low/high derivation inside the range loop
    rng_loop = None
    for n in ast.walk(parse):
        if isinstance(n, ast.For) and any(x is ys[0] for x in ast.walk(n)) and isinstance(n.target, ast.Name) and 'split' in src(n.iter):
            rng_loop = n
    if rng_loop is None:
        raise AnalysisError('%s:%d _parse has no loop over the comma separated ranges' % (FILE, parse.lineno))
    rep.check(src(rng_loop.iter).endswith(".split(',')"), 'DT.layout', FILE, '_parse', src(rng_loop.iter), rng_loop.lineno,
              'ranges of one line are not separated at commas')
    r = rng_loop.target.id
    branch = [s for s in rng_loop.body if isinstance(s, ast.If)]
    okb = None
    where = rng_loop
    if len(branch) == 1 and src(branch[0].test) == "'-' in %s" % r and len(branch[0].body) == 1 and len(branch[0].orelse) == 1:
        t, f = src(branch[0].body[0]), src(branch[0].orelse[0])
        okb = t in ("%s, %s = %s.split('-')" % (y[2], y[3], r), "(%s, %s) = %s.split('-')" % (y[2], y[3], r)) and \
            f in ('%s, %s = (%s, %s)' % (y[2], y[3], r, r), '%s = %s = %s' % (y[2], y[3], r), '%s = %s = %s' % (y[3], y[2], r), '(%s, %s) = (%s, %s)' % (y[2], y[3], r, r))
        where = branch[0]
    elif any(isinstance(st, ast.Assign) and isinstance(st.value, ast.IfExp) and src(st.targets[0]) in ('%s, %s' % (y[2], y[3]), '(%s, %s)' % (y[2], y[3]))
             for st in rng_loop.body):
        # the same decision as a conditional expression
        st = next(st for st in rng_loop.body if isinstance(st, ast.Assign) and isinstance(st.value, ast.IfExp))
        ie = st.value
        where = st
        okb = src(ie.test) == "'-' in %s" % r and src(ie.body) == "%s.split('-')" % r and src(ie.orelse) == '(%s, %s)' % (r, r)
    else:
        # the same decision inside a private helper: low, high = <helper>(range)
        for st in rng_loop.body:
            if isinstance(st, ast.Assign) and src(st.targets[0]) in ('%s, %s' % (y[2], y[3]), '(%s, %s)' % (y[2], y[3])) and isinstance(st.value, ast.Call) \
                    and isinstance(st.value.func, ast.Name) and st.value.func.id in funcs and len(st.value.args) == 1 and src(st.value.args[0]) == r:
                h = funcs[st.value.func.id]
                hp = h.args.args[0].arg if len(h.args.args) == 1 else None
                hb = strip_doc(h.body)
                where = st
                if hp and len(hb) == 2 and isinstance(hb[0], ast.If) and src(hb[0].test) == "'-' in %s" % hp and isinstance(hb[1], ast.Return) and not hb[0].orelse:
                    inner = hb[0].body
                    t_ok = False
                    if len(inner) == 1 and isinstance(inner[0], ast.Return):
                        t_ok = src(inner[0].value) in ("%s.split('-')" % hp, "tuple(%s.split('-'))" % hp)
                    elif len(inner) == 2 and isinstance(inner[0], ast.Assign) and isinstance(inner[1], ast.Return) and isinstance(inner[0].targets[0], ast.Tuple) \
                            and len(inner[0].targets[0].elts) == 2 and src(inner[0].value) == "%s.split('-')" % hp:
                        a_, b_ = [src(e) for e in inner[0].targets[0].elts]
                        t_ok = src(inner[1].value) in ('(%s, %s)' % (a_, b_),)
                    okb = t_ok and src(hb[1].value) == '(%s, %s)' % (hp, hp)
    if okb is None:
        # low, _, high = r.partition('-') with `high or low` yielded as the upper end: both ends of `a-b`, the single value twice
        for st in rng_loop.body:
            if isinstance(st, ast.Assign) and isinstance(st.targets[0], ast.Tuple) and len(st.targets[0].elts) == 3 and src(st.value) == "%s.partition('-')" % r:
                lo_, _sep, hi_ = [src(e) for e in st.targets[0].elts]
                where = st
                okb = y[2] == lo_ and y[3] in ('%s or %s' % (hi_, lo_), '%s if %s else %s' % (hi_, hi_, lo_)) and y[1] == 'len(%s)' % lo_
    if okb is None:
        raise AnalysisError('%s:%d _parse: how low/high are derived from a range is not recognised' % (FILE, rng_loop.lineno))
    rep.check(okb, 'DT.layout', FILE, '_parse', src(where), where.lineno,
              'low/high are not (both ends of `a-b`) or (the single value twice)')
    # read(): for <6 names> in _parse(fp): ... stack[indent].append([5 names])
    loops = [n for n in ast.walk(read) if isinstance(n, ast.For) and src(n.iter).startswith('_parse(')]
    starred = None
    if len(loops) == 1 and isinstance(loops[0].target, ast.Tuple) and len(loops[0].target.elts) == 2 and isinstance(loops[0].target.elts[0], ast.Name) \
            and isinstance(loops[0].target.elts[1], ast.Starred) and isinstance(loops[0].target.elts[1].value, ast.Name):
        # for indent, *entry in _parse(fp): the rest of the yielded tuple, as a fresh list, in the order _parse yields it
        starred = loops[0].target.elts[1].value.id
    elif len(loops) != 1 or not isinstance(loops[0].target, ast.Tuple) or len(loops[0].target.elts) != 6:
        raise AnalysisError('%s:%d read() has no `for indent, length, low, high, props, children in _parse(fp)` loop' % (FILE, read.lineno))
    loop = loops[0]
    t = [src(e) for e in loop.target.elts] if starred is None else [src(loop.target.elts[0])] + y[1:]
    apps = [n for n in ast.walk(loop) if isinstance(n, ast.Call) and isinstance(n.func, ast.Attribute) and n.func.attr == 'append']
    # one entry per parsed range, stored unconditionally, and never modified once stored (the ranges of one line share one
    # properties dict: changing it through one entry changes them all)
    direct = [st for st in loop.body if isinstance(st, ast.Expr) and st.value in apps]
    muts = [n for n in ast.walk(loop) if isinstance(n, ast.Call) and isinstance(n.func, ast.Attribute) and n.func.attr in ('update', 'extend', 'insert', 'pop', 'clear', 'setdefault')
            and isinstance(n.func.value, ast.Subscript)]
    if apps and not direct:
        rep.fail('DT.tree', FILE, 'read', src(apps[0]), apps[0].lineno,
                 'read() stores an entry only on one branch of a condition: a parsed range that takes the other branch is not in the tree as a line of its own, '
                 'so a lookup does not return it (or returns it merged into another entry)')
    for n in muts:
        rep.fail('DT.tree', FILE, 'read', src(n)[:100], n.lineno,
                 'read() modifies an entry that is already stored (%s): the ranges of one line share their properties dict, so every sibling range of '
                 'that line changes too' % src(n.func)[:60])
    if (apps and not direct) or muts:
        return
    if starred is not None and len(apps) == 1 and len(apps[0].args) == 1 and isinstance(apps[0].args[0], ast.Name) and apps[0].args[0].id == starred:
        # the starred name is bound once per iteration and stored as it is
        rebinds = [x for x in ast.walk(loop) if isinstance(x, ast.Name) and x.id == starred and isinstance(x.ctx, ast.Store)]
        uses = [x for x in ast.walk(loop) if isinstance(x, ast.Name) and x.id == starred and isinstance(x.ctx, ast.Load)]
        if len(rebinds) != 1 or len(uses) != 1:
            raise AnalysisError('%s:%d read(): the starred entry %s is used in more than the append' % (FILE, read.lineno, starred))
        entry = list(y[1:])
    elif len(apps) != 1 or len(apps[0].args) != 1 or not isinstance(apps[0].args[0], (ast.List, ast.Tuple)):
        raise AnalysisError('%s:%d read() does not append one entry per parsed range' % (FILE, read.lineno))
    else:
        entry = [src(e) for e in apps[0].args[0].elts]
    rep.check(entry == t[1:], 'DT.layout', FILE, 'read', src(apps[0]), apps[0].lineno,
              'entry %r stored by read() is not the (length, low, high, props, children) tuple %r that _parse yields and _find unpacks'
              % (entry, t[1:]))
    stack = src(apps[0].func.value)
    rep.check(stack.endswith('[%s]' % t[0]), 'DT.tree', FILE, 'read', src(apps[0]), apps[0].lineno,
              'the entry is not appended to the level selected by its own indentation')
    # re-parenting: if indent > last_indent: stack[indent] = stack[last_indent][-1][<index of children>]
    ifs = [s for s in loop.body if isinstance(s, ast.If)]
    lastv = None
    for s in loop.body:
        if isinstance(s, ast.Assign) and src(s.value) == t[0] and isinstance(s.targets[0], ast.Name):
            lastv = s.targets[0].id
    rep.check(lastv is not None and loop.body.index([s for s in loop.body if isinstance(s, ast.Assign) and src(s.value) == t[0]][-1]) == len(loop.body) - 1
              if lastv else False, 'DT.tree', FILE, 'read', 'last_indent = indent', loop.lineno,
              'the previous indentation is not updated at the end of every iteration')
    if lastv is None or len(ifs) != 1:
        raise AnalysisError('%s:%d read(): indentation handling not recognised' % (FILE, read.lineno))
    iff = ifs[0]
    # decision on sign(indent - last_indent): re-parent iff indent > last
    for sgn in (-1, 0, 1):
        tst = iff.test
        ok = None
        if isinstance(tst, ast.Compare) and len(tst.ops) == 1:
            l, r_ = src(tst.left), src(tst.comparators[0])
            if (l, r_) == (t[0], lastv):
                s = sgn
            elif (l, r_) == (lastv, t[0]):
                s = -sgn
            else:
                s = None
            if s is not None:
                ok = {ast.Lt: s < 0, ast.LtE: s <= 0, ast.Gt: s > 0, ast.GtE: s >= 0, ast.Eq: s == 0, ast.NotEq: s != 0}.get(type(tst.ops[0]))
        if ok is None:
            raise AnalysisError('%s:%d read(): indentation test `%s` not understood' % (FILE, iff.lineno, src(tst)))
        rep.check(ok == (sgn > 0), 'DT.tree', FILE, 'read', 'indent %s last_indent' % '<=>'[sgn + 1], iff.lineno,
                  'a line is re-parented when its indentation is %s the previous one (must happen exactly when it is deeper)'
                  % ('less than', 'equal to', 'greater than')[sgn + 1], what='re-parent iff deeper (%s)' % '<=>'[sgn + 1])
    want = '%s[%s] = %s[%s][-1][%d]' % (stack[:-len(t[0]) - 2], t[0], stack[:-len(t[0]) - 2], lastv, entry.index(t[5]) if t[5] in entry else -1)
    rep.check(len(iff.body) == 1 and src(iff.body[0]) == want and not iff.orelse, 'DT.tree', FILE, 'read', src(iff.body[0]), iff.lineno,
              'a deeper line must attach to the children list (field %d) of the last entry of the previous level: expected `%s`'
              % (entry.index(t[5]) if t[5] in entry else -1, want))
    # _find unpack order equals stored order by name
    return entry


def check_source(rep, funcs):
    """DT.source: what get() hands to read(), and read() to _parse(), is the opened registry itself: a generator, map or
    comprehension in between rewrites or drops lines, so the parts and properties are no longer those the file prescribes."""
    def identity(x):
        return isinstance(x, ast.GeneratorExp) and len(x.generators) == 1 and not x.generators[0].ifs \
            and isinstance(x.elt, ast.Name) and isinstance(x.generators[0].target, ast.Name) and x.elt.id == x.generators[0].target.id
    n_sites = 0
    for fname, callee in (('get', 'read'), ('read', '_parse')):
        fn0 = funcs.get(fname)
        if fn0 is None:
            raise AnalysisError('%s: %s() vanished' % (FILE, fname))
        # the call may sit in a private helper of the function (get() -> _load() -> read())
        fns, todo = [], [fn0]
        while todo:
            f_ = todo.pop()
            if f_ in fns:
                continue
            fns.append(f_)
            for c in ast.walk(f_):
                if isinstance(c, ast.Call) and isinstance(c.func, ast.Name) and c.func.id.startswith('_') and c.func.id in funcs and c.func.id != callee:
                    todo.append(funcs[c.func.id])
        for fn in fns:
          for c in ast.walk(fn):
              if isinstance(c, ast.Call) and isinstance(c.func, ast.Name) and c.func.id == callee and c.args:
                  n_sites += 1
                  x = c.args[0]
                  while identity(x):
                      x = x.generators[0].iter
                  bad = None
                  if isinstance(x, (ast.GeneratorExp, ast.ListComp, ast.SetComp)):
                      bad = 'a comprehension over the lines'
                  elif isinstance(x, ast.Call) and src(x.func) in ('map', 'filter', 'sorted', 'reversed', 'list', 'set', 'iter', 'enumerate', 'zip'):
                      bad = '%s(...) over the lines' % src(x.func)
                  elif isinstance(x, ast.Name):
                      # the name must not be rebound to a transformed iterable inside the function
                      for a in ast.walk(fn):
                          if isinstance(a, ast.Assign) and any(isinstance(t, ast.Name) and t.id == x.id for t in a.targets) \
                                  and isinstance(a.value, (ast.GeneratorExp, ast.ListComp)) and not identity(a.value):
                              bad = '`%s`' % src(a)[:80]
                  rep.check(bad is None, 'DT.source', FILE, fname, src(c)[:120], c.lineno,
                            '%s() hands %s to %s(): the registry is parsed from rewritten or filtered lines, so the properties attached to a part '
                            'are not those written in the file' % (fname, bad, callee), what='%s(%s)' % (callee, src(c.args[0])[:40]))
    if n_sites < 2:
        raise AnalysisError('%s: the calls get() -> read() -> _parse() were not found' % FILE)


def check(tier):
    rep = Report('C10', tier, level='proof',
                 rule_text='decision table of NumDB._find over the 27 order types of (len(part) vs length, low vs part[:length], '
                           'part[:length] vs high), obtained by abstractly executing the loop body per cell; base case, initialisation, '
                           'result expression, no-alias rule; entry layout agreement between _parse, read and _find; re-parenting '
                           'decision of read() over the 3 order types of (indent vs last_indent)',
                 trusted=['CPython ast', 'sa/dt/LEMMA.md (induction over the recursion of _find)', 'str ordering is a total order'],
                 assumptions=['registry entries are only created by read() (checked by C13)', 'endpoints of an entry have equal length (checked per line by C11)'])
    tree, methods, funcs = load()
    names = check_find(rep, methods)
    check_wrappers(rep, methods)
    if names:
        check_layout(rep, methods, funcs, names)
    check_source(rep, funcs)
    # the reader hands every written property of every line to the tree (shipped registries + the test registry)
    from ..reg import ReaderModel, Registry, registry_files
    model = ReaderModel()
    if model.skip_problem:
        rep.fail('DT.layout', FILE, '_parse', model.skip_problem[1][:100], model.skip_problem[0], model.skip_problem[2])
    else:
        rep.ok('DT.layout', '%s _parse' % FILE, 'comments are lines starting with # in the first column; blank lines are skipped')
    files = registry_files()
    extra = os.path.join(REPO, 'tests', 'numdb-test.dat')
    if os.path.exists(extra):
        files.append(extra)
    nlines = 0
    for path in files:
        reg = Registry(model, path)
        nlines += reg.lines
        bad = [p for p in reg.problems if p[0] == 'REG.reader-complete']
        for rule, line, text, detail in bad[:20]:
            rep.fail('DT.reader-complete', reg.rel, '-', text[:120], line, detail + ': the properties attached to a part are not those the file prescribes')
        if not bad:
            rep.ok('DT.reader-complete', reg.rel, '%d lines: the reader model returns every written property' % reg.lines)
    rep.unit('registry lines read through the reader model', nlines)
    rep.unit('order types', 54)
    rep.expect_at_least('DT.cell', 54, 'order-type cells')
    rep.not_decided = ['indentation-to-tree reader on files that violate the well-formedness rules C11 checks for the shipped files']
    return rep.finish()
