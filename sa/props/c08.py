"""C08 - conversions between formats preserve validity and identity (decided part).

For the conversions the property names (specs/conversions.json), each applied abstractly to every
accepted shape of the source format, both in compact form and as printed by the source's format():
 C08.total      no partial operation of the conversion can fail with a foreign exception;
 C08.shape      the compact result has the length / literal prefix / position classes of the target;
 C08.identity   the result embeds the characters of the source number, in order, each at most once
                (as many as the format relation prescribes): the identity is carried over, not recomputed;
 C08.generator  new check characters are produced by the target format's own generator, applied to
                exactly the payload they are attached to;
 C08.target     the target's validate() has a returning path on the result (it is not rejected for
                length, alphabet or component reasons);
 C08.options    conversions expressed as options of validate() (ISAN with / without check characters): under each option
                assignment every accepting path returns a string of one of the lengths the relation allows;
 C08.presentation  conversions requested through an option of format()/compact()/validate() (ISBN-10 printed as
                ISBN-13): the last character of the result is a cell produced by the target's generator, never
                the source's own check character;
 C08.input      the conversion reads its raw argument only through compact()/validate() (or passes it to a
                callee that does) apart from separator sniffing (`' ' in number`)."""
import ast
import json
import os

from ..common import Report, VERIF, rel, src
from ..rawflow import raw_uses, flatten


def check(tier):
    from ..strabs.run import analyse_conversions, get_interp
    rep = Report('C08', tier, level='other',
                 rule_text='abstract interpretation of each conversion on the accepted language of its source format (compact and formatted), with '
                           'positional provenance (source cells, generated cells, literals) and a run of the target validator on the result',
                 trusted=['specs/conversions.json (relations named by the property)', 'models in sa/strabs'],
                 assumptions=['inverse round trips (to_x(from_x(n)) == n) and re-encodings (AIC base 32, MEID hex/dec, German tax numbers, ISAN) are not decided'])
    with open(os.path.join(VERIF, 'specs', 'conversions.json')) as fh:
        spec = json.load(fh)
    I = get_interp()
    prog = I.prog
    convs = spec['conversions']
    for c in convs:
        if c['module'] not in prog.mods or prog.resolve_name(prog.mods[c['module']], c['function']) is None:
            rep.error('conversion %s.%s vanished' % (c['module'], c['function']))
    if rep.errors:
        return rep.finish()
    res = analyse_conversions([(c['module'], c['function'], c['target']) for c in convs])
    for c, r in zip(convs, res):
        mn, fn = c['module'], c['function']
        rr = prog.resolve_name(prog.mods[mn], fn)
        fnode = prog.mods[rr[1]].funcs[rr[2]]
        file = rel(prog.mods[rr[1]].path)
        name = '%s.%s' % (mn.replace('stdnum.', ''), fn)
        if r['crash']:
            rep.error('STRABS crashed on %s: %s' % (name, r['crash'][-200:].replace('\n', ' | ')))
            continue
        # ---- input flow
        for u, chain in flatten(raw_uses(prog, rr[1], fnode)):
            if u.kind in ('compact', 'clean', 'unused', 'dynamic'):
                continue
            d = u.detail or u.kind
            stmt = src(u.stmt)
            where = ' -> '.join('%s.%s' % (a.replace('stdnum.', ''), b) for a, b in chain)
            p0 = fnode.args.args[0].arg if not chain else None
            # only reads that depend on the length or on character positions of the raw text matter: padding, len(), int(), indexing
            par_ = getattr(u, 'parent', None)
            sensitive = ('builtin len' in d or 'builtin int' in d) or \
                (isinstance(par_, ast.Attribute) and par_.attr in ('zfill', 'rjust', 'ljust', 'center')) or \
                (isinstance(par_, ast.Subscript) and par_.value is u.node)
            if not sensitive:
                continue
            rep.fail('C08.input', file, fn + ((' -> ' + where) if where else ''), stmt.split(' : ')[0][:140], u.stmt.lineno,
                     '%s reads its raw argument (%s) before compact(): a number written with separators converts differently from its compact form' % (name, d))
        if not r['runs']:
            rep.undecide('C08.shape', file, 'no accepted fixed-length shape of %s reached %s()' % (mn, fn))
            continue
        # ---- totality
        for a in r['alarms']:
            rep.fail('C08.total:%s' % a['kind'], a['file'], a['func'], a['construct'], a['line'],
                     '%s may escape %s on an accepted number (%s): %s' % (a['kind'], name, a.get('input', ''), a['why']))
        results = r['results']
        if c.get('source_lengths'):
            keep = []
            for x in results:
                m_ = __import__('re').match(r'len=(\d+)', x['source'])
                if m_ and int(m_.group(1)) in c['source_lengths']:
                    keep.append(x)
            results = keep
        bad_shape, bad_id, bad_gen, bad_tgt, nres = [], [], [], [], 0
        for x in results:
            if x['kind'] != 'str':
                bad_shape.append((x['source'], 'returns %s' % x['kind']))
                continue
            nres += 1
            L = x.get('length')
            if L is None or L not in c['length']:
                bad_shape.append((x['source'], '%s: compact length %s, expected %s' % (x['how'], L, c['length'])))
                continue
            shp = x['shape']
            if c.get('prefix') and ''.join((s_ or '?') if s_ and len(s_) == 1 else '?' for s_ in shp[:len(c['prefix'])]) != c['prefix']:
                bad_shape.append((x['source'], '%s: result starts with %s, expected %s' % (x['how'], shp[:len(c['prefix'])], c['prefix'])))
            for pos, cls in (c.get('position_class') or {}).items():
                s_ = shp[int(pos)]
                if s_ is None or not set(s_) <= set(cls):
                    bad_shape.append((x['source'], '%s: position %s of the result may be %r, expected within %r' % (x['how'], pos, s_, cls)))
            nconst = sum(1 for ch in x['source'] if False)
            # constants of the source that reappear count as embedded: compare by count of single-character source positions
            import re as _re
            consts = len(_re.findall(r" '.'(?:\{(\d+)\})?", ' ' + x['source'].split(' ', 1)[-1])) if "'" in x['source'] else 0
            once = len(set(x['embedded'])) == len(x['embedded'])
            if not (x['in_order'] or (c.get('reorder') and once)) or len(x['embedded']) + consts < c['embeds']:
                bad_id.append((x['source'], '%s: embeds source positions %s%s' % (x['how'], x['embedded'], '' if x['in_order'] else ' (out of order)')))
            if c.get('generator'):
                gens = set(x['generators'])
                if len(x['embedded']) + consts < len(x['source']) or gens:
                    okg = (not gens) or c['generator'] in gens or gens <= set(I.ALG_MODULES) | {c['generator']}
                    if gens and (not okg or not x['gen_args_ok']):
                        bad_gen.append((x['source'], '%s: new characters produced by %s (argument is the attached payload: %s)' % (x['how'], sorted(gens), x['gen_args_ok'])))
                    if not gens and L > len(x['embedded']) + consts + len(c.get('prefix') or ''):
                        bad_gen.append((x['source'], '%s: result has characters that come neither from the source nor from %s' % (x['how'], c['generator'])))
            if c.get('target') and x.get('target_returns') == 0:
                bad_tgt.append((x['source'], '%s: %s.validate() rejects the result on every path (%s)' % (x['how'], c['target'], x.get('target_raises'))))
            elif c.get('target') and not c.get('generator') and x['how'] == 'compact' and L is not None and len(x['embedded']) == L and x['in_order'] \
                    and not x.get('target_prevalidated') and x.get('target_raises'):
                # a conversion that only cuts a part out of the source: that part is a valid target number because the source's
                # validate() handed exactly these characters to the target's validate(); otherwise every rejecting path of the target counts
                bad_tgt.append((x['source'], '%s: the result is a part of the source that the source validator does not hand to %s.validate(), '
                                'which can reject it (%s)' % (x['how'], c['target'], ', '.join(x['target_raises']))))
        if not nres and not bad_shape:
            rep.undecide('C08.shape', file, 'no result of %s for the source lengths %s' % (name, c.get('source_lengths')))
            continue
        for rule, bad, msg in (('C08.shape', bad_shape, 'result does not have the shape of the target format'),
                               ('C08.identity', bad_id, 'result does not carry over the characters of the source number'),
                               ('C08.generator', bad_gen, 'new check characters do not come from the target format\'s generator over the attached payload'),
                               ('C08.target', bad_tgt, 'the target validator rejects the converted number')):
            if rule == 'C08.generator' and not c.get('generator'):
                continue
            if rule == 'C08.target' and not c.get('target'):
                continue
            rep.check(not bad, rule, file, fn, name, fnode.lineno, '%s: %s [%s]' % (msg, (bad or [('', '')])[0][1], (bad or [('', '')])[0][0]),
                      what='%s: %d results' % (name, nres))
    # ---- conversions expressed as options of validate()
    from ..strabs.run import validate_with_options
    for oc in spec.get('option_conversions', []):
        mn, fn = oc['module'], oc['function']
        if mn not in prog.mods or prog.resolve_name(prog.mods[mn], fn) is None:
            rep.error('conversion %s.%s vanished' % (mn, fn))
            continue
        rr = prog.resolve_name(prog.mods[mn], fn)
        fnode = prog.mods[rr[1]].funcs[rr[2]]
        params = {a.arg for a in fnode.args.args}
        if not set(oc['options']) <= params:
            rep.error('%s.%s no longer has the options %s' % (mn, fn, sorted(set(oc['options']) - params)))
            continue
        file = rel(prog.mods[rr[1]].path)
        rets = validate_with_options(mn, oc['options'])
        label = '%s.%s(%s)' % (mn.replace('stdnum.', ''), fn, ', '.join('%s=%s' % kv for kv in sorted(oc['options'].items())))
        if not rets:
            rep.undecide('C08.options', file, 'no accepting path of %s' % label)
            continue
        bad = sorted({(x.get('lo'), x.get('hi')) for x in rets if x['kind'] != 'str' or x['lo'] != x['hi'] or x['lo'] not in oc['length']}, key=str)
        rep.check(not bad, 'C08.options', file, fn, label, fnode.lineno,
                  '%s can return a string of %s characters; %s allows only %s'
                  % (label, ' or '.join('%s..%s' % (a, b if b is not None else 'unbounded') if a != b else str(a) for a, b in bad), oc['relation'], oc['length']),
                  what='%s: lengths %s' % (label, sorted({x['lo'] for x in rets})))
    # ---- conversions requested through an option of format()/compact()/validate()
    from ..strabs.run import analyse_option_call
    for pc in spec.get('presentation_conversions', []):
        mn, fn = pc['module'], pc['function']
        rr = prog.resolve_name(prog.mods[mn], fn) if mn in prog.mods else None
        if rr is None:
            rep.error('conversion %s.%s vanished' % (mn, fn))
            continue
        fnode = prog.mods[rr[1]].funcs[rr[2]]
        params = {a.arg for a in fnode.args.args}
        if not set(pc['kwargs']) <= params:
            rep.error('%s.%s no longer has the options %s' % (mn, fn, sorted(set(pc['kwargs']) - params)))
            continue
        file = rel(prog.mods[rr[1]].path)
        label = '%s.%s(%s)' % (mn.replace('stdnum.', ''), fn, ', '.join('%s=%s' % kv for kv in sorted(pc['kwargs'].items())))
        recs = [x for x in analyse_option_call(mn, fn, pc['kwargs']) if x['source_len'] in pc['source_lengths']]
        if not recs:
            rep.undecide('C08.presentation', file, 'no accepted source of length %s reached %s' % (pc['source_lengths'], label))
            continue
        bad = []
        for x in recs:
            if x['kind'] != 'str' or not x.get('last_known'):
                bad.append('%s: result %s' % (x['source'], x.get('desc', x['kind'])))
            elif pc['check_generator'] not in x['last_generators'] or x['last_is_source']:
                bad.append('%s: the last character of the result %s, not by %s.calc_check_digit' % (
                    x['source'], 'is the last character of the source' if x['last_is_source'] else 'is produced by %s' % (x['last_generators'] or 'no generator'), pc['check_generator']))
            elif x['last_chars'] is None or not set(x['last_chars']) <= set(pc['last_chars']):
                bad.append('%s: the last character may be %r' % (x['source'], x['last_chars']))
        rep.check(not bad, 'C08.presentation', file, fn, label, fnode.lineno, '%s: %s (%s)' % (label, (bad or [''])[0], pc['relation']),
                  what='%s: %d source shapes' % (label, len(recs)))
    for mn, why in spec['undecided'].items():
        rep.undecide('C08.shape', mn, why)
    rep.expect_at_least('C08.shape', 15, 'conversions')
    rep.not_decided = ['paired conversions undo each other (value equality)'] + ['%s: %s' % kv for kv in spec['undecided'].items()]
    return rep.finish()
