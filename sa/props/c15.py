"""C15 - accepted numbers are spelled in ASCII.

STRABS: for every return path of every identifier module's validate(), every character class of
the returned string must be a subset of ASCII (plus the declared national letters of the three
formats the property names).  A position is ASCII only if a gate with an ASCII-only language
covered it: \\d, \\w, str.isdigit/isalpha/isalnum, int() and int(x, 36) accept other scripts and
do not count."""
from ..common import Report, rel
from .. import scope


def check(tier):
    from ..strabs.run import analyse_validate, get_interp
    rep = Report('C15', tier, level='other',
                 rule_text='abstract interpretation (STRABS) of validate(): character classes of every returned position are subsets of ASCII '
                           '(plus declared national letters); classes are sets of blocks of a partition of all 1,114,112 code points',
                 trusted=['models of builtins/str methods in sa/strabs', 'unicodedata of /venv'],
                 assumptions=['the eight generic check-digit modules are outside the property'])
    I = get_interp()
    B = I.B
    res = analyse_validate()
    for mn in sorted(res):
        r = res[mn]
        file = rel(I.prog.mods[mn].path)
        if mn in scope.C15_GENERIC:
            continue
        if r['crash']:
            rep.error('STRABS crashed on %s' % mn)
            continue
        allowed = scope.C15_NATIONAL.get(mn, '')
        allowed_blocks = set(B.cls_of_chars(allowed)) if allowed else set()
        bad_cats = set()
        chars = ''
        npaths = 0
        for ret in r['returns']:
            if ret['kind'] != 'str':
                continue
            npaths += 1
            na = set(ret['nonascii']) - allowed_blocks
            if na:
                cats = set()
                import unicodedata as _u
                for b in na:
                    ch = B.sample[b]
                    cats.add('decimal digits' if _u.category(ch) == 'Nd' else 'other digits' if ch.isdigit() else 'letters' if ch.isalpha()
                             else 'whitespace' if ch.isspace() else 'other characters')
                bad_cats |= cats
                chars = chars or ''.join(sorted(B.sample[b] for b in na))[:24]
        if not npaths:
            continue
        if bad_cats:
            if mn in scope.C15_UNDECIDED:
                rep.undecide('C15.ascii', file, scope.C15_UNDECIDED[mn])
                continue
            rep.fail('C15.ascii', file, 'validate', 'non-ASCII ' + ', '.join(sorted(bad_cats)), 0,
                     '%s.validate() can return non-ASCII %s (e.g. %r): no ASCII-only gate covers the position(s)'
                     % (mn.replace('stdnum.', ''), ', '.join(sorted(bad_cats)), chars))
        else:
            rep.ok('C15.ascii', '%s validate' % file, '%d return paths, every position within ASCII%s' % (npaths, (' + ' + allowed) if allowed else ''))
    rep.unit('modules', len(res) - len(scope.C15_GENERIC))
    rep.expect_at_least('C15.ascii', 200, 'identifier modules')
    rep.not_decided = ['%s: %s' % kv for kv in sorted(scope.C15_UNDECIDED.items())]
    return rep.finish()
