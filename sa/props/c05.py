"""C05 - check-digit generators and validators agree (decided part).

Per module that exposes a public generator calc_check_digit(s)[_x]:
 C05.wired     validate() reaches the generator through resolved calls (the validator does not carry a
               private copy of the formula); the generic algorithm modules are C06; iban/eu.at_02 go
               through mod_97_10 on both sides with the same rearrangement (sibling rule).
 C05.padding   a generator offered beside a compact() that zero-pads short numbers gives the same check character for a
               payload and for the payload behind the padding zero (right-aligned weights);
 C05.compare   every use of a generator on the validation path is a comparison of its result with a slice
               of the number whose failure raises InvalidChecksum (`!=`, `not in` for the documented
               alternatives, `endswith`); the payload handed to the generator is a slice that excludes the
               compared position, or the generator itself ignores that position.
 C05.gate      every path of validate() to a return passes a checksum gate (comparison, delegation to
               another validator, helper containing one); the returns that legitimately skip the check are
               a frozen, named list - a new early return is reported.
With `gen(payload) != number[k] -> raise`, the character present at k in any valid number is the
generated one, and any other character at k is rejected."""
import ast
import re

from ..common import Report, AnalysisError, src, rel
from ..strabs.model import Program
from ..rawflow import resolve_callee, parents_of
from ..match import strip_doc

GEN = re.compile(r'^calc_check_digits?(_\w+)?$')
ALG = ('stdnum.luhn', 'stdnum.verhoeff', 'stdnum.damm', 'stdnum.iso7064.mod_11_2', 'stdnum.iso7064.mod_11_10', 'stdnum.iso7064.mod_37_2',
       'stdnum.iso7064.mod_37_36', 'stdnum.iso7064.mod_97_10')

# returns of validate() that are reached without a checksum gate, confirmed by reading (module -> {normalised return context: reason})
UNGATED = {
    'stdnum.dk.cpr': 'the CPR check digit is optional since 2007; validate() deliberately does not apply checksum()',
    'stdnum.do.rnc': 'documented whitelist of numbers known to be valid although their check digit is wrong',
    'stdnum.gb.vat': 'government department / health authority numbers (GD/HA + 3 digits) carry no check digits',
    'stdnum.mx.rfc': 'check digits are only verified with validate_check_digits=True (documented option)',
}


def raises_checksum(st):
    return isinstance(st, ast.If) and any(isinstance(x, ast.Raise) and x.exc is not None and 'InvalidChecksum' in src(x.exc) for x in st.body)


class Gates:
    def __init__(self, prog):
        self.prog = prog
        self.cache = {}

    def callees(self, mn, fn, node):
        m = self.prog.mods[mn]
        par = parents_of(fn)
        out = []
        for n in ast.walk(node):
            if isinstance(n, ast.Call):
                for r in resolve_callee(self.prog, m, fn, n, par) or []:
                    if r and r[0] == 'func' and r[1] in self.prog.mods and r[2] in self.prog.mods[r[1]].funcs:
                        out.append((r[1], r[2], n))
        return out

    def has_gate(self, mn, fname, depth=0):
        """Does calling this function always pass a checksum gate on its normal return?  (approximated: it contains one)"""
        key = (mn, fname)
        if key in self.cache:
            return self.cache[key]
        self.cache[key] = False
        fn = self.prog.mods[mn].funcs[fname]
        res = False
        for st in ast.walk(fn):
            if raises_checksum(st):
                res = True
        if not res and depth < 4:
            for tm, tf, _n in self.callees(mn, fn, fn):
                if tf in ('validate', 'is_valid') and tm != mn:
                    res = True
                elif tf not in ('compact', 'clean', 'isdigits') and self.has_gate(tm, tf, depth + 1):
                    res = True
        self.cache[key] = res
        return res

    def stmt_gate(self, mn, fn, st):
        if raises_checksum(st):
            return 'compare'
        node = st.test if isinstance(st, (ast.If, ast.While)) else st
        if isinstance(st, (ast.For, ast.With, ast.Try)):
            return None
        for tm, tf, _n in self.callees(mn, fn, node):
            if tf in ('validate', 'is_valid') and tm != mn:
                return 'delegate %s.%s' % (tm, tf)
            if tm in ALG and tf in ('validate', 'is_valid'):
                return 'delegate %s.%s' % (tm, tf)
            if tf not in ('compact',) and not (tm == mn and tf == fn.name) and self.has_gate(tm, tf):
                return 'helper %s.%s' % (tm, tf)
        return None

    def ungated_returns(self, mn, fn):
        out = []

        def walk(stmts, states):
            """states: set of booleans 'checked' that can reach here; returns the set falling through."""
            for st in stmts:
                if not states:
                    return set()
                if isinstance(st, ast.Return):
                    g = st.value is not None and self.stmt_gate(mn, fn, st)
                    if False in states and not g:
                        out.append(st)
                    return set()
                if isinstance(st, ast.Raise):
                    return set()
                g = self.stmt_gate(mn, fn, st)
                if isinstance(st, ast.If):
                    if g == 'compare':
                        states = {True}
                        continue
                    inner = {True} if g else states      # `if D.is_valid(x): return x` is a delegated gate for its body
                    a = walk(st.body, set(inner))
                    b = walk(st.orelse, set(states)) if st.orelse else set(states)
                    states = a | b
                elif isinstance(st, (ast.For, ast.While)):
                    a = walk(st.body, set(states))
                    states = states | a
                    if st.orelse:
                        states = walk(st.orelse, states)
                elif isinstance(st, ast.With):
                    states = walk(st.body, states)
                elif isinstance(st, ast.Try):
                    a = walk(st.body, set(states))
                    hs = set()
                    for h in st.handlers:
                        hs |= walk(h.body, set(states))
                    states = a | hs
                    if st.orelse:
                        states = walk(st.orelse, states)
                    if st.finalbody:
                        states = walk(st.finalbody, states)
                elif g:
                    states = {True}
            return states
        walk(strip_doc(fn.body), {False})
        return out


def reach(prog, mn, fn, seen=None, depth=0):
    seen = seen if seen is not None else {}
    m = prog.mods[mn]
    par = parents_of(fn)
    for n in ast.walk(fn):
        if isinstance(n, ast.Call):
            for r in resolve_callee(prog, m, fn, n, par) or []:
                if r and r[0] == 'func' and r[1] in prog.mods and r[2] in prog.mods[r[1]].funcs:
                    key = (r[1], r[2])
                    seen.setdefault(key, []).append((mn, fn, n))
                    if len(seen[key]) == 1 and depth < 6:
                        reach(prog, r[1], prog.mods[r[1]].funcs[r[2]], seen, depth + 1)
    return seen


def endswith_width(rep, cfile, cfn, st, gkey):
    """number.endswith(generator(...)) compares as many characters as the generator happens to return: it is the comparison
    of the check position(s) only when every result of the generator has one and the same length."""
    from ..strabs.run import generator_result_lengths
    lens = generator_result_lengths(gkey[0], gkey[1])
    fixed = lens is not None and len(lens) == 1 and lens[0][0] == lens[0][1]
    rep.check(fixed, 'C05.compare', cfile, cfn.name, src(st.test)[:100], st.lineno,
              'the number is compared with endswith() against %s.%s(), whose result is %s: a two-character result such as \'10\' is accepted '
              'when the number happens to end in it, although the check position alone does not match what the generator returns'
              % (gkey[0].replace('stdnum.', ''), gkey[1], 'not always a string' if lens is None else 'a string of %s characters' % ' or '.join(
                  '%s..%s' % l if l[0] != l[1] else str(l[0]) for l in lens)),
              what='%s: endswith() against a generator of fixed width %s' % (src(st.test)[:60], lens))


def padding_invariance(rep, prog, tier):
    """C05.padding: where compact() puts a zero in front of a short number (`number = '0' + number` under a length test) and
    the module offers a public generator, validate() checks p + c as '0' + p + c: generator(p) must equal generator('0' + p),
    i.e. the generator's weighted-sum normal forms at both payload lengths agree position by position counted from the right
    and the extra leading position only adds a multiple of its digit (zero for the padding digit)."""
    from ..strabs.run import get_interp
    from ..strabs.wsnf import normal_form
    I = get_interp()
    D = I.B.cls_of_chars('0123456789')
    n = 0
    for mn in prog.number_modules():
        m = prog.mods[mn]
        cfn = m.funcs.get('compact')
        gens = [g for g in m.funcs if GEN.match(g) and not g.startswith('_')]
        if cfn is None or not gens:
            continue
        pads = []
        for st in ast.walk(cfn):
            if isinstance(st, ast.If) and isinstance(st.test, ast.Compare) and len(st.test.ops) == 1 and isinstance(st.test.ops[0], ast.Eq) \
                    and src(st.test.left) == 'len(%s)' % cfn.args.args[0].arg and isinstance(st.test.comparators[0], ast.Constant):
                for b in st.body:
                    if isinstance(b, ast.Assign) and src(b.value) == "'0' + %s" % cfn.args.args[0].arg:
                        pads.append((st.test.comparators[0].value, st))
        for short, st in pads:
            for g in gens:
                n += 1
                file = rel(m.path)
                # payload lengths: the short number and the padded one, both without the check character
                a = normal_form(I, mn, g, [D] * (short - 1))
                b = normal_form(I, mn, g, [D] * short)
                if a is None or b is None:
                    rep.undecide('C05.padding', '%s %s' % (file, g), 'the generator is not a weighted sum the interpreter can normalise')
                    continue
                same = a.M == b.M and a.const == b.const and a.table == b.table and list(b.weights[1:]) == list(a.weights)
                rep.check(same, 'C05.padding', file, g, '%s with %d and %d digits' % (g, short - 1, short), m.funcs[g].lineno,
                          '%s.compact() pads numbers of %d characters with a leading zero, but %s() weighs a payload of %d digits %s (mod %d) and the same '
                          'digits behind a leading zero %s (mod %d): the check character it returns for the short form is not the one validate() expects'
                          % (mn.replace('stdnum.', ''), short, g, short - 1, list(a.weights), a.M, list(b.weights[1:]), b.M),
                          what='%s.%s: weights %s right-aligned at both lengths' % (mn, g, list(a.weights)))
    return n


def documented_payload(rep, prog):
    """C05.documented-payload: a generator whose docstring says that the number passed should not include the check digit(s) computes
    from every character it is given: neither it nor a generator it hands its whole parameter to may cut trailing characters off
    (`number[:-1]`), otherwise the check character of a payload passed as documented is computed from a truncated payload."""
    n_ = 0

    def trailing_cut(fn, par):
        for x in ast.walk(fn):
            if isinstance(x, ast.Subscript) and isinstance(x.value, ast.Name) and x.value.id == par and isinstance(x.slice, ast.Slice) \
                    and x.slice.lower is None and isinstance(x.slice.upper, ast.UnaryOp) and isinstance(x.slice.upper.op, ast.USub):
                return x
        return None
    for mn in prog.number_modules():
        m = prog.mods[mn]
        for g, fn in sorted(m.funcs.items()):
            if not GEN.match(g) or not fn.args.args:
                continue
            doc = ' '.join((ast.get_docstring(fn) or '').split())
            if 'should not have the check digit' not in doc and 'without the check digit' not in doc:
                continue
            n_ += 1
            par = fn.args.args[0].arg
            cut = trailing_cut(fn, par)
            where = (mn, g)
            if cut is None:
                # delegation of the whole parameter to another generator
                for c in ast.walk(fn):
                    if isinstance(c, ast.Call) and c.args and isinstance(c.args[0], ast.Name) and c.args[0].id == par:
                        r = prog.resolve_expr(m, c.func)
                        if r and r[0] == 'func' and GEN.match(r[2]) and (r[1], r[2]) != (mn, g):
                            dfn = prog.mods[r[1]].funcs[r[2]]
                            if dfn.args.args:
                                cut = trailing_cut(dfn, dfn.args.args[0].arg)
                                if cut is not None:
                                    where = (r[1], r[2])
                                    break
            rep.check(cut is None, 'C05.documented-payload', rel(m.path), g, 'def %s' % g, fn.lineno,
                      '%s.%s() is documented to take the number without its check digit, but %s.%s() drops the last character(s) of what it is given (%s): '
                      'for a payload passed as documented the check character is computed from a truncated payload and the completed number is rejected'
                      % (mn.replace('stdnum.', ''), g, where[0].replace('stdnum.', ''), where[1], src(cut) if cut is not None else ''),
                      what='%s.%s uses every character of the documented payload' % (mn.replace('stdnum.', ''), g))
    return n_


def check(tier):
    rep = Report('C05', tier, level='other',
                 rule_text='call-graph rule (validator reaches the generator), compare-and-raise shape of every generator use on the validation '
                           'path with payload/check-position disjointness, must-pass-through rule for checksum gates on every path of validate()',
                 trusted=['CPython ast', 'callee resolution (sa/rawflow.py, sa/strabs/model.py)'],
                 assumptions=['the arithmetic inside a generator is not inspected here (C06 for the generic algorithms, C17/C07 for the tabled weights)'])
    prog = Program()
    G = Gates(prog)
    nmods = 0
    for mn in prog.number_modules():
        m = prog.mods[mn]
        gens = sorted(g for g in list(m.funcs) + list(m.aliases) if GEN.match(g))
        if not gens or mn in ALG:
            continue
        if mn == 'stdnum.meid':
            rep.undecide('C05.compare', rel(m.path), MEID_NOTE)
            continue
        nmods += 1
        v = prog.resolve_name(m, 'validate')
        vm, vfn = v[1], prog.mods[v[1]].funcs[v[2]]
        file = rel(m.path)
        R = reach(prog, vm, vfn)
        for g in gens:
            r = prog.resolve_name(m, g)
            if not r or r[0] != 'func':
                continue
            gkey = (r[1], r[2])
            if gkey not in R:
                if mn in ('stdnum.iban', 'stdnum.eu.at_02'):
                    sibling_9710(rep, prog, mn, g)
                else:
                    rep.fail('C05.wired', file, g, 'def %s' % g, prog.mods[r[1]].funcs[r[2]].lineno,
                             'validate() never calls %s(): the validator carries its own copy of the check digit rule, agreement is not structural' % g)
                continue
            rep.ok('C05.wired', '%s %s' % (file, g), 'reached from validate()')
            # every call site on the validation path
            sites = R[gkey]
            compared = 0
            for (cm, cfn, call) in sites:
                par = parents_of(cfn)
                # enclosing statement
                node = call
                comp = None
                while node in par:
                    node = par[node]
                    if isinstance(node, ast.Compare) and comp is None:
                        comp = node
                    if isinstance(node, ast.stmt):
                        break
                st = node
                cfile = rel(prog.mods[cm].path)
                if raises_checksum(st) and comp is not None and any(x is call for x in ast.walk(st.test)):
                    compared += 1
                    op = comp.ops[0]
                    sides = [comp.left, comp.comparators[0]]
                    other = [s_ for s_ in sides if not any(x is call for x in ast.walk(s_))]
                    okop = isinstance(op, (ast.NotEq, ast.NotIn)) and len(comp.ops) == 1 and len(other) == 1
                    rep.check(okop, 'C05.compare', cfile, cfn.name, src(comp), st.lineno,
                              'the generated check character is not compared with != / not in against the number')
                    if okop and isinstance(op, ast.NotIn):
                        # `x not in (gen_a(p), gen_b(p))`: the position accepts the results of several rules, so the character the
                        # public generator gives is not the only one validate() accepts
                        side = [s_ for s_ in sides if any(x is call for x in ast.walk(s_))][0]
                        if isinstance(side, (ast.Tuple, ast.List, ast.Set)) and len(side.elts) > 1:
                            rep.fail('C05.compare', cfile, cfn.name, src(comp)[:140], st.lineno,
                                     'the check position is compared with %d alternatives (%s): besides the character %s() generates, validate() accepts '
                                     'the others for the same payload' % (len(side.elts), ', '.join(src(e_)[:40] for e_ in side.elts), g))
                    if okop and isinstance(op, ast.NotIn) and comp.comparators[0] is call:
                        # `x not in gen(p)`: membership in the string the generator returns; that string has to be built from pieces of one
                        # character each (a constant string subscripted by an index, another format's single check character), otherwise a
                        # longer piece (str() of a number that can reach 10) lets every one of its characters pass
                        gfn_ = prog.mods[gkey[0]].funcs[gkey[1]]
                        from ..match import resolve_locals
                        bad_piece = None
                        for r_ in [x for x in ast.walk(gfn_) if isinstance(x, ast.Return) and x.value is not None]:
                            pieces, todo = [], [resolve_locals(gfn_, r_.value)]
                            while todo:
                                e_ = todo.pop()
                                if isinstance(e_, ast.BinOp) and isinstance(e_.op, ast.Add):
                                    todo += [e_.left, e_.right]
                                else:
                                    pieces.append(e_)
                            for e_ in pieces:
                                one = (isinstance(e_, ast.Subscript) and not isinstance(e_.slice, ast.Slice) and isinstance(e_.value, ast.Constant)
                                       and isinstance(e_.value.value, str)) \
                                    or (isinstance(e_, ast.Constant) and isinstance(e_.value, str) and len(e_.value) == 1) \
                                    or (isinstance(e_, ast.Call) and src(e_.func).split('.')[-1] == 'calc_check_digit')
                                if not one:
                                    bad_piece = bad_piece or e_
                        rep.check(bad_piece is None, 'C05.compare', rel(prog.mods[gkey[0]].path), gkey[1], src(comp)[:100], st.lineno,
                                  'validate() accepts any character of the string %s() returns, and the piece `%s` of that string is not one character by '
                                  'construction: when it is longer, each of its characters is accepted in the check position'
                                  % (gkey[1], src(bad_piece)[:50] if bad_piece is not None else ''), what='%s returns single-character pieces' % gkey[1])
                    if okop:
                        disjoint_check(rep, prog, cfile, cfn, call, other[0], st, gkey)
                elif isinstance(st, ast.If) and raises_checksum(st) is False and 'endswith' in src(st.test) and any(
                        isinstance(x, ast.Raise) for x in st.body):
                    compared += 1
                    endswith_width(rep, cfile, cfn, st, gkey)
                elif cfn.name == g or GEN.match(cfn.name) or cfn.name.startswith(('to_', 'from_', 'format', 'convert', 'calc_')) or cm != vm and cfn.name != 'validate':
                    continue        # used to build a number, not to accept one
                elif any('endswith' in src(x) for x in ast.walk(st) if isinstance(x, ast.Call)) and raises_checksum(st):
                    compared += 1
                    endswith_width(rep, cfile, cfn, st, gkey)
            rep.check(compared >= 1, 'C05.compare', file, 'validate', 'uses of %s on the validation path' % g, vfn.lineno,
                      '%s() is reached from validate() but its result is never compared with the number under `raise InvalidChecksum`' % g,
                      what='%s compared at %d site(s)' % (g, compared))
        # must-pass-through
        ung = G.ungated_returns(vm, vfn)
        for st in ung:
            if mn in UNGATED:
                rep.undecide('C05.gate', '%s:%d validate' % (file, st.lineno), 'frozen exception: ' + UNGATED[mn])
            else:
                rep.fail('C05.gate', file, 'validate', src(st) + ' (without a checksum gate)', st.lineno,
                         'a path of validate() returns the number without passing any check digit comparison: every check character is accepted on that path')
        if not ung:
            rep.ok('C05.gate', '%s validate' % file, 'every return is dominated by a checksum gate')
        exemptions(rep, prog, vm, vfn, file, mn)
    npad = padding_invariance(rep, prog, tier)
    if npad < 1:
        rep.error('C05.padding matched no zero-padding compact() with a public generator (gr.vat confirmed on the reference tree)')
    # the eight generic algorithm modules: generator/validator agreement is the GEN clause of the ALG engine (C06)
    from . import c06
    sub = Report('C05', tier)
    c06.analyse(sub, tier)
    gen_total = sub.counts.get('ALG.GEN', 0)
    bad = [f for f in sub.findings if f.rule in ('ALG.GEN', 'ALG.step-total', 'ALG.horner-block')]
    for f in bad:
        rep.fail('C05.generic', f.file, f.func, f.construct, f.line, f.detail)
    rep.obligations += gen_total - len([f for f in bad if f.rule == 'ALG.GEN'])
    rep.discharged += gen_total - len([f for f in bad if f.rule == 'ALG.GEN'])
    rep.counts['C05.generic'] = gen_total
    rep.unit('modules with a public generator', nmods + 8)
    rep.unit('generators with a documented payload convention', documented_payload(rep, prog))
    rep.expect_at_least('C05.wired', 85, 'generators reached from validate()')
    rep.expect_at_least('C05.compare', 85, 'compare-and-raise sites')
    rep.expect_at_least('C05.documented-payload', 8, 'generators whose docstring states the payload convention')
    rep.not_decided = ['arithmetic equality of generator and validator where validate() applies checksum(number) == constant instead of the generator',
                       'frozen un-gated returns: ' + '; '.join('%s (%s)' % kv for kv in UNGATED.items())]
    return rep.finish()


# checksum comparisons that sit under a test of the number's own characters against a constant list (confirmed by reading)
EXEMPT_OK = {
}


def exemptions(rep, prog, vm, vfn, file, mn):
    """C05.gate (exemption): a checksum comparison guarded by `<part of the number> not in <constant list>` (or `!= <constant>`)
    exempts every number on that list from the check digit rule: any check character is accepted for them."""
    m = prog.mods[vm]
    par = parents_of(vfn)
    numvars = {a.arg for a in vfn.args.args[:1]}

    def about_number(e):
        while isinstance(e, ast.Subscript):
            e = e.value
        return isinstance(e, ast.Name) and e.id in numvars

    def constant_list(e):
        if isinstance(e, (ast.Tuple, ast.List, ast.Set)):
            return all(isinstance(x, ast.Constant) for x in e.elts)
        if isinstance(e, ast.Constant) and isinstance(e.value, str):
            return True
        return isinstance(e, ast.Name) and e.id in m.consts and isinstance(m.consts[e.id], (tuple, list, set, frozenset, dict, str))
    for st in ast.walk(vfn):
        if not raises_checksum(st):
            continue
        node = st
        while node in par:
            parent = par[node]
            if isinstance(parent, ast.If) and node is not parent.test:
                inbody = any(node is x for x in parent.body)
                conj = parent.test.values if isinstance(parent.test, ast.BoolOp) and isinstance(parent.test.op, ast.And) else [parent.test]
                for c in conj if inbody else []:
                    if isinstance(c, ast.Compare) and len(c.ops) == 1 and isinstance(c.ops[0], (ast.NotIn, ast.NotEq)) and about_number(c.left) \
                            and constant_list(c.comparators[0]) and isinstance(c.left, (ast.Subscript, ast.Name)) \
                            and not (isinstance(c.left, ast.Subscript) and not isinstance(c.left.slice, ast.Slice) and isinstance(c.ops[0], ast.NotEq)):
                        key = (mn, src(c))
                        if key in EXEMPT_OK:
                            rep.undecide('C05.gate', '%s:%d validate' % (file, parent.lineno), 'frozen exemption: ' + EXEMPT_OK[key])
                        else:
                            rep.fail('C05.gate', file, vfn.name, '%s guards `%s`' % (src(c), src(st.test)[:60]), parent.lineno,
                                     'the check digit comparison only happens when %s: for the numbers on that list every check character is accepted'
                                     % src(c))
            node = parent


def disjoint_check(rep, prog, file, fn, call, other, st, gkey):
    """payload handed to the generator must not contain the compared position (or the generator ignores it)."""
    arg = call.args[0] if call.args else None
    if arg is None:
        return
    a, o = src(arg), src(other)
    iv1 = interval(arg)
    iv2 = interval(other)
    if iv1 and iv2 and iv1[0] == iv2[0]:
        rel_ = relation(iv1, iv2)
        if rel_ == 'disjoint':
            rep.ok('C05.disjoint', '%s:%d %s' % (file, st.lineno, fn.name), 'payload %s, check position %s' % (a, o))
        elif rel_ == 'overlap':
            rep.fail('C05.disjoint', file, fn.name, '%s vs %s' % (a, o), st.lineno,
                     'the payload %s overlaps the compared position %s: the check character takes part in its own computation' % (a, o))
        else:
            rep.undecide('C05.disjoint', '%s:%d %s' % (file, st.lineno, fn.name), 'payload %s and check position %s are measured from different ends; '
                         'their disjointness depends on the length gate' % (a, o))
        return
    # whole number handed over: the generator must slice the check position away itself
    gfn = prog.mods[gkey[0]].funcs[gkey[1]]
    p = gfn.args.args[0].arg if gfn.args.args else None
    # with a fixed length gate before the comparison, every slice the generator takes of its argument is an absolute interval:
    # none may reach into the compared position
    if isinstance(arg, ast.Name) and iv2 and iv2[0] == arg.id and p is not None:
        L = None
        for n in ast.walk(fn):
            if isinstance(n, ast.If) and getattr(n, 'lineno', 0) < st.lineno and isinstance(n.test, ast.Compare) and len(n.test.ops) == 1 \
                    and isinstance(n.test.ops[0], ast.NotEq) and src(n.test.left) == 'len(%s)' % arg.id and isinstance(n.test.comparators[0], ast.Constant) \
                    and isinstance(n.test.comparators[0].value, int) and any(isinstance(x, ast.Raise) for x in n.body):
                L = n.test.comparators[0].value
        rebound = any(isinstance(x, ast.Name) and x.id == p and isinstance(x.ctx, ast.Store) for x in ast.walk(gfn))
        if L is not None and not rebound:
            def absolute(b):
                return b[1] if b[0] == 's' else L + b[1]
            c0, c1 = absolute(iv2[1]), absolute(iv2[2])
            for x in ast.walk(gfn):
                if isinstance(x, ast.Call) and src(x.func) in ('int', 'float') and len(x.args) >= 1 and isinstance(x.args[0], ast.Name) and x.args[0].id == p:
                    rep.fail('C05.disjoint', rel(prog.mods[gkey[0]].path), gkey[1], '%s (compared: %s, length %d)' % (src(x), o, L), x.lineno,
                             'validate() hands the whole %d-character number to %s() and compares the result with %s, but the generator reads %s, the value of '
                             'all its characters including the compared position: for a payload without check digits that value is another one, so the '
                             'digit it generates is not the one validate() accepts' % (L, gkey[1], o, src(x)))
                    return
                if isinstance(x, ast.Subscript) and isinstance(x.value, ast.Name) and x.value.id == p:
                    ivg = interval(x)
                    if ivg is None:
                        continue
                    g0, g1 = absolute(ivg[1]), min(absolute(ivg[2]), L)
                    if g0 < c1 and c0 < g1:
                        rep.fail('C05.disjoint', rel(prog.mods[gkey[0]].path), gkey[1], '%s (compared: %s, length %d)' % (src(x), o, L), x.lineno,
                                 'validate() hands the whole %d-character number to %s() and compares the result with %s, but the generator reads %s, '
                                 'which reaches into the compared position: for a payload without check digits it computes something else than for the '
                                 'full number, so the digits it generates are rejected' % (L, gkey[1], o, src(x)))
                        return
    body = src(gfn)
    sliced = p is not None and (re.search(r'\b%s\[[^\]]*:-\d+\]' % p, body) or re.search(r'\b%s\[:\d+\]' % p, body) or re.search(r'\b%s\[\d+:\d+\]' % p, body)
                                or re.search(r'zip\([^)]*\b%s\b' % p, body) or re.search(r'\b%s = compact\(%s\)' % (p, p), body)
                                or re.search(r'\b%s\[:-\d+\]' % p, body))
    if sliced:
        rep.ok('C05.disjoint', '%s:%d %s' % (file, st.lineno, fn.name), 'generator %s slices / zips its argument itself (%s vs %s)' % (gkey[1], a, o))
    else:
        rep.undecide('C05.disjoint', '%s:%d %s' % (file, st.lineno, fn.name), 'payload %s and compared %s are not slices of one variable and %s() reads its whole argument' % (a, o, gkey[1]))


def interval(e):
    """(variable, (origin, offset) start, (origin, offset) stop) of number[k] / number[a:b]; origin 's' = from start, 'e' = from end."""
    if not isinstance(e, ast.Subscript) or not isinstance(e.value, ast.Name):
        return None

    def bound(n, default):
        if n is None:
            return default
        try:
            v = ast.literal_eval(n)
        except Exception:
            return None
        if not isinstance(v, int):
            return None
        return ('s', v) if v >= 0 else ('e', v)
    if isinstance(e.slice, ast.Slice):
        if e.slice.step is not None:
            return None
        a = bound(e.slice.lower, ('s', 0))
        b = bound(e.slice.upper, ('e', 0))
        if a is None or b is None:
            return None
        return (e.value.id, a, b)
    k = bound(e.slice, None)
    if k is None:
        return None
    stop = (k[0], k[1] + 1)
    if k == ('e', -1):
        stop = ('e', 0)
    return (e.value.id, k, stop)


def relation(i1, i2):
    def le(x, y):
        """x <= y certainly?"""
        if x[0] == y[0]:
            return x[1] <= y[1]
        if x[0] == 's' and y[0] == 'e':
            return None          # depends on the length
        return None
    a1, b1, a2, b2 = i1[1], i1[2], i2[1], i2[2]
    if le(b1, a2) is True or le(b2, a1) is True:
        return 'disjoint'
    if a1[0] == b1[0] == a2[0] == b2[0]:
        return 'overlap'
    if (a1 == a2) or (b1 == b2):
        return 'overlap'
    return 'unknown'


MEID_NOTE = 'MEID: the check digit is optional, validated against two alphabets and stripped by default (the property documents the exception)'


def sibling_9710(rep, prog, mn, g):
    """iban / eu.at_02: validator and generator both go through mod_97_10 with the same rearrangement."""
    m = prog.mods[mn]
    file = rel(m.path)
    vfn = m.funcs['validate']
    gfn = m.funcs[g]
    vcalls = [n for n in ast.walk(vfn) if isinstance(n, ast.Call) and src(n.func) == 'mod_97_10.validate']
    gcalls = [n for n in ast.walk(gfn) if isinstance(n, ast.Call) and src(n.func) == 'mod_97_10.calc_check_digits']
    ok = len(vcalls) == 1 and len(gcalls) == 1
    rep.check(ok, 'C05.wired', file, g, 'mod_97_10 on both sides', gfn.lineno, 'validator and generator do not both delegate to mod_97_10')
    if not ok:
        return
    from ..match import resolve_locals
    va, ga = src(resolve_locals(vfn, vcalls[0].args[0])), src(resolve_locals(gfn, gcalls[0].args[0]))
    if mn == 'stdnum.iban':
        good = va == 'number[4:] + number[:4]' and ga == 'number[4:] + number[:2]'
    else:
        good = '_to_base10(number)' in va and "_to_base10(number)[:-2]" in ga and "''.join((number[:2], '00', number[4:]))" in src(gfn)
    rep.check(good, 'C05.compare', file, g, '%s  /  %s' % (va, ga), gfn.lineno,
              'the generator computes check digits over %s but the validator checks %s: the two rearrangements do not describe the same digits' % (ga, va),
              what='validator %s, generator %s' % (va, ga))
