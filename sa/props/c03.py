"""C03 - the validation outcome depends only on the compact form of the input.

Dependency rule per validate(): while the first parameter still holds the caller's value it may
only be read (a) as the argument of the module's own compact(), or (b) as the argument of a
function (own helper or another module's validate/is_valid) that, recursively, reads it only
through a compact() whose normal form (delete set, strip/case operations, ordered operations,
prefix rules, constant prefix wrapper) equals the normal form of the module's own compact().
If the rule holds, validate(x) is a function of compact(x) by construction."""
import ast

from ..common import Report, AnalysisError, src, rel
from ..strabs.model import Program
from ..rawflow import raw_uses, flatten, compact_nf, nf_equiv, statement_nf, strip_doc
from .. import scope


def resolved(prog, mn, name):
    r = prog.resolve_name(prog.mods[mn], name)
    if r and r[0] == 'func':
        return r[1], prog.mods[r[1]].funcs[r[2]]
    return None, None


def check(tier):
    rep = Report('C03', tier, level='other',
                 rule_text='for every module exposing compact(): every read of validate()\'s raw parameter is (transitively through resolved '
                           'callees) the argument of a compact() whose normal form equals the module\'s own compact(); any other read is a violation',
                 trusted=['CPython ast', 'callee resolution of sa/strabs/model.py', 'str.upper()/strip() commute (no character changes its '
                          'whitespace status under case mapping)'],
                 assumptions=['functions are not rebound at run time (C13)'])
    prog = Program()
    mods = prog.number_modules()
    rep.unit('number modules', len(mods))
    inscope = 0
    for mn in mods:
        cm, cfn = resolved(prog, mn, 'compact')
        if cfn is None:
            continue
        if mn in scope.C03_EXCLUDED_BY_PROPERTY:
            rep.undecide('C03.excluded', mn, 'format excluded by the property statement')
            continue
        vm, vfn = resolved(prog, mn, 'validate')
        if vfn is None:
            continue
        inscope += 1
        file = rel(prog.mods[vm].path)
        own = compact_nf(prog, mn)
        if mn in scope.C03_UNDECIDED:
            rep.undecide('C03.raw-flow', mn, scope.C03_UNDECIDED[mn])
            # validate() and compact() written as siblings: at least the first thing each does with the raw text must be the same cleaning
            firsts = []
            for f_ in (vfn, cfn):
                p_ = f_.args.args[0].arg
                st0 = next((st for st in strip_doc(f_.body) if any(isinstance(n, ast.Name) and n.id == p_ for n in ast.walk(st))), None)
                firsts.append((st0, statement_nf(prog, vm if f_ is vfn else cm, f_, st0) if st0 is not None else None))
            if all(nf is not None for _st, nf in firsts):
                rep.check(nf_equiv(firsts[0][1], firsts[1][1]), 'C03.sibling-cleaning', file, 'validate', src(firsts[0][0]), firsts[0][0].lineno,
                          'validate() starts with `%s` (%s) but compact() with `%s` (%s): inputs with the same compact form can be treated differently'
                          % (src(firsts[0][0]), describe(firsts[0][1]), src(firsts[1][0]), describe(firsts[1][1])),
                          what='%s: validate() and compact() start with the same cleaning' % mn)
            # ... and every further normalisation compact() applies to a part must be applied by validate() too: otherwise two spellings
            # that compact() maps to one string are returned as two different values
            cbody = strip_doc(cfn.body)
            rets = [n for n in ast.walk(cfn) if isinstance(n, ast.Return) and n.value is not None]
            used = {n.id for r_ in rets for n in ast.walk(r_.value) if isinstance(n, ast.Name)}
            vassign = {}
            for st in ast.walk(vfn):
                if isinstance(st, ast.Assign) and len(st.targets) == 1 and isinstance(st.targets[0], ast.Name):
                    vassign.setdefault(st.targets[0].id, set()).add(src(st.value))
            for st in cbody[1:]:
                for a in ast.walk(st):
                    if isinstance(a, ast.Assign) and len(a.targets) == 1 and isinstance(a.targets[0], ast.Name) and a.targets[0].id in used:
                        t_ = a.targets[0].id
                        rep.check(src(a.value) in vassign.get(t_, ()), 'C03.sibling-normalisation', rel(prog.mods[cm].path), 'compact', src(a)[:120], a.lineno,
                                  'compact() normalises the part `%s` (%s) but validate(), which does not go through compact(), has no such step: two inputs with '
                                  'the same compact form are returned as different values' % (t_, src(a.value)[:60]),
                                  what='%s: normalisation of %s present in both' % (mn, t_))
            continue
        leaves = flatten(raw_uses(prog, vm, vfn))
        if not leaves:
            rep.fail('C03.raw-flow', file, 'validate', 'validate(%s)' % vfn.args.args[0].arg, vfn.lineno,
                     'validate() never reads its argument through compact()')
            continue
        for u, chain in leaves:
            where = ' -> '.join('%s.%s' % (a.replace('stdnum.', ''), b) for a, b in chain)
            ctx = src(u.stmt).split(' : ')[0][:140]
            if u.kind == 'compact':
                other = compact_nf(prog, u.target[0], u.target[1])
                ok = nf_equiv(own, other)
                rep.check(ok, 'C03.compact-equivalent', file, 'validate', '%s%s.compact' % ((where + ' -> ') if where else '', u.target[0].replace('stdnum.', '')),
                          u.stmt.lineno,
                          'the raw input reaches %s.compact, whose normal form %s differs from the module\'s own compact %s: inputs with the same '
                          'compact form can be treated differently' % (u.target[0], describe(other), describe(own)),
                          what='%s reads raw input via %s.compact (equivalent)' % (mn, u.target[0]))
            elif u.kind == 'unused':
                rep.ok('C03.raw-flow', '%s:%d validate' % (file, u.stmt.lineno), 'callee %s.%s ignores the argument' % u.target)
            elif u.kind == 'dynamic':
                rep.undecide('C03.raw-flow', '%s:%d' % (file, u.stmt.lineno), u.detail)
            else:
                what = u.detail or ('passed to util.clean() directly' if u.kind == 'clean' else u.kind)
                rep.fail('C03.raw-flow', file, 'validate' + ((' -> ' + where) if where else ''), ctx, u.stmt.lineno,
                         'the raw input is %s%s instead of going through compact(): inputs with the same compact form can be treated differently'
                         % (what, (' in ' + where) if where else ''))
    rep.unit('modules in scope', inscope)
    rep.expect_at_least('C03.compact-equivalent', 200, 'compact() call sites reached by raw input')
    rep.not_decided = ['formats excluded by the property (ISAN, MEID, US SSN/ITIN/EIN/ATIN/TIN)'] + \
                      ['%s: %s' % kv for kv in scope.C03_UNDECIDED.items()]
    return rep.finish()


def describe(nf):
    if nf is None:
        return '<none>'
    if nf[0] == 'nf':
        return '(delete %r, %s%s%s)' % (''.join(sorted(nf[1])), '+'.join(sorted(nf[2])) or '-', (' then ' + '.'.join(nf[3])) if nf[3] else '',
                                        (' rules ' + ' ; '.join(nf[4])[:80]) if len(nf) > 4 and nf[4] else '')
    if nf[0] == 'prefixed':
        return '%r + %s' % (nf[1], describe(nf[2]))
    return '%s.%s' % (nf[1], nf[2])
