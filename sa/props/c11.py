"""C11 - every shipped registry entry is well-formed and usable by its consumer (engine REG).

Per line (all 17 files, ~46,800 lines): grammar of numdb.py matches, the properties part is
completely consumed, ranges have equal-length ordered endpoints, indentation only returns to open
levels, no duplicate property.  Per entry: reachable (not hidden behind a shorter sibling range)
and satisfying the contract of the module that consumes the registry.  Each contract is tied to
an anchor expression in the consumer's syntax tree: if the consumer stops using the key, the
anchor check reports it instead of silently passing."""
import ast
import os
import re

from ..common import Report, REPO, AnalysisError, src
from ..reg import ReaderModel, Registry, registry_files


def load_py(rel):
    path = os.path.join(REPO, rel)
    if not os.path.exists(path):
        raise AnalysisError('%s vanished' % rel)
    with open(path, encoding='utf-8') as fh:
        return ast.parse(fh.read())


def func(tree, name, rel):
    for n in ast.walk(tree):
        if isinstance(n, ast.FunctionDef) and n.name == name:
            return n
    raise AnalysisError('%s: function %s() vanished (anchor of a registry contract)' % (rel, name))


def _alpha(node, keep):
    """Source text of an expression with local variable names replaced by their order of first occurrence."""
    import copy
    n = copy.deepcopy(node)
    seen = {}
    for x in ast.walk(n):
        if isinstance(x, ast.Name) and (x.id not in keep or (x.id.startswith('_') and not x.id.startswith('__'))):
            x.id = seen.setdefault(x.id, '_%d' % len(seen))
    return src(n)


def has_expr(fn, text, tree=None):
    """fn contains the expression `text`, up to a consistent renaming of local variables."""
    import builtins
    if any(isinstance(n, ast.expr) and src(n) == text for n in ast.walk(fn)):
        return True
    keep = set(dir(builtins))
    if tree is not None:
        for st in tree.body:
            if isinstance(st, (ast.FunctionDef, ast.ClassDef)):
                keep.add(st.name)
            elif isinstance(st, ast.Assign):
                keep.update(t.id for t in st.targets if isinstance(t, ast.Name))
            elif isinstance(st, (ast.Import, ast.ImportFrom)):
                keep.update((a.asname or a.name).split('.')[0] for a in st.names)
    # imports inside the function
    for st in ast.walk(fn):
        if isinstance(st, (ast.Import, ast.ImportFrom)):
            keep.update((a.asname or a.name).split('.')[0] for a in st.names)
    want = _alpha(ast.parse(text, mode='eval').body, keep)
    fns = [fn]
    if tree is not None:
        from ..match import reach_private
        fns = reach_private(tree, fn)
    if any(isinstance(n, ast.expr) and (src(n) == text or _alpha(n, keep) == want) for f in fns for n in ast.walk(f)):
        return True
    # the same expression with intermediate results held in locals (or no longer held in locals)
    from ..match import resolve_locals
    for f in fns:
        for n in ast.walk(f):
            if isinstance(n, (ast.UnaryOp, ast.Compare, ast.Subscript, ast.Call)):
                r = resolve_locals(f, n)
                if src(r) == text or _alpha(r, keep) == want:
                    return True
    return False


def anchor(rep, rel, fname, exprs, what):
    """The consumer must still contain one of the anchor expressions; otherwise the contract is stale."""
    tree = load_py(rel)
    if not any(isinstance(n, ast.FunctionDef) and n.name == fname for n in tree.body):
        # the function was renamed: the anchor expression identifies it
        cands = [n for n in tree.body if isinstance(n, ast.FunctionDef) and any(has_expr(n, e, None) for e in exprs)]
        if len(cands) == 1:
            fname = cands[0].name
    fn = func(tree, fname, rel)
    if not any(has_expr(fn, e, tree) for e in exprs):
        raise AnalysisError('%s: %s() no longer contains `%s` - the registry contract "%s" must be re-derived'
                            % (rel, fname, exprs[0], what))
    rep.ok('REG.anchor', '%s:%d %s' % (rel, fn.lineno, fname), '%s  (%s)' % (exprs[0], what))
    return fn


def per_entry(rep, reg, rule, pred, detail, entries=None):
    for e in (reg.entries if entries is None else entries):
        ok = pred(e)
        if ok:
            rep.ok(rule, '%s:%d' % (reg.rel, e.line), e.rng)
        else:
            rep.fail(rule, reg.rel, e.rng + ('' if e.parent is None else ' under ' + e.parent.rng), e.text[:100], e.line, detail(e) if callable(detail) else detail)


def leaf_like(e):
    return True


def contracts(rep, regs, model):
    R = regs

    def nonempty(name, rel, fname, exprs, depth0_only=True):
        anchor(rep, rel, fname, exprs, '%s: empty properties mean "unknown"' % name)
        reg = R[name]
        ents = [e for e in reg.entries if e.depth == 0] if depth0_only else reg.entries
        per_entry(rep, reg, 'REG.consumer-nonempty', lambda e: bool(e.props),
                  'entry has no (non-empty) property as read by numdb: its consumer treats numbers in this range as unknown', ents)

    # --- simple "info()[0][1] must be truthy" consumers
    nonempty('us/ein', 'stdnum/us/ein.py', 'get_campus', ['not results'])
    nonempty('my/bp', 'stdnum/my/nric.py', 'get_birth_place', ['not results'])
    nonempty('cn/loc', 'stdnum/cn/ric.py', 'get_birth_place', ['not results'])
    nonempty('id/loc', 'stdnum/id/nik.py', '_check_registration_place', ['not results'])
    nonempty('at/postleitzahl', 'stdnum/at/postleitzahl.py', 'validate', ['not info(number)'])
    nonempty('be/banks', 'stdnum/be/iban.py', 'validate', ['not info(number)'])
    nonempty('isil', 'stdnum/isil.py', '_is_known_agency', ['bool(results[0][1])'])
    isil_format(rep, R['isil'])
    nonempty('eu/nace', 'stdnum/eu/nace.py', 'info', ['not i'], depth0_only=False)
    nonempty('iban', 'stdnum/iban.py', 'validate', ['not info[0][1]', 'not _ibandb.info(number)[0][1]'])
    # at/fa: validate() compares i.get('office') and rejects when info is empty
    anchor(rep, 'stdnum/at/tin.py', 'validate', ["i.get('office')"], 'at/fa: office name is compared')
    per_entry(rep, R['at/fa'], 'REG.consumer-key', lambda e: bool(e.props.get('office')),
              "tax office entry without a non-empty office=: at.tin.validate(number, office=...) can never accept it")
    # us/ein: results['campus']
    anchor(rep, 'stdnum/us/ein.py', 'get_campus', ["results['campus']"], "us/ein: strict ['campus']")
    per_entry(rep, R['us/ein'], 'REG.consumer-key', lambda e: (not e.props) or 'campus' in e.props,
              "entry has properties but no campus=: get_campus() raises KeyError", [e for e in R['us/ein'].entries if e.depth == 0])
    # eu/nace: info(number)['label'] on the merged dict: every path must provide label at some level
    anchor(rep, 'stdnum/eu/nace.py', 'get_label', ["info(number)['label']"], "eu/nace: strict ['label'] on the merged properties")

    def chain_has_in(reg):
        def chain_has(e, key):
            while e is not None:
                if key in reg.effective(e):
                    return True
                e = e.parent
            return False
        return chain_has
    chain_has = chain_has_in(R['eu/nace'])
    per_entry(rep, R['eu/nace'], 'REG.consumer-key', lambda e: chain_has(e, 'label'), "no label= on this entry or its ancestors: get_label() raises KeyError")
    # cz/banks: 'bank' not in _info(bank) -> InvalidComponent: entries without bank= are unusable
    # the key is read from the gate itself: `'K' not in _info(bank)`, `not _info(bank).get('K')`, `_info(bank).get('K') is None` ...
    czfn = func(load_py('stdnum/cz/bankaccount.py'), 'validate', 'stdnum/cz/bankaccount.py')
    czkeys = []
    for n in ast.walk(czfn):
        if isinstance(n, ast.If) and any(isinstance(b, ast.Raise) for b in n.body) and '_info(' in src(n.test):
            for t in ast.walk(n.test):
                if isinstance(t, ast.Compare) and len(t.ops) == 1 and isinstance(t.ops[0], ast.NotIn) and isinstance(t.left, ast.Constant) \
                        and isinstance(t.left.value, str) and '_info(' in src(t.comparators[0]):
                    czkeys.append((t.left.value, n))
                elif isinstance(t, ast.Call) and isinstance(t.func, ast.Attribute) and t.func.attr == 'get' and '_info(' in src(t.func.value) \
                        and t.args and isinstance(t.args[0], ast.Constant) and isinstance(t.args[0].value, str):
                    czkeys.append((t.args[0].value, n))
                elif isinstance(t, ast.Subscript) and '_info(' in src(t.value) and isinstance(t.slice, ast.Constant) and isinstance(t.slice.value, str):
                    czkeys.append((t.slice.value, n))
    if not czkeys:
        anchor(rep, 'stdnum/cz/bankaccount.py', 'validate', ["'bank' not in _info(bank)"], 'cz/banks: entry must carry bank=')
    chain_has = chain_has_in(R['cz/banks'])
    for czkey, czif in czkeys or [('bank', None)]:
        if czif is not None:
            rep.ok('REG.anchor', 'stdnum/cz/bankaccount.py:%d validate' % czif.lineno, '%s  (cz/banks: entry must carry %s=)' % (src(czif.test), czkey))
        per_entry(rep, R['cz/banks'], 'REG.consumer-key', lambda e: chain_has(e, czkey),
                  'no %s= : cz.bankaccount.validate() (`if %s`) rejects every account of this registered bank code' % (czkey, src(czif.test) if czif is not None else ''))
    # nz/banks: 'bank' not in i or 'branch' not in i -> InvalidComponent
    fn = anchor(rep, 'stdnum/nz/bankaccount.py', 'validate', ["'bank' not in i", "'branch' not in i"], 'nz/banks: bank= and branch= required')
    chain_has = chain_has_in(R['nz/banks'])
    per_entry(rep, R['nz/banks'], 'REG.consumer-key', lambda e: chain_has(e, 'bank') and (chain_has(e, 'branch') or bool(e.children)),
              'leaf without bank=/branch=: every account of this branch is rejected')
    # cfi: properties[found['a']] = found['v'] guarded by 'v' in found
    anchor(rep, 'stdnum/cfi.py', 'info', ["found['a']"], "cfi: entry with v= needs a=")
    per_entry(rep, R['cfi'], 'REG.consumer-key', lambda e: e.depth < 2 or ('v' not in R['cfi'].effective(e)) or ('a' in R['cfi'].effective(e)),
              "attribute entry has v= but no a=: cfi.info()/validate() raise KeyError('a')")
    anchor(rep, 'stdnum/cfi.py', 'info', ['len(info) != 6'], 'cfi: six single-letter levels')
    per_entry(rep, R['cfi'], 'REG.consumer-shape', lambda e: e.length == 1 and e.depth <= 5,
              'cfi entry is not a single letter within six levels: the code can never split into 6 parts')
    # oui: info[-2][1]['o'] - only entries that can be the deepest match need o=
    tree = load_py('stdnum/mac.py')
    fn = func(tree, '_lookup', 'stdnum/mac.py')
    # the query handed to the registry: the whole address, or only a prefix of it (then deeper blocks are never consulted)
    qcalls = [c for c in ast.walk(fn) if isinstance(c, ast.Call) and isinstance(c.func, ast.Attribute) and c.func.attr == 'info'
              and src(c.func.value).replace('"', "'") == "numdb.get('oui')" and len(c.args) == 1]
    if not qcalls:
        raise AnalysisError("stdnum/mac.py: _lookup() no longer queries numdb.get('oui').info(...)")
    for c in qcalls:
        a = c.args[0]
        if isinstance(a, ast.Subscript) and isinstance(a.slice, ast.Slice) and a.slice.lower is None and isinstance(a.slice.upper, ast.Constant) \
                and isinstance(a.slice.upper.value, int) and a.slice.upper.value > 0:
            k = a.slice.upper.value

            def chainlen(e):
                n_ = 0
                while e is not None:
                    n_ += e.length
                    e = e.parent
                return n_
            deep = [e for e in R['oui'].entries if chainlen(e) > k]
            rep.check(not deep, 'REG.consumer-reach', 'stdnum/mac.py', '_lookup', src(c), c.lineno,
                      'the registry is queried with the first %d characters only: %d nested blocks of oui.dat (e.g. line %s) are never consulted, '
                      'addresses in them get no or the wrong manufacturer' % (k, len(deep), deep[0].line if deep else ''),
                      what='query %s reaches every nesting level' % src(a))
    if not has_expr(fn, "info[-2][1]['o']", tree):
        if any(f.rule == 'REG.consumer-reach' for f in rep.findings):
            return
        raise AnalysisError("stdnum/mac.py: _lookup() no longer reads info[-2][1]['o']")
    catches_key = any(isinstance(h, ast.ExceptHandler) and h.type is not None and any(
        src(t) in ('KeyError', 'LookupError', 'Exception') for t in (h.type.elts if isinstance(h.type, ast.Tuple) else [h.type]))
        for h in ast.walk(fn) if isinstance(h, ast.ExceptHandler))
    rep.ok('REG.anchor', 'stdnum/mac.py:%d _lookup' % fn.lineno, "info[-2][1]['o'] (absent key %s)" % ('handled' if catches_key else 'NOT handled'))
    if catches_key:
        per_entry(rep, R['oui'], 'REG.consumer-key', lambda e: 'o' in e.props or bool(e.children),
                  'leaf block without o=: no manufacturer can be returned for it')
    else:
        per_entry(rep, R['oui'], 'REG.consumer-key', lambda e: 'o' in e.props,
                  "block without o= : a MAC address in this block outside its sub-blocks makes _lookup() raise KeyError('o')")
    # iban: structure fully consumed by _struct_re and country codes are two letters
    itree = load_py('stdnum/iban.py')
    struct = None
    from ..strabs.run import get_interp as _gi
    sname = getattr(_gi(), 'iban_struct_name', '_struct_re')
    for n in itree.body:
        if isinstance(n, ast.Assign) and src(n.targets[0]) == sname:
            struct = ast.literal_eval(n.value.args[0])
    if struct is None:
        raise AnalysisError('stdnum/iban.py: the structure pattern %s vanished' % sname)
    # the structure letters iban._struct_to_re() can convert (its expressions evaluated on 1!<letter>, see sa/strabs/interp.py)
    from ..strabs.run import get_interp
    conv_keys = set(get_interp().iban_letters)
    if not conv_keys:
        raise AnalysisError('stdnum/iban.py: _struct_to_re() converts no structure letter the evaluator can follow')
    sre = re.compile(struct)
    whole = re.compile(r'^(?:%s)+$' % struct)

    def bban_ok(e):
        b = e.props.get('bban', '')
        if not whole.match(b):
            return False
        return all(m.group(2) in conv_keys for m in sre.finditer(b))

    def bban_len(e):
        return sum(int(m.group(1)) for m in sre.finditer(e.props.get('bban', '')))
    per_entry(rep, R['iban'], 'REG.consumer-iban', bban_ok,
              lambda e: 'bban=%r is not a sequence of <n>!<n|a|c> items understood by iban._struct_to_re: no account number of this country can validate' % e.props.get('bban'))
    per_entry(rep, R['iban'], 'REG.consumer-iban', lambda e: re.match(r'^[A-Z]{2}$', e.low) is not None and e.low == e.high,
              'IBAN registry key is not a two-letter country code')
    per_entry(rep, R['iban'], 'REG.consumer-iban', lambda e: 1 <= bban_len(e) <= 30,
              lambda e: 'BBAN length %d outside 1..30 (an IBAN has at most 34 characters)' % bban_len(e))
    # length gates of iban.validate() must admit the total length of every registered structure
    from ..minieval import ev, Undecidable
    vfn = func(itree, 'validate', 'stdnum/iban.py')
    numvar = vfn.args.args[0].arg
    gates = []
    for n in ast.walk(vfn):
        if isinstance(n, ast.If) and any(isinstance(x, ast.Raise) for x in n.body) and 'len(%s)' % numvar in src(n.test):
            names = {x.id for x in ast.walk(n.test) if isinstance(x, ast.Name)} - {'len', numvar}
            if not names:
                gates.append(n)
    for e in R['iban'].entries:
        if not bban_ok(e):
            continue
        L = 4 + bban_len(e)
        for g in gates:
            try:
                rejected = bool(ev(g.test, {numvar: 'X' * L}))
            except Undecidable:
                continue
            rep.check(not rejected, 'REG.consumer-iban', R['iban'].rel, e.rng, e.text[:100], e.line,
                      'the registered structure has %d characters, which the gate `%s` of iban.validate() rejects: no IBAN of this country validates'
                      % (L, src(g.test)), what='%s length %d passes `%s`' % (e.rng, L, src(g.test)))
    # isbn: prefix / group / registrant levels, item number never empty
    anchor(rep, 'stdnum/isbn.py', 'split', ['result.pop(0) if result else \'\''], 'isbn: three registry levels + item')
    reg = R['isbn']
    per_entry(rep, reg, 'REG.consumer-isbn', lambda e: e.depth <= 2 and not (e.depth == 2 and e.children),
              'isbn.dat has a fourth nesting level here: isbn.split() keeps four components and silently drops a part of the number')

    def plen(e):
        n = 0
        while e is not None:
            n += e.length
            e = e.parent
        return n
    per_entry(rep, reg, 'REG.consumer-isbn', lambda e: plen(e) <= 11 and e.low.isdigit() and e.high.isdigit() and e.low.isascii(),
              'prefix + group + registrant use up all 12 digits (no room for an item number) or are not ASCII digits')
    # gs1_ai: format / type keys (their grammar and codec coverage is C16)
    anchor(rep, 'stdnum/gs1_128.py', 'info', ["info['format']", "_gs1_aidb.info(number)", "_gs1_aidb.info(number)[0]"], 'gs1_ai: format= and type= required')
    per_entry(rep, R['gs1_ai'], 'REG.consumer-key', lambda e: 'format' in e.props and 'type' in e.props, 'application identifier without format=/type=')
    from . import c16 as _c16
    mxl = _c16.max_length_evaluator()

    def fmt_ok(e):
        v_, _err = mxl(e.props.get('format', ''), e.props.get('type', 'str'))
        return isinstance(v_, int) and v_ > 0
    per_entry(rep, R['gs1_ai'], 'REG.consumer-gs1-format', fmt_ok,
              lambda e: 'format=%r has a component that gs1_128._max_length() does not understand: info()/encode() raise AttributeError for this identifier' % e.props.get('format'))
    per_entry(rep, R['gs1_ai'], 'REG.consumer-shape', lambda e: e.low.isdigit() and e.high.isdigit() and e.low.isascii() and 2 <= e.length <= 4 and e.depth == 0,
              'application identifier is not 2-4 ASCII digits at top level')
    # gs1_ai: every (format, type) pair has a place in the encoder and the decoder (sibling rules shared with C16)
    from . import c16
    sub = c16.new_report(rep.tier, 'C11')
    c16.analyse(sub)
    for f in sub.findings:
        if f.rule in ('C16.type', 'C16.date', 'C16.decimal') and f.file.endswith('gs1_ai.dat'):
            rep.fail('REG.consumer-gs1-codec', f.file, f.func, f.construct, f.line, f.detail)
    rep.obligations += sub.counts.get('C16.date', 0) + sub.counts.get('C16.decimal', 0) + sub.counts.get('C16.type', 0)
    rep.discharged += sub.counts.get('C16.date', 0) + sub.counts.get('C16.decimal', 0) + sub.counts.get('C16.type', 0) - len(
        [f for f in sub.findings if f.rule in ('C16.type', 'C16.date', 'C16.decimal')])
    rep.counts['REG.consumer-gs1-codec'] = sub.counts.get('C16.date', 0) + sub.counts.get('C16.decimal', 0) + sub.counts.get('C16.type', 0)
    # imsi: split()/info() unpack mcc, mnc, msin: two registry levels
    anchor(rep, 'stdnum/imsi.py', 'info', ["numdb.get('imsi').info(number)"], 'imsi: MCC and MNC levels')
    per_entry(rep, R['imsi'], 'REG.consumer-shape', lambda e: e.depth <= 1 and e.low.isdigit() and e.high.isdigit() and e.low.isascii() and e.length + (e.parent.length if e.parent else 0) < 14,
              'IMSI registry entry is not a digit range on the MCC or MNC level that leaves room for a subscriber number')


def isil_format(rep, reg):
    """REG.consumer-isil: the format gates isil.validate() applies before it asks the registry must let `<agency>-1` through for
    every registered agency prefix (the gates are evaluated on that witness with the registry lookup standing for "known")."""
    from ..minieval import run as run_stmts, ev, compiled_patterns, Raised, Undecidable, Unsupported
    from ..match import strip_doc
    tree = load_py('stdnum/isil.py')
    fn = func(tree, 'validate', 'stdnum/isil.py')
    env0 = dict(compiled_patterns(tree))
    for st in tree.body:
        if isinstance(st, ast.Assign) and len(st.targets) == 1 and isinstance(st.targets[0], ast.Name) and st.targets[0].id not in env0:
            try:
                env0[st.targets[0].id] = ev(st.value, dict(env0))
            except (Undecidable, Unsupported):
                pass
    # the registry lookup itself (the private function that asks numdb for 'isil', whatever its name) stands for "known"
    hooks = {'compact': lambda x: x}
    for n_ in tree.body:
        if isinstance(n_, ast.FunctionDef) and any(isinstance(c, ast.Call) and src(c.func).endswith('numdb.get') and c.args
                                                   and isinstance(c.args[0], ast.Constant) and c.args[0].value == 'isil' for c in ast.walk(n_)):
            hooks[n_.name] = lambda *a: True
    if len(hooks) < 2:
        raise AnalysisError("stdnum/isil.py: no function looks the agency up in numdb.get('isil')")
    # the lookup appends a sentinel to the agency (`agency.upper() + '$'`): an entry written without it is found as a prefix of
    # longer agencies only, never as the agency itself
    sentinel = None
    for n_ in tree.body:
        if isinstance(n_, ast.FunctionDef) and n_.name in hooks and n_.name != 'compact':
            for b_ in ast.walk(n_):
                if isinstance(b_, ast.BinOp) and isinstance(b_.op, ast.Add) and isinstance(b_.right, ast.Constant) and isinstance(b_.right.value, str) \
                        and len(b_.right.value) == 1 and not b_.right.value.isalnum():
                    sentinel = b_.right.value
    n = 0
    for e in reg.entries:
        if e.depth != 0 or e.low != e.high or not e.props:
            continue
        if sentinel is not None:
            rep.check(e.low.endswith(sentinel), 'REG.consumer-isil', reg.rel, e.rng, e.text[:100], e.line,
                      'the agency key %r does not end with the sentinel %r that the lookup appends: isil looks up %r and finds more than one part, so the '
                      'agency counts as unknown' % (e.low, sentinel, e.low + sentinel), what='key %s ends with %s' % (e.low, sentinel))
        agency = e.low[:-1] if e.low.endswith('$') else e.low
        witness = agency + '-1'
        env = dict(env0)
        env[fn.args.args[0].arg] = witness
        verdict = None
        try:
            out = run_stmts(strip_doc(fn.body), env, hooks)
            verdict = None if out == witness else 'returns %r' % (out,)
        except Raised as r:
            verdict = 'raises %s' % r.name
        except Unsupported as ex:
            raise AnalysisError('stdnum/isil.py:%d validate() uses a construct the evaluator does not know: %s' % (fn.lineno, ex))
        except Undecidable as ex:
            verdict = 'is not defined (%s)' % ex
        n += 1
        rep.check(verdict is None, 'REG.consumer-isil', reg.rel, e.rng, e.text[:100], e.line,
                  'isil.validate(%r) %s before the registry is asked: no ISIL of the registered agency %r can be accepted' % (witness, verdict, agency),
                  what='agency %s passes the format gates of isil.validate()' % agency)
    if n < 20:
        raise AnalysisError('isil.dat: only %d agency entries found' % n)


def consumer_tables(rep, regs):
    """A consumer that rejects (or indexes strictly) by a prefix of the number against a module-level constant table
    `if number[:k] not in TABLE: raise` / `TABLE[number[:k]]` must know every top-level prefix of the registry it reads:
    otherwise registered entries can never be accepted."""
    from ..strabs.model import Program
    from ..common import rel
    prog = Program()
    scanned = 0
    for mn in sorted(prog.mods):
        m = prog.mods[mn]
        names = set()
        for n in ast.walk(m.tree):
            if isinstance(n, ast.Call) and isinstance(n.func, ast.Attribute) and n.func.attr == 'get' and src(n.func.value) == 'numdb' \
                    and n.args and isinstance(n.args[0], ast.Constant) and isinstance(n.args[0].value, str):
                names.add(n.args[0].value)
        names &= set(regs)
        if not names:
            continue
        scanned += 1

        def table(node):
            if isinstance(node, ast.Name) and node.id in m.consts and isinstance(m.consts[node.id], (dict, set, frozenset, tuple, list)):
                keys = set(m.consts[node.id])
                if keys and all(isinstance(k, str) for k in keys) and len({len(k) for k in keys}) == 1:
                    return node.id, keys
            return None, None

        def prefix(node):
            if isinstance(node, ast.Subscript) and isinstance(node.slice, ast.Slice) and node.slice.lower is None and node.slice.step is None \
                    and isinstance(node.slice.upper, ast.Constant) and isinstance(node.slice.upper.value, int) and node.slice.upper.value > 0 \
                    and isinstance(node.value, ast.Name):
                return node.slice.upper.value
            return None
        sites = []
        for fn in m.funcs.values():
            for n in ast.walk(fn):
                if isinstance(n, ast.If) and isinstance(n.test, ast.Compare) and len(n.test.ops) == 1 and isinstance(n.test.ops[0], ast.NotIn) \
                        and any(isinstance(b, ast.Raise) for b in n.body):
                    k, (tn, keys) = prefix(n.test.left), table(n.test.comparators[0])
                    if k and keys and len(next(iter(keys))) == k:
                        sites.append((fn, n, k, tn, keys, 'rejects'))
                if isinstance(n, ast.If) and isinstance(n.test, ast.Compare) and len(n.test.ops) == 1 and isinstance(n.test.ops[0], ast.In):
                    # `if number[:k] in TABLE: <registry lookup>` with no lookup on the other branch
                    def looks_up(stmts):
                        return any(isinstance(c, ast.Call) and isinstance(c.func, ast.Attribute) and c.func.attr in ('info', 'split')
                                   for st in stmts for c in ast.walk(st))
                    k, (tn, keys) = prefix(n.test.left), table(n.test.comparators[0])
                    if k and keys and len(next(iter(keys))) == k and looks_up(n.body) and not looks_up(n.orelse):
                        sites.append((fn, n, k, tn, keys, 'skips the registry lookup for'))
                if isinstance(n, ast.Subscript) and isinstance(n.ctx, ast.Load) and not isinstance(n.slice, ast.Slice):
                    k, (tn, keys) = prefix(n.slice), table(n.value)
                    if k and keys and len(next(iter(keys))) == k:
                        sites.append((fn, n, k, tn, keys, 'raises KeyError for'))
        for fn, n, k, tn, keys, verb in sites:
            for name in sorted(names):
                reg = regs[name]
                for e in reg.entries:
                    if e.depth != 0 or e.length < k:
                        continue
                    lo, hi = e.low[:k], e.high[:k]
                    missing = None
                    if lo == hi:
                        missing = None if lo in keys else lo
                    elif lo.isdigit() and hi.isdigit() and lo.isascii() and hi.isascii():
                        missing = next((str(v).zfill(k) for v in range(int(lo), int(hi) + 1) if str(v).zfill(k) not in keys), None)
                    if missing is None:
                        rep.ok('REG.consumer-table', '%s:%d %s' % (reg.rel, e.line, e.rng), 'prefix known to %s.%s' % (mn.replace('stdnum.', ''), tn))
                    else:
                        rep.fail('REG.consumer-table', reg.rel, e.rng, e.text[:100], e.line,
                                 '%s.%s (line %d) %s every number whose first %d characters are not a key of %s, and %r is not: '
                                 'no number of this registered entry can be accepted'
                                 % (mn.replace('stdnum.', ''), fn.name, n.lineno, verb, k, tn, missing))
    rep.unit('registry consumer modules scanned for prefix tables', scanned)
    if scanned < 10:
        raise AnalysisError('only %d registry consumer modules found (expected at least 10)' % scanned)


def _utf8(node):
    return isinstance(node, ast.Constant) and isinstance(node.value, str) and node.value.lower().replace('_', '-') in ('utf-8', 'utf8', 'utf-8-sig')


def encoding_rule(rep):
    """REG.encoding: the registry files are UTF-8 (ReaderModel reads them so) and many entries are not ASCII; numdb must decode them as
    UTF-8 whatever the locale of the process: every stream it opens is either binary and decoded by an explicit UTF-8 reader, or text
    with encoding='utf-8'."""
    rel_ = 'stdnum/numdb.py'
    tree = load_py(rel_)
    opens = []
    decoders = []
    for n in ast.walk(tree):
        if not isinstance(n, ast.Call):
            continue
        name = n.func.attr if isinstance(n.func, ast.Attribute) else (n.func.id if isinstance(n.func, ast.Name) else '')
        kw = {k.arg: k.value for k in n.keywords if k.arg}
        if name in ('open', 'open_text', 'open_binary', 'resource_stream', 'read_text', 'read_binary', 'TextIOWrapper'):
            modes = [a.value for a in list(n.args) + [kw[k] for k in kw if k == 'mode'] if isinstance(a, ast.Constant) and isinstance(a.value, str)
                     and a.value and set(a.value) <= set('rwabtx+')]
            binary = name in ('resource_stream', 'open_binary', 'read_binary') or any('b' in m_ for m_ in modes)
            if name == 'TextIOWrapper':
                binary = False
            opens.append((n, name, binary, _utf8(kw.get('encoding')) or (name == 'TextIOWrapper' and len(n.args) > 1 and _utf8(n.args[1]))))
        if name in ('getreader', 'decode', 'getdecoder', 'getincrementaldecoder', 'lookup') and n.args and _utf8(n.args[0]):
            decoders.append(n)
        if name == 'decode' and _utf8(kw.get('encoding')):
            decoders.append(n)
    if not opens:
        raise AnalysisError('numdb.py opens no registry stream that the encoding rule recognises')
    for n, name, binary, enc in opens:
        if binary:
            rep.check(bool(decoders), 'REG.encoding', rel_, '-', src(n), n.lineno,
                      'numdb opens the registry as bytes here but nothing in numdb.py decodes it with an explicit UTF-8 reader: the non-ASCII entries '
                      'are not returned as written', what='binary stream, decoded by %s' % (src(decoders[0]) if decoders else '-'))
        else:
            rep.check(enc, 'REG.encoding', rel_, '-', src(n), n.lineno,
                      'numdb opens the registry as text without encoding=\'utf-8\': the files are UTF-8 and are then decoded with the locale\'s '
                      'encoding, so under a non-UTF-8 locale the registries with non-ASCII entries fail to load or return other text',
                      what='text stream with encoding utf-8')
    return len(opens)


KNOWN_REGISTRIES = ['at/fa', 'at/postleitzahl', 'be/banks', 'cfi', 'cn/loc', 'cz/banks', 'eu/nace', 'gs1_ai', 'iban', 'id/loc', 'imsi',
                    'isbn', 'isil', 'my/bp', 'nz/banks', 'oui', 'us/ein']


def check(tier):
    rep = Report('C11', tier, level='other',
                 rule_text='strict re-reading of every registry line with the grammar extracted from numdb.py (full consumption of the '
                           'properties text, range well-formedness, nesting, duplicates), reachability of every entry, and per-consumer '
                           'contracts (keys, shapes, IBAN structure grammar, ISBN levels, GS1 format grammar) anchored in the consumer ASTs',
                 trusted=['CPython ast/re', 'sa/reg.py reader model (mirrors numdb.read; layout agreement checked by C10)'],
                 assumptions=['registry contents are compared with their consumers, not with the external sources they were generated from'])
    model = ReaderModel()
    regs = {}
    files = registry_files()
    for path in files:
        reg = Registry(model, path)
        regs[reg.name] = reg
        rep.unit('registry lines', reg.lines)
        rep.unit('registry entries', len(reg.entries))
        probs = {}
        for rule, line, text, detail in reg.problems:
            probs.setdefault(line, []).append((rule, text, detail))
            rep.fail(rule, reg.rel, '-', text[:120], line, detail)
        # one discharged obligation per clean line and rule family
        clean = reg.lines - len(probs)
        for _ in range(1):
            rep.obligations += clean
            rep.discharged += clean
            rep.counts['REG.line-wellformed'] = rep.counts.get('REG.line-wellformed', 0) + clean
        rep.keys.add(('REG.line-wellformed', reg.rel, clean))
        rep.samples.append({'rule': 'REG.line-wellformed', 'where': reg.rel, 'what': '%d lines fully tokenised, ranges ordered, nesting consistent' % clean, 'verdict': 'holds'})
        for e, s in reg.shadowed():
            rep.fail('REG.reachable', reg.rel, e.rng + ('' if e.parent is None else ' under ' + e.parent.rng), e.text[:100], e.line,
                     'entry can never be returned: the shorter sibling range %s (line %d) matches first for every number in %s' % (s.rng, s.line, e.rng))
        n_ok = len(reg.entries) - len(reg.shadowed())
        rep.obligations += n_ok
        rep.discharged += n_ok
        rep.counts['REG.reachable'] = rep.counts.get('REG.reachable', 0) + n_ok
    missing = [n for n in KNOWN_REGISTRIES if n not in regs]
    if missing:
        raise AnalysisError('registry files vanished: %s' % missing)
    for n in regs:
        if n not in KNOWN_REGISTRIES:
            rep.undecide('REG.consumer', regs[n].rel, 'registry without a consumer contract in sa/props/c11.py')
    contracts(rep, regs, model)
    consumer_tables(rep, regs)
    rep.unit("streams opened by numdb", encoding_rule(rep))
    rep.expect_at_least('REG.line-wellformed', 46000, 'registry lines')
    rep.expect_at_least('REG.consumer-key', 30000, 'consumer key obligations')
    rep.not_decided = ['agreement of the registry contents with the external sources (ISO, IEEE, Wikipedia, ...)',
                       'value-level round trips of GS1 values (C16)']
    return rep.finish()
