"""C12 - derived attributes are total and consistent on valid numbers.

STRABS: every public get_* / info / split function with one required parameter is analysed
under the post-condition of validate() (each return path of validate(), bounded variable lengths
specialised per length, ASCII spellings):
 C12.total   only ValidationError may escape (partial operations proven safe or absorbed;
             registry keys decided on the registry data);
 C12.kind    get_birth_date returns a date (or None where the format has unknown dates),
             get_gender returns 'M' or 'F' (or None), get_birth_year/month an int (or None);
 C12.split   the parts returned by split() are the positions of the canonical number, in order,
             each exactly once."""
from ..common import Report, rel
from .. import scope
from .c01 import registry_holds

KINDS = {
    'get_birth_date': {'date', 'None'},
    'get_birth_year': {'int', 'None'},
    'get_birth_month': {'int', 'None'},
}


def check(tier):
    from ..strabs.run import analyse_functions, get_interp
    from ..reg import ReaderModel, Registry, registry_files
    rep = Report('C12', tier, level='other',
                 rule_text='abstract interpretation of every get_*/info/split function started from the accepted language of validate(); '
                           'exception kinds, result kinds, gender constants, split tiling',
                 trusted=['models of builtins/str methods in sa/strabs', 'calendar.monthrange(y, m)[1] >= d >= 1 makes date(y, m, d) valid'],
                 assumptions=['decided for ASCII spellings; option parameters take their defaults', 'agreement of a returned date with the digits is not decided'])
    I = get_interp()
    prog = I.prog
    res = analyse_functions()
    regs = {}
    nfun = 0
    for mn in sorted(res):
        r = res[mn]
        if r['crash']:
            rep.error('STRABS crashed on %s: %s' % (mn, r['crash'][-200:].replace('\n', ' | ')))
            continue
        for name, rec in sorted(r['functions'].items()):
            if name == 'format' or name.startswith('to_'):
                continue
            nfun += 1
            file, line = rec['where']
            bad = False
            for a in rec['alarms']:
                key = '%s|%s|%s' % (a['module'], a['func'], a['construct'])
                if a.get('reg'):
                    if not regs:
                        model = ReaderModel()
                        for p in registry_files():
                            g = Registry(model, p)
                            regs[g.name] = g
                    rname, rkey, given = a['reg']
                    ok, why = registry_holds(regs, rname, rkey, given)
                    if ok is not None:
                        rep.check(ok, 'C12.registry', a['file'], a['func'], "%s[%r]" % (rname, rkey), a['line'],
                                  '%s() reads property %r of registry %s and %s' % (name, rkey, rname, why), what='%s: every reachable entry has %r' % (rname, rkey))
                    continue
                if key in scope.C12_UNDECIDED_SINKS or mn in ('stdnum.de.stnr', 'stdnum.gs1_128'):
                    rep.undecide('C12.total', '%s:%d %s' % (a['file'], a['line'], a['func']),
                                 scope.C12_UNDECIDED_SINKS.get(key, scope._STNR if mn == 'stdnum.de.stnr' else scope._REBUILD))
                    bad = True
                    continue
                bad = True
                rep.fail('C12.total:%s' % a['kind'], a['file'], a['func'], a['construct'], a['line'],
                         '%s may escape %s.%s() on an accepted number (%s): %s' % (a['kind'], mn.replace('stdnum.', ''), name, a.get('input', ''), a['why']))
            if not bad:
                rep.ok('C12.total', '%s:%d %s' % (file, line, name), '%d paths from the accepted language of %s.validate()' % (rec['paths'], mn.replace('stdnum.', '')))
            if name in KINDS and rec['paths']:
                extra = set(rec['kinds']) - KINDS[name]
                flat = set()
                for k in rec['kinds']:
                    flat |= set(k.split('|'))
                extra = flat - KINDS[name]
                rep.check(not extra, 'C12.kind', file, name, 'result kinds %s' % sorted(flat), line,
                          '%s.%s() can return %s' % (mn.replace('stdnum.', ''), name, sorted(extra)), what='%s returns %s' % (name, sorted(flat)))
            if name == 'get_gender' and rec['paths']:
                vals = set()
                for g in rec['genders']:
                    vals |= set(g.split(','))
                extra = vals - {'M', 'F', 'None', 'none'}
                rep.check(not extra, 'C12.kind', file, name, 'gender values %s' % sorted(vals), line,
                          '%s.get_gender() can return %s' % (mn.replace('stdnum.', ''), sorted(extra)), what='gender values %s' % sorted(vals))
            if name == 'split':
                if rec['tilings'] and not rec['tiling_problems']:
                    rep.ok('C12.split', '%s:%d split' % (file, line), '%d accepted shapes: the parts are the positions of the number in order' % rec['tilings'])
                elif rec['tiling_problems'] and mn not in scope.C04_UNDECIDED:
                    rep.fail('C12.split', file, 'split', 'parts concatenate to the number', line, rec['tiling_problems'][0])
                else:
                    rep.undecide('C12.split', '%s:%d' % (file, line), scope.C04_UNDECIDED.get(mn, 'split result is not a tuple of fixed-length strings'))
    rep.unit('functions', nfun)
    rep.expect_at_least('C12.total', 60, 'getter functions')
    rep.not_decided = ['that a returned date equals what the digits mean', 'functions with more than one required parameter'] + \
                      ['%s: %s' % kv for kv in sorted(scope.C12_UNDECIDED_SINKS.items())]
    return rep.finish()
