"""C12 - derived attributes are total and consistent on valid numbers.

STRABS: every public get_* / info / split function with one required parameter is analysed
under the post-condition of validate() (each return path of validate(), bounded variable lengths
specialised per length, ASCII spellings):
 C12.total   only ValidationError may escape (partial operations proven safe or absorbed;
             registry keys decided on the registry data);
 C12.kind    get_birth_date returns a date (or None where the format has unknown dates),
             get_gender returns 'M' or 'F' (or None), get_birth_year/month an int (or None);
 C12.split   the parts returned by split() are the positions of the canonical number, in order,
             each exactly once.
 C12.compact-first  the getters are analysed from the canonical form, but validate() also accepts spellings with separators and
             surrounding blanks; a getter therefore has to normalise its argument before it looks at positions: no subscript of
             the raw parameter before it is rebound (`number = compact(number)` / `number = validate(number)`)."""
import ast

from ..common import Report, rel, src
from .. import scope
from .c01 import registry_holds

KINDS = {
    'get_birth_date': {'date', 'None'},
    'get_birth_year': {'int', 'None'},
    'get_birth_month': {'int', 'None'},
}


def int_cuts(fn):
    """(subject text, cut, comparison) for every comparison of int(<expr>) with an integer constant: `x >= k` / `x < k` cut
    the integers between k-1 and k, `x > k` / `x <= k` between k and k+1."""
    import ast
    out = []
    for n in ast.walk(fn):
        if not isinstance(n, ast.Compare):
            continue
        terms = [n.left] + list(n.comparators)
        for l, op, r in zip(terms, n.ops, terms[1:]):
            for subj, const, flip in ((l, r, False), (r, l, True)):
                if isinstance(const, ast.Constant) and type(const.value) is int and isinstance(subj, ast.Call) and src(subj.func) == 'int':
                    o = type(op).__name__
                    if flip:
                        o = {'Lt': 'Gt', 'LtE': 'GtE', 'Gt': 'Lt', 'GtE': 'LtE'}.get(o, o)
                    c = {'Lt': const.value, 'GtE': const.value, 'LtE': const.value + 1, 'Gt': const.value + 1}.get(o)
                    if c is not None:
                        out.append((src(subj), c, n))
    return out


def thresholds(rep, prog):
    """C12.threshold: a getter that splits a numeric field of the number at a constant splits it where validate() of the
    same module does: the classes of values a getter distinguishes are unions of the classes validate() distinguishes
    (be.bis: months 20..32 / 40..52 in validate(), gender known from 40 on)."""
    n = 0
    for mn in prog.number_modules():
        m = prog.mods[mn]
        if 'validate' not in m.funcs:
            continue
        vc = {}
        for name, fn in m.funcs.items():
            if name == 'validate' or name.startswith('_'):
                for s_, c, _n in int_cuts(fn):
                    vc.setdefault(s_, set()).add(c)
        # a wrapper over other formats (be.ssn over be.nn / be.bis) distinguishes what its constituents distinguish
        nm = set(prog.number_modules())
        for imp in sorted({x.id for x in ast.walk(m.tree) if isinstance(x, ast.Name)}):
            r = prog.resolve_name(m, imp)
            if r and r[0] == 'mod' and r[1] in nm and r[1] != mn:
                for name, fn in prog.mods[r[1]].funcs.items():
                    if name == 'validate' or name.startswith('_'):
                        for s_, c, _n in int_cuts(fn):
                            vc.setdefault(s_, set()).add(c)
        for name, fn in m.funcs.items():
            if name.startswith('_') or name in ('validate', 'is_valid', 'compact', 'format') or name.startswith('calc_'):
                continue
            for s_, c, node in int_cuts(fn):
                if s_ not in vc:
                    continue
                n += 1
                rep.check(c in vc[s_], 'C12.threshold', rel(m.path), name, src(node), node.lineno,
                          '%s.%s() splits %s between %d and %d, validate() distinguishes this field only at %s: values on the wrong side of the '
                          'getter\'s boundary are accepted by validate() but classified differently'
                          % (mn.replace('stdnum.', ''), name, s_, c - 1, c, sorted('%d|%d' % (x - 1, x) for x in vc[s_])),
                          what='%s.%s: %s cut at %d|%d' % (mn, name, s_, c - 1, c))
    return n


def range_cuts(rep, prog):
    """C12.range-cut: a split that looks a field up in a constant table of (length, low, high) rows compares `low <= field <= high`
    as strings; that is the numeric order only when the field is cut to the width of the bounds.  An uncut remainder that starts
    with the upper bound is longer than it and compares greater: the last code of every range falls through the table."""
    from ..match import resolve_locals
    from ..minieval import ev, Undecidable
    n = 0
    for mn in prog.number_modules():
        m = prog.mods[mn]
        for name, fn in m.funcs.items():
            for loop in ast.walk(fn):
                if not (isinstance(loop, ast.For) and isinstance(loop.target, ast.Tuple) and isinstance(loop.iter, ast.Name)
                        and all(isinstance(e, ast.Name) for e in loop.target.elts)):
                    continue
                table = m.consts.get(loop.iter.id)
                tv = [e.id for e in loop.target.elts]
                if not (isinstance(table, (tuple, list)) and table and all(isinstance(r, (tuple, list)) and len(r) == len(tv) for r in table)):
                    continue
                for c in ast.walk(loop):
                    if not (isinstance(c, ast.Compare) and len(c.ops) == 2 and all(isinstance(o, (ast.LtE, ast.Lt)) for o in c.ops)
                            and isinstance(c.left, ast.Name) and c.left.id in tv and isinstance(c.comparators[1], ast.Name) and c.comparators[1].id in tv):
                        continue
                    lo_i, hi_i = tv.index(c.left.id), tv.index(c.comparators[1].id)
                    if not all(isinstance(r[lo_i], str) and isinstance(r[hi_i], str) for r in table):
                        continue
                    field = resolve_locals(fn, c.comparators[0])
                    bad = None
                    for r in table:
                        env = dict(zip(tv, r))
                        w = None
                        if isinstance(field, ast.Subscript) and isinstance(field.slice, ast.Slice) and field.slice.step is None and field.slice.upper is not None:
                            try:
                                a = ev(field.slice.lower, env) if field.slice.lower is not None else 0
                                b = ev(field.slice.upper, env)
                                if isinstance(a, int) and isinstance(b, int) and 0 <= a <= b:
                                    w = b - a
                            except Undecidable:
                                w = None
                        if w is None or w != len(r[lo_i]) or w != len(r[hi_i]):
                            bad = (r, w)
                            break
                    n += 1
                    rep.check(bad is None, 'C12.range-cut', rel(m.path), name, src(c), c.lineno,
                              '%s is compared with the bounds of row %r as %s: string order agrees with the numeric order of the field only when it is cut to the '
                              '%d characters of the bounds; a number whose field equals the upper bound (followed by more digits) matches no row and %s() '
                              'returns nothing for it' % (src(c.comparators[0]), (bad or ((), 0))[0],
                                                          'a slice of %s characters' % bad[1] if bad and bad[1] is not None else 'an uncut remainder',
                                                          len(bad[0][lo_i]) if bad else 0, name),
                              what='%s.%s: %s cut to the width of every row of %s' % (mn, name, src(c.comparators[0]), loop.iter.id))
    return n


def compact_first(rep, prog):
    n_ = 0
    for mn in prog.number_modules():
        m = prog.mods[mn]
        for name, fn in sorted(m.funcs.items()):
            if not (name.startswith('get_') or name in ('info', 'split')) or not fn.args.args:
                continue
            par = fn.args.args[0].arg
            stores = [(x.lineno, x.col_offset) for x in ast.walk(fn) if isinstance(x, ast.Name) and x.id == par and isinstance(x.ctx, ast.Store)]
            first = min(stores) if stores else None
            # the statement that rebinds the parameter evaluates its right-hand side first
            rebinding = [st for st in ast.walk(fn) if isinstance(st, ast.Assign) and any(isinstance(t, ast.Name) and t.id == par for t in st.targets)]
            first_end = min([(st.end_lineno, st.end_col_offset) for st in rebinding], default=None)
            early = []
            for x in ast.walk(fn):
                if isinstance(x, ast.Subscript) and isinstance(x.value, ast.Name) and x.value.id == par:
                    if first_end is None or (x.lineno, x.col_offset) <= first_end:
                        early.append(x)
            n_ += 1
            rep.check(not early, 'C12.compact-first', rel(m.path), name, src(early[0]) if early else par, early[0].lineno if early else fn.lineno,
                      '%s.%s() reads positions of its raw argument (%s) %s: for a valid number written with separators or surrounding blanks, which '
                      'validate() accepts, these are other characters than in the canonical form'
                      % (mn.replace('stdnum.', ''), name, src(early[0]) if early else '', 'before it is rebound to the compact form' if first else 'and never compacts it'),
                      what='%s.%s: no subscript of the raw parameter before it is normalised' % (mn.replace('stdnum.', ''), name))
    return n_


def check(tier):
    from ..strabs.run import analyse_functions, get_interp
    from ..reg import ReaderModel, Registry, registry_files
    rep = Report('C12', tier, level='other',
                 rule_text='abstract interpretation of every get_*/info/split function started from the accepted language of validate(); '
                           'exception kinds, result kinds, gender constants, split tiling',
                 trusted=['models of builtins/str methods in sa/strabs', 'calendar.monthrange(y, m)[1] >= d >= 1 makes date(y, m, d) valid'],
                 assumptions=['decided for ASCII spellings; option parameters take their defaults', 'agreement of a returned date with the digits is not decided'])
    I = get_interp()
    prog = I.prog
    res = analyse_functions()
    regs = {}
    nfun = 0
    for mn in sorted(res):
        r = res[mn]
        if r['crash']:
            rep.error('STRABS crashed on %s: %s' % (mn, r['crash'][-200:].replace('\n', ' | ')))
            continue
        for name, rec in sorted(r['functions'].items()):
            if name == 'format' or name.startswith('to_'):
                continue
            nfun += 1
            file, line = rec['where']
            bad = False
            for a in rec['alarms']:
                key = '%s|%s|%s' % (a['module'], a['func'], a['construct'])
                if a.get('reg'):
                    if not regs:
                        model = ReaderModel()
                        for p in registry_files():
                            g = Registry(model, p)
                            regs[g.name] = g
                    rname, rkey, given = a['reg']
                    ok, why = registry_holds(regs, rname, rkey, given)
                    if ok is not None:
                        rep.check(ok, 'C12.registry', a['file'], a['func'], "%s[%r]" % (rname, rkey), a['line'],
                                  '%s() reads property %r of registry %s and %s' % (name, rkey, rname, why), what='%s: every reachable entry has %r' % (rname, rkey))
                    continue
                if key in scope.C12_UNDECIDED_SINKS or mn in ('stdnum.de.stnr', 'stdnum.gs1_128'):
                    rep.undecide('C12.total', '%s:%d %s' % (a['file'], a['line'], a['func']),
                                 scope.C12_UNDECIDED_SINKS.get(key, scope._STNR if mn == 'stdnum.de.stnr' else scope._REBUILD))
                    bad = True
                    continue
                bad = True
                rep.fail('C12.total:%s' % a['kind'], a['file'], a['func'], a['construct'], a['line'],
                         '%s may escape %s.%s() on an accepted number (%s): %s' % (a['kind'], mn.replace('stdnum.', ''), name, a.get('input', ''), a['why']))
            if not bad:
                rep.ok('C12.total', '%s:%d %s' % (file, line, name), '%d paths from the accepted language of %s.validate()' % (rec['paths'], mn.replace('stdnum.', '')))
            if name in KINDS and rec['paths']:
                extra = set(rec['kinds']) - KINDS[name]
                flat = set()
                for k in rec['kinds']:
                    flat |= set(k.split('|'))
                extra = flat - KINDS[name]
                rep.check(not extra, 'C12.kind', file, name, 'result kinds %s' % sorted(flat), line,
                          '%s.%s() can return %s' % (mn.replace('stdnum.', ''), name, sorted(extra)), what='%s returns %s' % (name, sorted(flat)))
            if name == 'get_gender' and rec['paths']:
                vals = set()
                for g in rec['genders']:
                    vals |= set(g.split(','))
                extra = vals - {'M', 'F', 'None', 'none'}
                rep.check(not extra, 'C12.kind', file, name, 'gender values %s' % sorted(vals), line,
                          '%s.get_gender() can return %s' % (mn.replace('stdnum.', ''), sorted(extra)), what='gender values %s' % sorted(vals))
            if name == 'split':
                if rec['tilings'] and not rec['tiling_problems']:
                    rep.ok('C12.split', '%s:%d split' % (file, line), '%d accepted shapes: the parts are the positions of the number in order' % rec['tilings'])
                elif rec['tiling_problems'] and mn not in scope.C04_UNDECIDED:
                    rep.fail('C12.split', file, 'split', 'parts concatenate to the number', line, rec['tiling_problems'][0])
                else:
                    rep.undecide('C12.split', '%s:%d' % (file, line), scope.C04_UNDECIDED.get(mn, 'split result is not a tuple of fixed-length strings'))
    rep.unit('functions', nfun)
    if thresholds(rep, prog) < 1:
        rep.error('C12.threshold matched no getter threshold (be.bis.get_gender confirmed on the reference tree)')
    if range_cuts(rep, prog) < 1:
        rep.error('C12.range-cut matched no table lookup by string range (ismn.split confirmed on the reference tree)')
    rep.expect_at_least('C12.total', 60, 'getter functions')
    rep.unit('getters read for C12.compact-first', compact_first(rep, prog))
    rep.expect_at_least('C12.compact-first', 60, 'getter functions')
    rep.not_decided = ['that a returned date equals what the digits mean', 'functions with more than one required parameter'] + \
                      ['%s: %s' % kv for kv in sorted(scope.C12_UNDECIDED_SINKS.items())]
    return rep.finish()
