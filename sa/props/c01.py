"""C01 - validate()/is_valid() error contract for every input.

 C01.is_valid   shape rule: is_valid is `try: return bool(validate(<its own parameters, forwarded
                to the same-named parameters>)) except <ValidationError or wider>: return False`,
                defaults equal validate's.
 C01.sink       STRABS: from validate(number = any object, options = any admissible value) every
                partial operation reached (int(), .index(), subscripts, unpacking, division,
                date construction, attribute access on None, explicit raise of a foreign class...)
                is proven safe by the facts that dominate it or is absorbed by a handler.
 C01.result     every return path of validate() yields a non-empty str (otherwise is_valid()
                is False although validate() returned, or the caller gets a non-string).
 C01.registry   keys that validate() demands of registry properties are present in every entry
                that can reach that point (decided on the registry files).
 C01.reuse      validate() reads its raw argument once: on every path, before the parameter is rebound
                (`number = compact(number)`), a second read of it is only allowed as the argument of
                another module's validate()/is_valid(), which gates it again.  The argument may be an
                object that can be read only once (an iterator over characters): a second clean() /
                compact() / getter call on it sees the empty string although the gates were evaluated
                on the first reading (us.ein.validate(iter('91-1144442')) raised IndexError)."""
import ast
import os

from ..common import Report, AnalysisError, src, rel, REPO
from ..match import match_stmts, strip_doc
from .. import scope


def is_valid_rule(rep, prog):
    n = 0
    for mn in prog.number_modules():
        m = prog.mods[mn]
        r = prog.resolve_name(m, 'is_valid')
        v = prog.resolve_name(m, 'validate')
        if not v or v[0] != 'func':
            continue
        file = rel(m.path)
        if not r or r[0] != 'func':
            rep.fail('C01.is_valid', file, 'is_valid', 'def is_valid', 0, 'module defines validate() but no is_valid()')
            continue
        fn = prog.mods[r[1]].funcs[r[2]]
        vfn = prog.mods[v[1]].funcs[v[2]]
        file = rel(prog.mods[r[1]].path)
        n += 1
        body = strip_doc(fn.body)
        params = [a.arg for a in fn.args.args]
        vparams = [a.arg for a in vfn.args.args]
        ok_shape = len(body) == 1 and isinstance(body[0], ast.Try) and len(body[0].body) == 1 and isinstance(body[0].body[0], ast.Return) \
            and not body[0].orelse and not body[0].finalbody
        if not ok_shape:
            def calls(f_, name):
                return any(isinstance(c, ast.Call) and isinstance(c.func, ast.Name) and c.func.id == name for c in ast.walk(f_))
            # directly, or through a helper of the module that calls validate()
            mfuncs = prog.mods[r[1]].funcs
            calls_validate = calls(fn, 'validate') or any(calls(fn, h) and calls(mfuncs[h], 'validate') for h in mfuncs if h not in ('validate', fn.name))
            if not calls_validate:
                # a second copy of the rules: nothing ties its verdict (or what escapes from it) to validate()
                rep.fail('C01.is_valid', file, 'is_valid', src(body[-1])[:120] if body else 'def is_valid', fn.lineno,
                         'is_valid() does not forward to validate(): it re-states the rules, so its verdict can differ from validate() '
                         'and the exceptions of its own operations are not those validate() is checked for')
                continue
            raise AnalysisError('%s:%d is_valid() is not a single try/except around one return' % (file, fn.lineno))
        tr = body[0]
        ret = tr.body[0].value
        call = None
        if isinstance(ret, ast.Call) and src(ret.func) == 'bool' and len(ret.args) == 1 and isinstance(ret.args[0], ast.Call):
            call = ret.args[0]
        rep.check(call is not None, 'C01.is_valid', file, 'is_valid', src(tr.body[0]), fn.lineno,
                  'is_valid() does not return bool(validate(...)): the result may not be exactly True/False')
        if call is None:
            continue
        callee = prog.resolve_expr(prog.mods[r[1]], call.func)
        rep.check(callee == ('func', v[1], v[2]), 'C01.is_valid', file, 'is_valid', src(call), fn.lineno,
                  'is_valid() does not call the module\'s own validate()')
        # forwarding: every parameter of is_valid reaches the same-named parameter of validate
        bound = {}
        for i, a in enumerate(call.args):
            if i < len(vparams):
                bound[vparams[i]] = src(a)
        for k in call.keywords:
            if k.arg:
                bound[k.arg] = src(k.value)
        for p in params:
            rep.check(bound.get(p) == p, 'C01.is_valid', file, 'is_valid', src(call), fn.lineno,
                      'parameter %r of is_valid() is not forwarded to validate(%s=...): is_valid(x, %s=v) answers for different options than validate(x, %s=v)'
                      % (p, p, p, p), what='%s forwarded' % p)
        for p in bound:
            if p not in params:
                rep.fail('C01.is_valid', file, 'is_valid', src(call), fn.lineno, 'validate() is called with %s=%s which is not a parameter of is_valid()' % (p, bound[p]))
        # defaults agree
        def dmap(f):
            a = f.args
            return {p.arg: src(d) for p, d in zip(a.args[len(a.args) - len(a.defaults):], a.defaults)}
        dv, di = dmap(vfn), dmap(fn)
        for p in params:
            if p in di or p in dv:
                rep.check(di.get(p) == dv.get(p), 'C01.is_valid', file, 'is_valid', 'def is_valid(%s)' % src(fn.args), fn.lineno,
                          'default of %r differs between is_valid (%s) and validate (%s)' % (p, di.get(p), dv.get(p)), what='default of %s' % p)
        # handler
        good = False
        for h in tr.handlers:
            names = [src(t) for t in (h.type.elts if isinstance(h.type, ast.Tuple) else [h.type])] if h.type is not None else [None]
            wide = any(x in (None, 'ValidationError', 'ValueError', 'Exception', 'BaseException', 'exceptions.ValidationError') for x in names)
            rets_false = len(h.body) == 1 and isinstance(h.body[0], ast.Return) and src(h.body[0].value) == 'False'
            if wide and rets_false:
                good = True
        rep.check(good, 'C01.is_valid', file, 'is_valid', ' / '.join(src(h).split(':')[0] for h in tr.handlers), fn.lineno,
                  'is_valid() does not turn every ValidationError into False')
    return n


_INSPECT = ('isinstance', 'type', 'id', 'hasattr', 'callable', 'bool', 'len', 'repr')
_PASSIVE = set()


def _mark_passive(fn, par):
    """Reads that do not consume the argument: identity / type tests, truth tests, len()."""
    _PASSIVE.clear()

    def is_par(x):
        return isinstance(x, ast.Name) and x.id == par
    for n in ast.walk(fn):
        if isinstance(n, ast.Compare) and all(isinstance(o, (ast.Is, ast.IsNot)) for o in n.ops):
            _PASSIVE.update(id(x) for x in [n.left] + n.comparators if is_par(x))
        elif isinstance(n, ast.Call) and isinstance(n.func, ast.Name) and n.func.id in _INSPECT:
            _PASSIVE.update(id(x) for x in n.args if is_par(x))
        elif isinstance(n, ast.UnaryOp) and isinstance(n.op, ast.Not) and is_par(n.operand):
            _PASSIVE.add(id(n.operand))
        elif isinstance(n, ast.BoolOp):
            _PASSIVE.update(id(x) for x in n.values if is_par(x))
        elif isinstance(n, (ast.If, ast.While, ast.IfExp, ast.Assert)) and is_par(n.test):
            _PASSIVE.add(id(n.test))


def _events(node, par, out):
    """Reads of the parameter in evaluation order: ('load', node, gated) and ('store',)."""
    if id(node) in _PASSIVE:
        return
    if isinstance(node, ast.Call):
        fn = node.func
        gated = (isinstance(fn, ast.Attribute) and fn.attr in ('validate', 'is_valid')) or (isinstance(fn, ast.Name) and fn.id in ('validate', 'is_valid'))
        _events(fn, par, out)
        for a in list(node.args) + [k.value for k in node.keywords]:
            if gated and isinstance(a, ast.Name) and a.id == par:
                out.append(('load', a, True))
            else:
                _events(a, par, out)
        return
    if isinstance(node, ast.Name) and node.id == par:
        out.append(('load', node, False) if isinstance(node.ctx, ast.Load) else ('store',))
        return
    if isinstance(node, (ast.Lambda, ast.FunctionDef)):
        return
    for c in ast.iter_child_nodes(node):
        _events(c, par, out)


def _paths(stmts, par):
    """Event lists of the paths through a statement list (bounded; a path that returns or raises ends with None)."""
    paths = [[]]

    def seq(ps, more):
        out = []
        for p_ in ps:
            if p_ and p_[-1] is None:
                out.append(p_)
            else:
                out += [p_ + m for m in more]
        return out[:512]
    for st in stmts:
        ev = []
        if isinstance(st, ast.If):
            _events(st.test, par, ev)
            more = [ev + b for b in _paths(st.body, par) + _paths(st.orelse, par)]
        elif isinstance(st, (ast.For, ast.While)):
            _events(st.iter if isinstance(st, ast.For) else st.test, par, ev)
            if isinstance(st, ast.For):
                _events(st.target, par, ev)
            more = [ev + b + o for b in _paths(st.body, par) + [[]] for o in _paths(st.orelse, par)]
        elif isinstance(st, ast.Try):
            body = _paths(st.body, par)
            more = [b + o for b in body for o in _paths(st.orelse, par)]
            for h in st.handlers:
                # the handler runs after any prefix of the body: count the reads of the whole body (without its return)
                more += [[e for e in b if e is not None] + hb for b in body for hb in _paths(h.body, par)]
            more = [m if (m and m[-1] is None) else m + f for m in more for f in _paths(st.finalbody, par)]
        elif isinstance(st, ast.With):
            for it in st.items:
                _events(it, par, ev)
            more = [ev + b for b in _paths(st.body, par)]
        elif isinstance(st, ast.Assign):
            _events(st.value, par, ev)
            for t in st.targets:
                _events(t, par, ev)
            more = [ev]
        elif isinstance(st, (ast.Return, ast.Raise)):
            _events(st, par, ev)
            more = [ev + [None]]
        else:
            _events(st, par, ev)
            more = [ev]
        paths = seq(paths, more)
    return paths


def reuse_rule(rep, prog, skip=()):
    n = 0
    for mn in prog.number_modules():
        if mn in skip:
            continue
        m = prog.mods[mn]
        fn = m.funcs.get('validate')
        if fn is None or not fn.args.args:
            continue
        par = fn.args.args[0].arg
        n += 1
        bad = None
        _mark_passive(fn, par)
        for path in _paths(strip_doc(fn.body), par):
            loads = []
            for e in path:
                if e is None or e[0] == 'store':
                    break
                loads.append(e)
            later = [e for e in loads[1:] if not e[2]]
            if later:
                bad = later[0][1]
                break
        stmt = None
        if bad is not None:
            for st in ast.walk(fn):
                if isinstance(st, ast.stmt) and not isinstance(st, (ast.If, ast.For, ast.While, ast.Try, ast.With, ast.FunctionDef)) and any(x is bad for x in ast.walk(st)):
                    stmt = st
        rep.check(bad is None, 'C01.reuse', rel(m.path), 'validate', src(stmt) if stmt is not None else par, getattr(bad, 'lineno', fn.lineno),
                  '%s.validate() reads its raw argument %r a second time here after gates were evaluated on the first reading: for an argument that can be '
                  'read only once (an iterator over characters) the second reading is empty, so what is returned or looked up was never gated'
                  % (mn.replace('stdnum.', ''), par), what='%s: the raw argument is read once (or handed on to another validate())' % mn.replace('stdnum.', ''))
    return n


def registry_holds(regs, name, key, given):
    """every entry that can reach the read (effective properties containing all `given` keys; the pseudo key '' stands for a
    dominating truth test of the properties, which entries without any property do not pass) has `key`."""
    reg = regs.get(name)
    if reg is None:
        return None, 'registry %s not found' % name
    bad = []
    for e in reg.entries:
        eff = reg.effective(e)
        if '' in given and not eff:
            continue
        if not all(g in eff for g in given if g):
            continue
        if key not in eff:
            bad.append(e)
    return (not bad), ('%d entries lack it, e.g. %s line %d' % (len(bad), bad[0].rng, bad[0].line) if bad else '')


def check(tier):
    from ..strabs.run import analyse_validate, get_interp
    from ..reg import ReaderModel, Registry, registry_files
    rep = Report('C01', tier, level='other',
                 rule_text='abstract interpretation (STRABS) of every validate() from number = any object: each partial operation reached must be '
                           'safe under the character-class / length facts that dominate it or be absorbed by a handler; every return path yields a '
                           'non-empty str; registry keys demanded are present in the data; is_valid() has the forwarding shape',
                 trusted=['CPython ast / re._parser / unicodedata of /venv', 'hand-written models of ~25 builtins and str methods (sa/strabs)',
                          'sys.get_int_max_str_digits() == 4300'],
                 assumptions=['no monkey-patching', 'options take values of the kind their defaults suggest (bool, str or None)'])
    nsinks, nres = analyse(rep, tier)
    rep.unit('validate() functions read for C01.reuse', reuse_rule(rep, get_interp().prog, skip=get_interp().ALG_MODULES))
    rep.unit('modules', nres)
    rep.unit('partial operations reached', nsinks)
    rep.expect_at_least('C01.sink', 900, 'partial operations reached by the interpreter')
    rep.expect_at_least('C01.result', 230, 'return paths')
    rep.expect_at_least('C01.reuse', 220, 'validate() functions')
    rep.not_decided = ['%s: %s' % kv for kv in sorted(scope.C01_UNDECIDED_SINKS.items())] + [
        'C01.reuse does not cover the generic algorithm modules (luhn, verhoeff, damm, iso7064.*): they have no compact(), test and return their '
        'argument as it was given (an iterator argument is returned as that iterator object)']
    return rep.finish()


def analyse(rep, tier):
    """All C01 obligations into `rep` (also used by C18: an exception that escapes is_valid() is a server error there)."""
    from ..strabs.run import analyse_validate, get_interp
    from ..reg import ReaderModel, Registry, registry_files
    I = get_interp()
    prog = I.prog
    nmods = is_valid_rule(rep, prog)
    rep.unit('is_valid definitions', nmods)
    # the summary of util.clean() used by the interpreter ("anything that cannot be joined raises
    # InvalidFormat inside clean(), the result is a str") is re-derived from util.py on every run
    from . import c14
    sub = Report('C01', tier)
    entries, mapname, funcs, assigns = c14.derive_table()
    c14.check_pipeline(sub, funcs, mapname)
    for f in sub.findings:
        rep.fail('C01.clean-summary', f.file, f.func, f.construct, f.line,
                 'util.clean() is no longer total-conversion / map / delete (%s): every validate() that relies on it may let a foreign exception '
                 'or a non-string escape' % f.detail)
    if not sub.findings:
        rep.ok('C01.clean-summary', 'stdnum/util.py clean', 'conversion of any object happens inside `except Exception: raise InvalidFormat()`; result is a str')
    res = analyse_validate()
    model = None
    regs = {}
    nsinks = 0
    undecided_keys = scope.C01_UNDECIDED_SINKS
    for mn in sorted(res):
        r = res[mn]
        file = rel(prog.mods[mn].path)
        if r['crash']:
            rep.error('STRABS crashed on %s: %s' % (mn, r['crash'][-300:].replace('\n', ' | ')))
            continue
        alarmed = set()
        for a in r['alarms']:
            key = '%s|%s|%s' % (a['module'], a['func'], a['construct'])
            if a.get('reg'):
                name, rkey, given = a['reg']
                if model is None:
                    model = ReaderModel()
                    for p in registry_files():
                        g = Registry(model, p)
                        regs[g.name] = g
                ok, why = registry_holds(regs, name, rkey, given)
                if ok is None:
                    rep.undecide('C01.registry', '%s:%d' % (a['file'], a['line']), why)
                else:
                    rep.check(ok, 'C01.registry', a['file'], a['func'], "%s[%r]%s" % (name, rkey, (' given ' + ','.join(given)) if given else ''), a['line'],
                              '%s reads property %r of registry %s without a guard or handler and %s: %s escapes validate()' % (a['func'], rkey, name, why, a['kind']),
                              what='%s: every reachable entry has %r' % (name, rkey))
                continue
            alarmed.add((a['module'], a['line']))
            if key in undecided_keys:
                rep.undecide('C01.sink', '%s:%d %s' % (a['file'], a['line'], a['func']), undecided_keys[key])
                continue
            rep.fail('C01.sink:%s' % a['kind'], a['file'], a['func'], a['construct'], a['line'],
                     '%s may escape %s.validate(): %s [path: %s]' % (a['kind'], mn.replace('stdnum.', ''), a['why'], ' > '.join(a['chain'])))
        for (smod, line, col, kind) in r['sinks']:
            if (smod, line) in alarmed:
                continue
            nsinks += 1
            rep.obligations += 1
            rep.discharged += 1
            rep.counts['C01.sink'] = rep.counts.get('C01.sink', 0) + 1
            rep.keys.add(('C01.sink', smod, line, col))
            if nsinks % 40 == 0:
                rep.samples.append({'rule': 'C01.sink', 'where': '%s:%d' % (rel(prog.mods[smod].path) if smod in prog.mods else smod, line),
                                    'what': '%s reached from %s.validate() proven safe or absorbed' % (kind, mn.replace('stdnum.', '')), 'verdict': 'holds'})
        # results
        seen = set()
        for ret in r['returns']:
            if ret['kind'] == 'str' and ret['lo'] >= 1:
                rep.ok('C01.result', '%s validate' % file, 'return path yields str of length %s..%s' % (ret['lo'], ret['hi']))
                continue
            what = 'a possibly empty string' if ret['kind'] == 'str' else ('any object (the argument itself)' if ret['kind'] == 'top' else ret['desc'])
            if (mn, what) in seen:
                continue
            seen.add((mn, what))
            k = '%s|validate|returns %s' % (mn, 'empty-str' if ret['kind'] == 'str' else ret['kind'])
            if k in undecided_keys:
                rep.undecide('C01.result', '%s validate' % file, undecided_keys[k])
                continue
            rep.fail('C01.result', file, 'validate', 'returns %s' % ('empty-str' if ret['kind'] == 'str' else ret['kind']), 0,
                     '%s.validate() can return %s: %s' % (mn.replace('stdnum.', ''), what,
                                                         'bool() of it is False, so is_valid() says False although validate() returned' if ret['kind'] == 'str'
                                                         else 'the result is not a string'))
        if not r['returns'] and not r['alarms']:
            rep.undecide('C01.result', file, 'no return path found by the interpreter')
    return nsinks, len(res)
