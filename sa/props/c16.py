"""C16 - GS1-128 decoding and encoding are mutually consistent (reduced scope, decided part).

Sibling agreement of _encode_value / _decode_value / _max_length / _pad_value / info / encode
over the distinct (format, type) pairs that occur in gs1_ai.dat:
 C16.type       every registered type other than 'str' has an explicit branch in the decoder, and
                'decimal'/'date' in the encoder;
 C16.date       every registered date format is one the encoder's date branch names; formats encoded
                from a pair of dates are decoded as a pair;
 C16.decimal    every registered decimal format has the shape the codecs slice (N<k> | N..<k>, optional N3+);
 C16.length     _max_length() is defined on every registered pair (extracted expression evaluated per pair);
 C16.padding    _pad_value() pads with '0' only values whose decoder ignores leading zeros (int, decimal)
                and with blanks only values whose decoder strips blanks (decided per registered pair);
 C16.fixed-width  identifiers without fnc1= (fixed path: not padded, not separated) have a type and format whose encoder
                branch always yields the full width (never int, N..k decimals or zero-dropping dates);
 C16.validator  an identifier handed to another module's validate() has a registered length that module can accept;
 C16.framing    encode(): every variable-length value but the last is followed unconditionally by the
                separator (or padded to its maximum length when there is none); fixed-length values come first;
 C16.value      info(): the text handed to _decode_value() is a slice of the element string (not the
                return value of a validator); validate() is encode(info(x, sep), sep) inside the catch-all."""
import ast
import os
import re

from ..common import Report, REPO, AnalysisError, src
from ..match import match_expr, match_stmts, strip_doc
from ..minieval import ev, Undecidable, Unsupported, run as run_body
from ..reg import ReaderModel, Registry

FILE = 'stdnum/gs1_128.py'


def branches_on(fn, var):
    """Constant strings the function compares `var` with (==, in (...))."""
    out = set()
    for n in ast.walk(fn):
        if isinstance(n, ast.Compare) and src(n.left) == var and len(n.ops) == 1:
            c = n.comparators[0]
            if isinstance(n.ops[0], ast.Eq) and isinstance(c, ast.Constant):
                out.add(c.value)
            if isinstance(n.ops[0], ast.In) and isinstance(c, (ast.Tuple, ast.List, ast.Set)):
                out |= {e.value for e in c.elts if isinstance(e, ast.Constant)}
    return out


def max_length_evaluator(tree=None):
    """f(format, type) -> (value, error text) by evaluating the body of gs1_128._max_length() on the pair (whitelisted evaluator)."""
    from ..minieval import compiled_patterns
    if tree is None:
        with open(os.path.join(REPO, FILE), encoding='utf-8') as fh:
            tree = ast.parse(fh.read())
    mx = next((n for n in tree.body if isinstance(n, ast.FunctionDef) and n.name == '_max_length'), None)
    if mx is None or len(mx.args.args) < 2:
        raise AnalysisError('%s: _max_length(fmt, type) vanished' % FILE)
    pats = compiled_patterns(tree)
    body = strip_doc(mx.body)

    def f(fmt, typ):
        env = dict(pats)
        env.update({mx.args.args[0].arg: fmt, mx.args.args[1].arg: typ})
        try:
            return run_body(body, env), None
        except Unsupported as ex:
            raise AnalysisError('%s:%d _max_length() uses a construct the evaluator does not know: %s' % (FILE, mx.lineno, ex))
        except Undecidable as ex:
            return None, str(ex)
    return f


def validators_fit(rep):
    """C16.validator: the values of an application identifier that is handed to another module's validate() (the
    _ai_validators table) can have a length that module accepts at all: otherwise the identifier can neither be
    decoded nor encoded."""
    from ..strabs.run import analyse_validate
    path = os.path.join(REPO, FILE)
    with open(path, encoding='utf-8') as fh:
        tree = ast.parse(fh.read())
    table = None
    for st in tree.body:
        # the table of extra validators, whatever it is called: a module-level dict literal from identifiers to 'stdnum....' module names
        if isinstance(st, ast.Assign) and len(st.targets) == 1 and isinstance(st.targets[0], ast.Name) and isinstance(st.value, ast.Dict) and st.value.keys \
                and all(isinstance(v_, ast.Constant) and isinstance(v_.value, str) and v_.value.startswith('stdnum.') for v_ in st.value.values):
            try:
                table = ast.literal_eval(st.value)
            except (ValueError, SyntaxError):
                raise AnalysisError('%s: the validator table is not a literal' % FILE)
            line = st.lineno
    if table is None:
        raise AnalysisError('%s: _ai_validators vanished' % FILE)
    reg = Registry(ReaderModel(), os.path.join(REPO, 'stdnum', 'gs1_ai.dat'))
    res = analyse_validate()
    for ai, modname in sorted(table.items()):
        ents = [e for e in reg.entries if e.depth == 0 and len(ai) == e.length and e.low <= ai <= e.high]
        if not ents:
            rep.fail('C16.validator', FILE, '_ai_validators', '%r: %r' % (ai, modname), line, 'application identifier %s has a validator but is not in gs1_ai.dat' % ai)
            continue
        f = ents[0].props.get('format', '')
        lo = hi = 0
        okf = True
        for part in f.split('+'):
            m_ = re.match(r'^[NXY]([0-9]+)$', part)
            v_ = re.match(r'^[NXY]\.\.([0-9]+)$', part)
            if m_:
                lo += int(m_.group(1))
                hi += int(m_.group(1))
            elif v_:
                lo += 1
                hi += int(v_.group(1))
            else:
                okf = False
        if modname not in res or not okf:
            rep.undecide('C16.validator', '%s %s' % (FILE, ai), 'format %r or module %s not analysable' % (f, modname))
            continue
        lens = [(x['lo'], x['hi']) for x in res[modname]['returns'] if x['kind'] == 'str']
        fits = any(a <= hi and (b is None or b >= lo) for a, b in lens)
        rep.check(fits, 'C16.validator', FILE, '_ai_validators', '%r: %r' % (ai, modname), line,
                  'values of application identifier %s have %s characters (format %s) but %s.validate() accepts only lengths %s: every element string with '
                  'this identifier is rejected' % (ai, lo if lo == hi else '%d..%d' % (lo, hi), f, modname.replace('stdnum.', ''),
                                                  sorted({a if a == b else '%s..%s' % (a, b) for a, b in lens}, key=str)),
                  what='AI %s (%s) fits %s' % (ai, f, modname))
    return len(table)


def pair_components(rep, enc):
    """C16.pair: in a branch of _encode_value() that serves a sequence value (`isinstance(value, (list, tuple))`) every returned text
    is computed from every component the branch reads: a return that encodes one component only drops the other from the element
    string, and decoding gives a value of another kind (a date instead of a pair of dates)."""
    par = enc.args.args[2].arg if len(enc.args.args) > 2 else 'value'
    n_ = 0
    for br in ast.walk(enc):
        if not (isinstance(br, ast.If) and any(isinstance(c, ast.Call) and src(c.func) == 'isinstance' and c.args and src(c.args[0]) == par
                                               and any(w in src(c.args[1]) for w in ('list', 'tuple')) for c in ast.walk(br.test))):
            continue
        env = {}

        def comps(e):
            out = set()
            for x in ast.walk(e):
                if isinstance(x, ast.Subscript) and isinstance(x.value, ast.Name) and x.value.id == par and isinstance(x.slice, (ast.Constant, ast.UnaryOp)):
                    try:
                        out.add(ast.literal_eval(x.slice))
                    except Exception:
                        out.add('*')
                elif isinstance(x, ast.Name) and x.id in env:
                    out |= env[x.id]
            # the whole sequence used as such (iteration, unpacking, join)
            for x in ast.walk(e):
                if isinstance(x, ast.Name) and x.id == par:
                    sub = any(isinstance(p_, ast.Subscript) and p_.value is x for p_ in ast.walk(e))
                    if not sub:
                        out.add('*')
            return out
        body = list(br.body)
        for st in [x for b in body for x in ast.walk(b)]:
            if isinstance(st, ast.Assign):
                if len(st.targets) == 1 and isinstance(st.targets[0], ast.Tuple) and isinstance(st.value, ast.Name) and st.value.id == par:
                    for i, t in enumerate(st.targets[0].elts):
                        if isinstance(t, ast.Name):
                            env[t.id] = {i}
                else:
                    c = comps(st.value)
                    for t in st.targets:
                        if isinstance(t, ast.Name) and t.id != par:
                            env[t.id] = env.get(t.id, set()) | c
        rets = [x for b in body for x in ast.walk(b) if isinstance(x, ast.Return) and x.value is not None]
        used = [(r_, comps(r_.value)) for r_ in rets]
        allc = set()
        for _r, c in used:
            allc |= {(-1 if k == -1 else k) for k in c}
        norm = lambda c: {1 if k == -1 else k for k in c}
        every = norm(allc) - {'*'}
        for r_, c in used:
            n_ += 1
            ok = '*' in c or norm(c) >= every
            rep.check(ok, 'C16.pair', FILE, '_encode_value', src(r_)[:140], r_.lineno,
                      'in the branch for a sequence value (`if %s`) this return encodes component(s) %s only, the branch reads %s: the other component is '
                      'dropped from the element string and decoding it gives a value of another kind' % (src(br.test)[:80], sorted(norm(c) - {'*'}), sorted(every)),
                      what='every component of the pair reaches the returned text')
    return n_


def check(tier):
    rep = new_report(tier)
    analyse(rep)
    nv = validators_fit(rep)
    if nv < 3:
        rep.error('C16.validator: %d validator entries found, 3 confirmed on the reference tree' % nv)
    rep.expect_at_least('C16.length', 40, '(format, type) pairs')
    rep.expect_at_least('C16.pair', 2, 'returns of sequence-value branches of _encode_value()')
    rep.not_decided = ['equality of the decoded identifier-to-value mapping after a round trip (value arithmetic of decimals, dates with day 00)',
                       'parentheses handling (compact() deletes them before info())']
    return rep.finish()


def new_report(tier, pid='C16'):
    return Report(pid, tier, level='other',
                 rule_text='sibling agreement of the GS1-128 encoder, decoder, length and padding rules over every (format, type) pair of gs1_ai.dat, '
                           'plus dataflow/shape rules on encode(), info() and validate()',
                 trusted=['CPython ast', 'sa/minieval.py', 'strftime/strptime use the same directives'],
                 assumptions=['equality of the decoded mapping (value round trip) is not decided'])


def normalise_encode_tail(encf):
    """encode() written with an explicit list that is filled by loops,
         parts = list(FIXED); for T in VAR[:-1]: [if not sep: v = PAD(v)]; parts.append(E); for T in VAR[-1:]: parts.append(E2); return ''.join(parts)
    is read as the comprehension form the framing rules are stated on:
         return ''.join(FIXED + [E' for T in VAR[:-1]] + [E2 for T in VAR[-1:]])        (E' = E with v replaced by `v if sep else PAD(v)`)"""
    import copy
    from ..match import _Subst
    body = list(encf.body)
    if len(body) < 4 or not isinstance(body[-1], ast.Return):
        return encf
    b = match_expr("''.join(V_p)", body[-1].value)
    if b is None:
        return encf
    P = b['V_p'].id
    loops = []
    k = len(body) - 2
    while k >= 0 and isinstance(body[k], ast.For) and not body[k].orelse:
        loops.insert(0, body[k])
        k -= 1
    if len(loops) != 2 or k < 0 or not isinstance(body[k], ast.Assign) or len(body[k].targets) != 1 or src(body[k].targets[0]) != P:
        return encf
    init = body[k].value
    fixed = None
    for pat in ('list(V_f)', 'V_f[:]', 'V_f.copy()', 'V_f + []', '[] + V_f'):
        m = match_expr(pat, init)
        if m is not None:
            fixed = m['V_f']
    if fixed is None:
        return encf
    comps = []
    for lp in loops:
        stmts = list(lp.body)
        sub = {}
        while stmts and isinstance(stmts[0], ast.If) and not stmts[0].orelse and len(stmts[0].body) == 1 and isinstance(stmts[0].body[0], ast.Assign) \
                and len(stmts[0].body[0].targets) == 1 and isinstance(stmts[0].body[0].targets[0], ast.Name):
            g = stmts.pop(0)
            name = g.body[0].targets[0].id
            val = g.body[0].value
            t = g.test
            if isinstance(t, ast.UnaryOp) and isinstance(t.op, ast.Not):
                sub[name] = ast.IfExp(test=t.operand, body=ast.Name(id=name, ctx=ast.Load()), orelse=val)
            else:
                sub[name] = ast.IfExp(test=t, body=val, orelse=ast.Name(id=name, ctx=ast.Load()))
        if len(stmts) != 1 or not isinstance(stmts[0], ast.Expr) or match_expr('%s.append(E_x)' % P, stmts[0].value) is None:
            return encf
        e = match_expr('%s.append(E_x)' % P, stmts[0].value)['E_x']
        e = _Subst(sub).visit(copy.deepcopy(e))
        comps.append(ast.ListComp(elt=e, generators=[ast.comprehension(target=lp.target, iter=lp.iter, ifs=[], is_async=0)]))
    new_val = ast.Call(func=ast.Attribute(value=ast.Constant(value=''), attr='join', ctx=ast.Load()),
                       args=[ast.BinOp(left=ast.BinOp(left=fixed, op=ast.Add(), right=comps[0]), op=ast.Add(), right=comps[1])], keywords=[])
    out = copy.copy(encf)
    ret = ast.copy_location(ast.Return(value=new_val), body[-1])
    out.body = body[:k] + [ret]
    return ast.fix_missing_locations(out)


def analyse(rep):
    path = os.path.join(REPO, FILE)
    if not os.path.exists(path):
        raise AnalysisError('%s vanished' % FILE)
    with open(path, encoding='utf-8') as fh:
        tree = ast.parse(fh.read())
    funcs = {n.name: n for n in tree.body if isinstance(n, ast.FunctionDef)}
    from ..minieval import compiled_patterns
    module_patterns = compiled_patterns(tree)
    for need in ('_encode_value', '_decode_value', '_max_length', '_pad_value', 'info', 'encode', 'validate'):
        if need not in funcs:
            raise AnalysisError('%s: %s() vanished' % (FILE, need))
    reg = Registry(ReaderModel(), os.path.join(REPO, 'stdnum', 'gs1_ai.dat'))
    pairs = {}
    for e in reg.entries:
        f, t = e.props.get('format'), e.props.get('type')
        if f is not None and t is not None:
            pairs.setdefault((f, t), e)
    rep.unit('(format, type) pairs', len(pairs))
    rep.unit('application identifiers', len(reg.entries))
    enc, dec, mx, pad = funcs['_encode_value'], funcs['_decode_value'], funcs['_max_length'], funcs['_pad_value']
    enc_types = branches_on(enc, enc.args.args[1].arg)
    pair_components(rep, enc)
    dec_types = branches_on(dec, dec.args.args[1].arg)
    # --- types
    for t in sorted({t for _f, t in pairs}):
        e = next(x for (f, tt), x in pairs.items() if tt == t)
        if t != 'str':
            rep.check(t in dec_types, 'C16.type', reg.rel, e.rng, 'type="%s"' % t, e.line,
                      'type %r has no branch in gs1_128._decode_value(): values are returned undecoded (decoder knows %s)' % (t, sorted(dec_types)))
        if t in ('decimal', 'date'):
            rep.check(t in enc_types, 'C16.type', reg.rel, e.rng, 'type="%s" (encoder)' % t, e.line,
                      'type %r has no branch in gs1_128._encode_value()' % t)
        if t not in ('str', 'int', 'decimal', 'date'):
            rep.check(t in enc_types and t in dec_types, 'C16.type', reg.rel, e.rng, 'type="%s" (new)' % t, e.line,
                      'unknown type %r is not handled explicitly by both codecs' % t)
    # --- date formats: the encoder's date branch
    date_if = None
    for n in ast.walk(enc):
        if isinstance(n, ast.If) and src(n.test) == "%s == 'date'" % enc.args.args[1].arg:
            date_if = n
    if date_if is None:
        raise AnalysisError('%s: date branch of _encode_value() not found' % FILE)
    fmtvar = enc.args.args[0].arg
    enc_date_fmts = set()
    pair_fmts_enc = set()
    for n in ast.walk(ast.Module(body=date_if.body, type_ignores=[])):
        if isinstance(n, ast.Compare) and src(n.left) == fmtvar:
            c = n.comparators[0]
            vals = {c.value} if isinstance(c, ast.Constant) else {e.value for e in getattr(c, 'elts', []) if isinstance(e, ast.Constant)}
            enc_date_fmts |= vals
    for n in ast.walk(ast.Module(body=date_if.body, type_ignores=[])):
        if isinstance(n, ast.If) and 'isinstance' in src(n.test) and 'tuple' in src(n.test):
            for c in ast.walk(n.test):
                if isinstance(c, ast.Compare) and src(c.left) == fmtvar:
                    pair_fmts_enc |= {e.value for e in getattr(c.comparators[0], 'elts', []) if isinstance(e, ast.Constant)}
    dfmtvar = dec.args.args[0].arg
    pair_fmts_dec = set()
    for n in ast.walk(dec):
        if isinstance(n, ast.Compare) and src(n.left) == dfmtvar and isinstance(n.ops[0], ast.In):
            pair_fmts_dec |= {e.value for e in getattr(n.comparators[0], 'elts', []) if isinstance(e, ast.Constant)}
    for (f, t), e in sorted(pairs.items()):
        if t == 'date':
            rep.check(f in enc_date_fmts, 'C16.date', reg.rel, e.rng, 'format="%s" type="date"' % f, e.line,
                      'date format %r is not one of the formats gs1_128._encode_value() handles %s: encode() raises ValueError(unsupported format) '
                      'and the decoder reads the digits with the wrong layout' % (f, sorted(enc_date_fmts)), what='date format %s has an encoder branch' % f)
    rep.check(pair_fmts_enc <= pair_fmts_dec, 'C16.date', FILE, '_decode_value', 'pair formats', dec.lineno,
              'formats encoded from a pair of dates %s are not all decoded as a pair %s' % (sorted(pair_fmts_enc), sorted(pair_fmts_dec)))
    # --- one reading of two-digit years: the codecs go through strptime/strftime('%y...') (pivot 69 -> 1969, 68 -> 2068); a branch
    #     that adds a fixed century decodes the years 69..99 differently from what the other branches and the encoder write
    pivot, fixedc = [], []
    for fnode in (dec, enc):
        for n in ast.walk(fnode):
            if isinstance(n, ast.Call) and isinstance(n.func, ast.Attribute) and n.func.attr in ('strptime', 'strftime'):
                fm = [a.value for a in n.args if isinstance(a, ast.Constant) and isinstance(a.value, str)]
                if any('%y' in x for x in fm):
                    pivot.append(n)
            if isinstance(n, ast.BinOp) and isinstance(n.op, ast.Add):
                for c_, o_ in ((n.left, n.right), (n.right, n.left)):
                    if isinstance(c_, ast.Constant) and c_.value in (1900, 2000) and isinstance(o_, ast.Call) and src(o_.func) == 'int':
                        fixedc.append(n)
    for n in fixedc:
        rep.fail('C16.date', FILE, '_decode_value', src(n), n.lineno,
                 'a two-digit year is read as %s while %d other place(s) of the date codec use %%y (69..99 mean 1969..1999): a date written by '
                 'encode()/validate() is read back one century off' % (src(n), len(pivot)))
    if not fixedc:
        rep.ok('C16.date', '%s date codec' % FILE, 'two-digit years are read and written through %%y in all %d places' % len(pivot))
    if len(pivot) < 5:
        rep.error('C16.date: only %d strptime/strftime(%%y) sites found in the date codec, 5 confirmed on the reference tree' % len(pivot))
    # --- a date branch that drops trailing zero fields may only serve formats with an optional or variable part
    for n in ast.walk(ast.Module(body=date_if.body, type_ignores=[])):
        if isinstance(n, ast.If) and isinstance(n.test, ast.Compare) and src(n.test.left) == fmtvar:
            trims = [x for st in n.body for x in ast.walk(st) if isinstance(x, ast.Subscript) and isinstance(x.slice, ast.Slice) and x.slice.upper is not None
                     and isinstance(x.slice.upper, ast.UnaryOp) and isinstance(x.slice.upper.op, ast.USub)]
            c = n.test.comparators[0]
            vals = [c.value] if isinstance(c, ast.Constant) else [e_.value for e_ in getattr(c, 'elts', []) if isinstance(e_, ast.Constant)]
            for fm in vals:
                if trims:
                    rep.check('..' in fm or '[' in fm, 'C16.date', FILE, '_encode_value', 'format %r in the branch of `%s`' % (fm, src(trims[0])), n.lineno,
                              'date format %r is of fixed length, but its encoder branch drops trailing 00 fields (%s): the element is shorter than the '
                              'characters info() reads back, or decodes to a value of another kind' % (fm, src(trims[0])), what='%s not trimmed' % fm)
                else:
                    rep.ok('C16.date', '%s:%d' % (FILE, n.lineno), 'format %s is written at full width' % fm)
    # --- decimal formats
    for (f, t), e in sorted(pairs.items()):
        if t == 'decimal':
            core = f[3:] if f.startswith('N3+') else f
            rep.check(re.match(r'^N(\.\.)?[0-9]+$', core) is not None, 'C16.decimal', reg.rel, e.rng, 'format="%s" type="decimal"' % f, e.line,
                      'decimal format %r is not N<k> / N..<k> (optionally after N3+): the codecs slice fmt[1:] / fmt[3:] as an integer' % f)
    # --- _max_length defined on every pair
    known = {('N6+[-]', 'int'), ('N6+[-]', 'str'), ('Z..90', 'str')}
    body = strip_doc(mx.body)
    for (f, t), e in sorted(pairs.items()):
        env = dict(module_patterns)
        env.update({mx.args.args[0].arg: f, mx.args.args[1].arg: t})
        val = None
        err = None
        try:
            val = run_body(body, env)
        except Unsupported as ex:
            raise AnalysisError('%s:%d _max_length() uses a construct the evaluator does not know: %s' % (FILE, mx.lineno, ex))
        except Undecidable as ex:
            err = str(ex)
        rep.check(isinstance(val, int) and val > 0, 'C16.length', reg.rel, e.rng, 'format="%s" type="%s"' % (f, t), e.line,
                  '_max_length(%r, %r) is not defined (%s): info()/encode() fail for this application identifier' % (f, t, err or val),
                  what='_max_length(%r, %r) = %r' % (f, t, val))
        # the same number read off the format by the grammar of the registry (components joined by '+', each <class>[..]<k>, optional ones
        # in brackets): the characters info() cuts off for a value must be as many as its components can hold
        comps_ = f.split('+')
        if isinstance(val, int) and all(re.match(r'^\[?[NXYZ](\.\.)?[0-9]+\]?$', c_) for c_ in comps_):
            want = sum(int(re.search(r'([0-9]+)\]?$', c_).group(1)) for c_ in comps_) + (1 if t == 'decimal' else 0)
            rep.check(val == want, 'C16.length', reg.rel, e.rng, 'format="%s" type="%s" (value)' % (f, t), e.line,
                      '_max_length(%r, %r) is %r, but the components of the format hold %d characters%s: info() cuts the value at the wrong place while '
                      'encode() writes all of it' % (f, t, val, want, ' (with the decimal position digit)' if t == 'decimal' else ''),
                      what='_max_length(%r, %r) == %d' % (f, t, want))
    # --- padding agrees with the decoder
    pbody = strip_doc(pad.body)
    if not (len(pbody) == 2 and isinstance(pbody[0], ast.If) and isinstance(pbody[1], ast.Return)):
        raise AnalysisError('%s:%d _pad_value() is not `if <numeric>: return rjust ... ; return ljust ...`' % (FILE, pad.lineno))
    zero_branch = src(pbody[0].body[0])
    blank_branch = src(pbody[1])
    rep.check('.rjust(' in zero_branch and "'0'" in zero_branch, 'C16.padding', FILE, '_pad_value', zero_branch, pbody[0].lineno, 'numeric values are not right-aligned with zeros')
    rep.check('.ljust(' in blank_branch and "'0'" not in blank_branch, 'C16.padding', FILE, '_pad_value', blank_branch, pbody[1].lineno, 'text values are not left-aligned with blanks')
    dec_strip = any(isinstance(n, ast.Return) and src(n.value).endswith('.strip()') for n in dec.body)
    rep.check(dec_strip, 'C16.padding', FILE, '_decode_value', 'return value.strip()', dec.lineno, 'the decoder no longer strips the blanks that padding adds to text values')
    for (f, t), e in sorted(pairs.items()):
        try:
            zero = bool(ev(pbody[0].test, {pad.args.args[0].arg: f, pad.args.args[1].arg: t, pad.args.args[2].arg: '1'}))
        except Undecidable as ex:
            raise AnalysisError('%s: padding condition cannot be evaluated: %s' % (FILE, ex))
        tolerant = t in ('int', 'decimal')
        rep.check(zero == tolerant, 'C16.padding', reg.rel, e.rng, 'format="%s" type="%s"' % (f, t), e.line,
                  'values of this identifier are padded with %s but decoded by %s: a padded value decodes to a different value'
                  % ("'0'" if zero else 'blanks', 'int()/Decimal()' if tolerant else 'str.strip()'), what='%s/%s padded with %s' % (f, t, "'0'" if zero else 'blanks'))
    # --- identifiers without fnc1= take the fixed path of encode(): AI + encoded value, neither padded nor separated, and info()
    #     reads exactly _max_length() characters back; the encoder branch of their type must always yield that many characters
    nfixed = 0
    for e in reg.entries:
        f, t = e.props.get('format'), e.props.get('type')
        if f is None or t is None or e.props.get('fnc1'):
            continue
        nfixed += 1
        if t == 'int':
            okf, why = False, 'an int value is written as str(value), without its leading zeros'
        elif t == 'decimal':
            okf, why = re.match(r'^(N3\+)?N[0-9]+$', f) is not None, 'a decimal of variable length (N..k) is not right-aligned'
        elif t == 'date':
            okf, why = f in ('N6', 'N10'), 'this date format drops trailing zero fields'
        else:
            okf, why = re.match(r'^[NXY][0-9]+(\+[NXY][0-9]+)*$', f) is not None, 'the format is of variable length'
        rep.check(okf, 'C16.fixed-width', reg.rel, e.rng, 'format="%s" type="%s" without fnc1' % (f, t), e.line,
                  'application identifier %s is emitted on the fixed-length path (no fnc1=), but %s: the element is shorter than the %s characters info() '
                  'reads back, so the following identifier is swallowed' % (e.rng, why, f), what='%s: %s/%s always full width' % (e.rng, f, t))
    rep.unit('identifiers on the fixed-length path', nfixed)
    # --- framing in encode()
    encf = normalise_encode_tail(funcs['encode'])
    funcs['encode'] = encf
    ret = [n for n in ast.walk(encf) if isinstance(n, ast.Return) and n.value is not None]
    comps = [n for n in ast.walk(ret[-1]) if isinstance(n, ast.ListComp)] if ret else []
    nonlast = [c for c in comps if src(c.generators[0].iter).endswith('[:-1]')]
    last = [c for c in comps if src(c.generators[0].iter).endswith('[-1:]')]
    if len(nonlast) != 1 or len(last) != 1:
        raise AnalysisError('%s:%d encode(): the two comprehensions over variable_values[:-1] / [-1:] were not found' % (FILE, encf.lineno))
    # the registry object: the module-level name bound to numdb.get('gs1_ai')
    aidb = next((st.targets[0].id for st in tree.body if isinstance(st, ast.Assign) and len(st.targets) == 1 and isinstance(st.targets[0], ast.Name)
                 and src(st.value).replace('"', "'") == "numdb.get('gs1_ai')"), None)
    if aidb is None:
        raise AnalysisError("%s: no module-level name is bound to numdb.get('gs1_ai')" % FILE)

    def reg_var(fn):
        """the local name that holds the registry properties of the current identifier: `ai, <name> = _gs1_aidb.info(...)[0]`"""
        for n in ast.walk(fn):
            if isinstance(n, ast.Assign) and len(n.targets) == 1 and isinstance(n.targets[0], ast.Tuple) and len(n.targets[0].elts) == 2 \
                    and all(isinstance(e, ast.Name) for e in n.targets[0].elts) and ('%s.info(' % aidb) in src(n.value):
                return n.targets[0].elts[1].id
        raise AnalysisError('%s:%d %s(): no `ai, info = _gs1_aidb.info(...)[0]`' % (FILE, fn.lineno, fn.name))
    inf = funcs['info']
    sep_e = encf.args.args[1].arg if len(encf.args.args) > 1 else 'separator'
    elt = nonlast[0].elt
    ok_sep = isinstance(elt, ast.BinOp) and isinstance(elt.op, ast.Add) and src(elt.right) == sep_e
    rep.check(ok_sep, 'C16.framing', FILE, 'encode', src(elt), elt.lineno,
              'a variable-length value that is not the last one is not unconditionally followed by the separator: the decoder cannot find its end')
    mid = None
    for n in ast.walk(elt):
        if isinstance(n, ast.IfExp):
            mid = n
    ok_pad = mid is not None and src(mid.test) == sep_e and '_pad_value(' in src(mid.orelse) and '_pad_value(' not in src(mid.body)
    rep.check(ok_pad, 'C16.framing', FILE, 'encode', src(mid) if mid is not None else src(elt), elt.lineno,
              'without a separator a variable-length value that is not the last one must be padded to its maximum length')
    jb = match_expr("''.join(V_fixed + [E_a for E_t1 in E_i1] + [E_b for E_t2 in E_i2])", ret[-1].value) or \
        match_expr("''.join(V_fixed + E_rest)", ret[-1].value)
    fixed_ok = False
    if jb is not None:
        # the list that comes first is the one filled on the branch without the fnc1 flag
        fx = jb['V_fixed'].id
        fixed_ok = any(isinstance(n, ast.Call) and isinstance(n.func, ast.Attribute) and n.func.attr == 'append' and src(n.func.value) == fx for n in ast.walk(encf))
    rep.check(fixed_ok, 'C16.framing', FILE, 'encode', src(ret[-1].value)[:80], ret[-1].lineno,
              'fixed-length values are not emitted before the variable-length ones')
    # which list a value goes to is decided by the registry's fnc1 flag, the same test info() uses
    re_, ri_ = reg_var(encf), reg_var(inf)
    rep.check(("%s.get('fnc1', False)" % re_) in src(encf) and ("%s.get('fnc1', False)" % ri_) in src(inf), 'C16.framing', FILE, 'encode', "info.get('fnc1', False)", encf.lineno,
              'encoder and decoder no longer use the same fnc1 test to tell variable-length identifiers')
    # the list is chosen by that flag alone: a value-dependent choice (e.g. "already fills the field") emits variable-length identifiers
    # without terminator, which info() still scans to the next separator
    if jb is not None:
        for n in ast.walk(encf):
            if isinstance(n, ast.If) and any(isinstance(c_, ast.Call) and isinstance(c_.func, ast.Attribute) and c_.func.attr == 'append' and src(c_.func.value) == fx
                                             for st in n.body + n.orelse for c_ in ast.walk(st)):
                t_ = n.test.operand if isinstance(n.test, ast.UnaryOp) and isinstance(n.test.op, ast.Not) else n.test
                rep.check(src(t_) in ("%s.get('fnc1', False)" % re_, "%s.get('fnc1')" % re_, "'fnc1' in %s" % re_, "bool(%s.get('fnc1', False))" % re_),
                          'C16.framing', FILE, 'encode', src(n.test)[:120], n.lineno,
                          'whether a value is written with the fixed-length group or as a terminated variable-length element depends on more than the '
                          'fnc1 flag of its identifier (%s): the decoder decides by the flag alone' % src(n.test)[:80])
    # the separator is a string, not a set of characters: strip()/lstrip()/rstrip() with it also eat value characters that occur in it
    nsep = 0
    for fn_ in (inf, encf):
        if len(fn_.args.args) < 2:
            continue
        sp = fn_.args.args[1].arg
        for n in ast.walk(fn_):
            if isinstance(n, ast.Call) and isinstance(n.func, ast.Attribute) and n.func.attr in ('strip', 'lstrip', 'rstrip') and n.args \
                    and isinstance(n.args[0], ast.Name) and n.args[0].id == sp:
                rep.fail('C16.framing', FILE, fn_.name, src(n)[:100], n.lineno,
                         '%s treats the caller\'s separator as a set of characters: with a separator of several characters the first characters of the '
                         'next element that occur in it are removed too' % src(n.func)[-20:])
                nsep += 1
    if not nsep:
        rep.ok('C16.framing', '%s info/encode' % FILE, 'the separator is never used as a character set (strip family)')
    # --- compact() and the shared clean-up leave the characters of values alone: GS1 values are written in the "charset 82"
    #     (letters, digits and !"%&'()*+,-./:;<=>?_), the parentheses around identifiers are the only characters compact() may drop
    cfn = funcs.get('compact')
    if cfn is None:
        raise AnalysisError('%s: compact() vanished' % FILE)
    dels = [c for c in ast.walk(cfn) if isinstance(c, ast.Call) and src(c.func) == 'clean' and len(c.args) > 1]
    for c in dels:
        d_ = c.args[1]
        okd = isinstance(d_, ast.Constant) and isinstance(d_.value, str) and set(d_.value) <= set('()')
        rep.check(okd, 'C16.value', FILE, 'compact', src(c)[:80], c.lineno,
                  'compact() deletes %s: besides the parentheses written around identifiers these characters can belong to a value or to the '
                  'caller\'s separator, which info() then no longer finds' % src(d_)[:40], what='compact() deletes only ( and )')
    for c in ast.walk(cfn):
        if isinstance(c, ast.Call) and isinstance(c.func, ast.Attribute) and c.func.attr in ('strip', 'lstrip', 'rstrip') and c.args:
            rep.fail('C16.value', FILE, 'compact', src(c)[:80], c.lineno,
                     'compact() strips the character set %s from an end of the element string: these characters can be the first or last characters of '
                     'an identifier or a value (strip()/lstrip() take a set of characters, not a prefix)' % src(c.args[0])[:30])
    from . import c14 as _c14
    cmap = _c14.charmap()
    charset82 = '!"%&\'()*+,-./0123456789:;<=>?ABCDEFGHIJKLMNOPQRSTUVWXYZ_abcdefghijklmnopqrstuvwxyz'
    altered = sorted(ch for ch in charset82 if cmap.get(ch, ch) != ch)
    rep.check(not altered, 'C16.value', 'stdnum/util.py', 'clean', 'look-alike table on the GS1 character set', 0,
              'clean() rewrites %s, which can be part of a GS1 value (character set 82): the validated form decodes to another value than the input'
              % ', '.join('%r -> %r' % (ch, cmap[ch]) for ch in altered), what='the 82 value characters are fixed points of clean()')
    # --- value handed to the decoder is a slice of the element string
    numvar = inf.args.args[0].arg
    decs = [n for n in ast.walk(inf) if isinstance(n, ast.Call) and src(n.func) == '_decode_value']
    valname = src(decs[0].args[2]) if len(decs) == 1 and len(decs[0].args) == 3 and isinstance(decs[0].args[2], ast.Name) else None
    for n in ast.walk(inf):
        if valname and isinstance(n, ast.Assign) and len(n.targets) == 1 and src(n.targets[0]) == valname:
            v = n.value
            ok = isinstance(v, ast.Subscript) and src(v.value) == numvar and isinstance(v.slice, ast.Slice)
            rep.check(ok, 'C16.value', FILE, 'info', src(n), n.lineno,
                      'the value decoded for an identifier is %s, not the characters of the element string: decoding and re-encoding no longer agree' % src(v)[:60])
    from ..match import resolve_locals

    def rl(fn_, e_):
        # the function's first parameter is renamed by resolve_locals; format/type expressions do not mention it
        return src(resolve_locals(fn_, e_))
    rep.check(valname is not None and rl(inf, decs[0].args[0]) == "%s['format']" % ri_ and rl(inf, decs[0].args[1]) == "%s['type']" % ri_,
              'C16.value', FILE, 'info', src(decs[0]) if decs else '_decode_value(...)', inf.lineno, 'info() does not decode the value with the format and type of its identifier')
    encs = [n for n in ast.walk(encf) if isinstance(n, ast.Call) and src(n.func) == '_encode_value']
    rep.check(len(encs) == 1 and len(encs[0].args) == 3 and rl(encf, encs[0].args[0]) == "%s['format']" % re_ and rl(encf, encs[0].args[1]) == "%s['type']" % re_
              and isinstance(encs[0].args[2], ast.Name),
              'C16.value', FILE, 'encode', src(encs[0]) if encs else '_encode_value(...)', encf.lineno, 'encode() does not encode the value with the format and type of its identifier')
    # --- validate = encode(info(x, sep), sep) in the catch-all
    val = funcs['validate']
    b = strip_doc(val.body)
    okv = len(b) == 1 and isinstance(b[0], ast.Try) and len(b[0].body) == 1 and isinstance(b[0].body[0], ast.Return) and \
        match_expr('encode(info(%s, %s), %s)' % (val.args.args[0].arg, val.args.args[1].arg, val.args.args[1].arg), b[0].body[0].value) is not None
    rep.check(okv, 'C16.value', FILE, 'validate', src(b[0].body[0]) if b and isinstance(b[0], ast.Try) else src(b[0]), val.lineno,
              'validate() is not encode(info(number, separator), separator)')
