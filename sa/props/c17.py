"""C17 - single typing errors in check-digit protected identifiers are rejected (decided part).

 C17.coverage   STRABS: on every accepting path of validate() every character of the canonical input
                (the string bound by `number = compact(number)`) has been handed to a check digit
                algorithm, a generator or a comparison - a position that no check ever sees can be
                altered freely.  Decided for the formats the property names and for every national
                module whose validate() uses Luhn, Verhoeff, Damm or an ISO 7064 module.
 C17.delegate   the algorithm used is one of the generic modules; its substitution (and, for
                Verhoeff, Damm, Mod 11-2 and Mod 97-10, transposition) guarantees are the tabulated
                obligations of the ALG engine (C06), re-checked here.
 C17.inline     ISBN-10, ISSN and EAN use inline weighted sums: their weighted-sum normal form
                (modulus, weights, residue table) is extracted by the interpreter and must satisfy
                M / gcd(w_i, M) > 9 for every position (single digit substitution), an injective
                residue table, and for ISBN-10 / ISSN a prime modulus with pairwise different adjacent
                weights including the check position (adjacent transposition).
 C17.distance   for the Mod 97-10 formats whose input is rearranged (IBAN, ISO 11649) the expanded
                length stays below the multiplicative order of 10 modulo 97, so that the pair split
                by the rearrangement is still detected.
 C17.exempt     a documented class of numbers that validate() takes out of the generic algorithm (fr.siret: establishments of
                La Poste) stays delimited by exactly the documented prefix, whether written in place or as a module constant.
 C17.discard    characters that compact()/validate() cut off before the check (a prefix recognised with
                startswith / a slice comparison / membership in a tuple, then `number[k:]`) are seen by
                no check; that is harmless for one fixed prefix (a mistyped prefix is not recognised and
                the length or alphabet gate rejects the longer string) but two recognised prefixes of the
                same length that differ in one character turn a single substitution into another accepted
                spelling of a different number."""
import ast
import math
import os

from ..common import Report, rel, src
from .. import scope

NAMED = ['stdnum.isbn', 'stdnum.ean', 'stdnum.issn', 'stdnum.ismn', 'stdnum.imei', 'stdnum.isni', 'stdnum.iban', 'stdnum.lei', 'stdnum.iso11649', 'stdnum.grid']
TRANS_ALGS = {'stdnum.verhoeff', 'stdnum.damm', 'stdnum.iso7064.mod_11_2', 'stdnum.iso7064.mod_97_10'}
# national numbers of which only a part is protected by the generic algorithm, confirmed by reading the module documentation:
# module -> (positions of the canonical input that no check sees, reason).  More uncovered positions than these are a violation.
PARTIAL = {
    'stdnum.ca.bn': ({11, 12, 13, 14}, 'the 15-character form appends a program identifier and a reference number that are not part of the Luhn-checked BN'),
    'stdnum.id.npwp': ({9, 10, 11, 12, 13, 14, 15}, 'tax office and branch codes follow the Luhn-checked nine digits'),
    'stdnum.in_.epic': ({0, 1, 2}, 'the three-letter prefix is not part of the Luhn check'),
    'stdnum.se.personnummer': ({0, 1}, 'the century digits of the 12-digit form are not part of the Luhn check'),
    'stdnum.eu.at_02': (None, 'the creditor business code (positions 5-7) is excluded from the Mod 97-10 check by the rule book; the length is not gated'),
}
# accepting paths without any check, confirmed by reading the module documentation (module -> reason)
UNCHECKED_PATHS = {
    'stdnum.do.cedula': 'whitelist of issued cedulas whose check digit is known to be wrong: accepted as they are',
    'stdnum.id.npwp': 'the 16-digit form that is a NIK (national identity number) carries no Luhn digit',
}
# classes of numbers that a validate() takes out of the generic algorithm on purpose, confirmed by reading the module documentation:
# module -> (prefix that delimits the class, reason).  The class must stay exactly this one: a shorter or different prefix puts other
# numbers under the weaker rule.
EXEMPT_PREFIX = {
    'stdnum.fr.siret': ('356000000', 'establishments of La Poste (SIREN 356000000) use the digit sum modulo 5 instead of Luhn'),
}
COVERAGE_UNDECIDED = {
    'stdnum.nl.btw': 'alternative acceptance: either the BSN check or Mod 97-10 over the whole number; coverage is per alternative',
    'stdnum.isan': scope._REBUILD, 'stdnum.meid': scope._REBUILD, 'stdnum.gs1_128': scope._REBUILD,
}


def file_of(prog, mn):
    return rel(prog.mods[mn].path)


def _consts(node):
    """String constants of a constant, a tuple/list/set of constants, or None."""
    if isinstance(node, ast.Constant) and isinstance(node.value, str):
        return [node.value]
    if isinstance(node, (ast.Tuple, ast.List, ast.Set)):
        out = []
        for e in node.elts:
            c = _consts(e)
            if c is None:
                return None
            out += c
        return out
    return None


def discarded_prefixes(func):
    """[(prefix constants, If node)] for every `if <prefix test>: ... number[k:] ...` of the function, loops over constant
    tuples included (`for prefix in (...): if number.startswith(prefix): number = number[len(prefix):]`)."""
    out = []
    loopvars = {}
    for n in ast.walk(func):
        if isinstance(n, (ast.For, ast.comprehension)) and isinstance(n.target, ast.Name) and _consts(n.iter) is not None:
            loopvars[n.target.id] = _consts(n.iter)

    def val(e):
        if isinstance(e, ast.Name) and e.id in loopvars:
            return loopvars[e.id]
        return _consts(e)
    for n in ast.walk(func):
        if not isinstance(n, ast.If):
            continue
        drops = any(isinstance(x, ast.Subscript) and isinstance(x.slice, ast.Slice) and x.slice.lower is not None and x.slice.upper is None
                    and x.slice.step is None and not (isinstance(x.slice.lower, ast.UnaryOp))
                    for b in n.body for x in ast.walk(b))
        if not drops:
            continue
        pref = []
        for t in ast.walk(n.test):
            if isinstance(t, ast.Call) and isinstance(t.func, ast.Attribute) and t.func.attr == 'startswith' and t.args:
                pref += val(t.args[0]) or []
            elif isinstance(t, ast.Compare) and len(t.ops) == 1 and isinstance(t.ops[0], (ast.In, ast.Eq)) and isinstance(t.left, ast.Subscript) \
                    and isinstance(t.left.slice, ast.Slice) and t.left.slice.lower is None and t.left.slice.upper is not None:
                pref += val(t.comparators[0]) or []
        if pref:
            out.append((pref, n))
    return out


def check(tier):
    from ..strabs.run import analyse_validate, validate_with_options, get_interp
    from ..strabs.wsnf import normal_form
    from . import c06
    rep = Report('C17', tier, level='other',
                 rule_text='coverage facts of the abstract interpreter (every input character reaches a check), delegation to the tabulated '
                           'generic algorithms, weighted-sum normal form side conditions for the inline generators',
                 trusted=['sa/alg/LEMMAS.md', 'models in sa/strabs', 'number theory: a*w == b*w (mod M) for digits a != b iff M / gcd(w, M) <= 9'],
                 assumptions=['validate() with default options; IBAN evaluated with check_country=False (the national validators only add checks, C09.shape)'])
    I = get_interp()
    B = I.B
    prog = I.prog
    res = analyse_validate()
    # ---- the generic algorithms' own guarantees
    sub = Report('C17', tier)
    c06.analyse(sub, tier)
    broken = {}
    for f in sub.findings:
        broken.setdefault(f.file, []).append(f)
    algfile = {m: rel(prog.mods[m].path) for m in I.ALG_MODULES}
    # ---- coverage
    inscope = list(NAMED)
    for mn in sorted(res):
        if mn in I.ALG_MODULES or mn in inscope:
            continue
        if any(r_.get('algorithms') for r_ in res[mn]['returns'] if r_['kind'] == 'str'):
            inscope.append(mn)
    rep.unit('modules in scope', len(inscope))
    for mn in inscope:
        r = res[mn]
        file = rel(prog.mods[mn].path)
        rets = [x for x in r['returns'] if x['kind'] == 'str']
        if mn == 'stdnum.iban':
            rets = validate_with_options(mn, {'check_country': False})
        if mn == 'stdnum.imei':
            rets = [x for x in rets if x['lo'] == 15 and x['hi'] == 15]
        nochk = []
        if mn not in NAMED:
            # accepting paths of the same validate() that no check digit algorithm sees: fine when another check (an inline
            # generator, a comparison) covers every position of the input on that path, a violation when nothing does
            nochk = [x for x in rets if not x.get('algorithms') and x.get('input_uncovered') and x['input_uncovered'][0]]
            rets = [x for x in rets if x.get('algorithms')]
        if mn in COVERAGE_UNDECIDED:
            rep.undecide('C17.coverage', file, COVERAGE_UNDECIDED[mn])
            continue
        if not rets:
            rep.undecide('C17.coverage', file, 'no accepting path found')
            continue
        if nochk and mn not in UNCHECKED_PATHS:
            rep.fail('C17.coverage', file, 'validate', 'accepting path without the check', 0,
                     '%s.validate() uses a check digit algorithm on some accepting paths but accepts numbers of shape %s without handing them to it: '
                     'a typing error in such a number is not rejected' % (mn.replace('stdnum.', ''), nochk[0]['desc'][:80]))
        bad = []
        und = 0
        algs = set()
        vac = sorted({v for x in rets for v in x.get('vacuous', [])})
        rep.check(not vac, 'C17.vacuous', file, 'validate', 'check digit comparison involves the input', 0,
                  'on an accepting path of %s.validate() the check digit comparison in %s compares a generated character with a generated character: '
                  'the character the user typed is never checked' % (mn.replace('stdnum.', ''), ', '.join(vac)),
                  what='%s: no comparison of generated against generated characters' % mn.replace('stdnum.', ''))
        for x in rets:
            algs.update(x.get('algorithms') or [])
            iu = x.get('input_uncovered')
            if not iu:
                und += 1
                continue
            if iu[0]:
                if mn in PARTIAL and (PARTIAL[mn][0] is None or {p for p, _c in iu[0]} <= PARTIAL[mn][0]):
                    continue
                bad.append((x['input_desc'][0] if x.get('input_desc') else x['desc'], iu[0]))
        if bad:
            rep.fail('C17.coverage', file, 'validate', 'every input position reaches a check', 0,
                     '%s.validate() accepts numbers of shape %s without ever checking position(s) %s: a typing error there is not rejected'
                     % (mn.replace('stdnum.', ''), bad[0][0], [p for p, _c in bad[0][1]][:12]))
        elif und == len(rets):
            rep.undecide('C17.coverage', file, 'the canonical input could not be tracked to the returns')
        else:
            rep.ok('C17.coverage', '%s validate' % file, '%d accepting paths: every character of the input reaches %s'
                   % (len(rets) - und, ', '.join(a.replace('stdnum.', '') for a in sorted(algs)) or 'the inline check'))
        for a in sorted(algs):
            fl = broken.get(algfile[a], [])
            rep.check(not fl, 'C17.delegate', file, 'validate', 'uses %s' % a.replace('stdnum.', ''), 0,
                      'the algorithm %s does not give its guarantees: %s' % (a, fl[0].detail[:120] if fl else ''),
                      what='%s relies on %s (substitution%s)' % (mn.replace('stdnum.', ''), a.replace('stdnum.', ''), ' + transposition' if a in TRANS_ALGS else ''))
    # ---- documented exemptions keep their extent
    for mn, (want, why) in sorted(EXEMPT_PREFIX.items()):
        m_ = prog.mods.get(mn)
        f = m_.funcs.get('validate') if m_ else None
        if f is None:
            rep.error('%s.validate vanished (exemption %s)' % (mn, want))
            continue
        consts = {st.targets[0].id: st.value.value for st in m_.tree.body if isinstance(st, ast.Assign) and len(st.targets) == 1
                  and isinstance(st.targets[0], ast.Name) and isinstance(st.value, ast.Constant) and isinstance(st.value.value, str)}

        def strval(e):
            if isinstance(e, ast.Constant) and isinstance(e.value, str):
                return [e.value]
            if isinstance(e, ast.Name) and e.id in consts:
                return [consts[e.id]]
            if isinstance(e, (ast.Tuple, ast.List, ast.Set)):
                return [v for x in e.elts for v in (strval(x) or [None])]
            return None
        found = []
        for n in ast.walk(f):
            if not isinstance(n, ast.If):
                continue
            # a branch that decides between the algorithm and something else
            calls = {src(c.func) for b in n.body + n.orelse for c in ast.walk(b) if isinstance(c, ast.Call)}
            if not any(c.split('.')[0] in ('luhn', 'verhoeff', 'damm', 'mod_11_10', 'mod_11_2', 'mod_37_2', 'mod_37_36', 'mod_97_10') for c in calls):
                continue
            for t in ast.walk(n.test):
                if isinstance(t, ast.Call) and isinstance(t.func, ast.Attribute) and t.func.attr == 'startswith' and t.args:
                    found.append((n, strval(t.args[0])))
                elif isinstance(t, ast.Compare) and len(t.ops) == 1 and isinstance(t.ops[0], (ast.Eq, ast.In, ast.NotEq, ast.NotIn)) \
                        and isinstance(t.left, ast.Subscript) and isinstance(t.left.slice, ast.Slice) and t.left.slice.lower is None:
                    found.append((n, strval(t.comparators[0])))
        if not found:
            rep.fail('C17.exempt', file_of(prog, mn), 'validate', 'exemption %s' % want, f.lineno,
                     '%s.validate() no longer delimits the documented exemption (%s) by a prefix test in front of the check algorithm' % (mn.replace('stdnum.', ''), why))
            continue
        for n, vals in found:
            rep.check(vals == [want], 'C17.exempt', file_of(prog, mn), 'validate', 'if %s' % src(n.test), n.lineno,
                      '%s.validate() takes the numbers that start with %s out of the check digit algorithm; the documented exemption is the prefix %r (%s): '
                      'every other number under the weaker rule loses the protection against single typing errors'
                      % (mn.replace('stdnum.', ''), vals, want, why), what='%s: exemption delimited by %r' % (mn.replace('stdnum.', ''), want))
    # ---- characters cut off before the check
    for mn in inscope:
        file = rel(prog.mods[mn].path)
        for fn in ('compact', 'validate'):
            f = prog.mods[mn].funcs.get(fn)
            if f is None:
                continue
            sites = discarded_prefixes(f)
            pool = sorted({p for pref, _n in sites for p in pref})
            near = [(a, b) for i, a in enumerate(pool) for b in pool[i + 1:] if len(a) == len(b) and sum(x != y for x, y in zip(a, b)) == 1]
            for pref, n in sites:
                mine = [pr for pr in near if pr[0] in pref or pr[1] in pref]
                rep.check(not mine, 'C17.discard', file, fn, 'if %s' % ast.unparse(n.test), n.lineno,
                          '%s.%s() cuts off a recognised prefix before the check and recognises both %r and %r, which differ in one character: '
                          'mistyping that character gives another accepted spelling and no check sees it'
                          % ((mn.replace('stdnum.', ''), fn) + (mine[0] if mine else ('', ''))),
                          what='%s %s: discarded prefixes %s pairwise more than one substitution apart' % (mn.replace('stdnum.', ''), fn, pool))
    # ---- inline weighted sums
    D = B.cls_of_chars('0123456789')
    inline = [('stdnum.isbn', '_calc_isbn10_check_digit', [9], True, 'ISBN-10'), ('stdnum.issn', 'calc_check_digit', [7], True, 'ISSN'),
              ('stdnum.ean', 'calc_check_digit', [7, 11, 12, 13], False, 'EAN/GTIN')]
    vals = {str(i): i for i in range(10)}
    vals['X'] = 10
    for mn, fn, lengths, trans, label in inline:
        file = rel(prog.mods[mn].path)
        if fn not in prog.mods[mn].funcs:
            rep.error('%s.%s vanished' % (mn, fn))
            continue
        for L in lengths:
            nf = normal_form(I, mn, fn, [D] * L)
            if nf is None:
                rep.fail('C17.inline', file, fn, '%s payload length %d' % (label, L), prog.mods[mn].funcs[fn].lineno,
                         'the generator is no longer a weighted sum reduced by a modulus that the interpreter can normalise')
                continue
            M = nf.M
            for i, w in enumerate(nf.weights):
                rep.check(w % M != 0 and M // math.gcd(w, M) > 9, 'C17.inline', file, fn, '%s length %d position %d weight %d mod %d' % (label, L, i, w, M),
                          prog.mods[mn].funcs[fn].lineno,
                          'digit substitutions at position %d are not all detected: weight %d modulo %d maps two digits to the same contribution' % (i, w, M),
                          what='%s/%d: weight %d at position %d' % (label, L, w, i))
            tb = [nf.table[r_] for r_ in range(M)]
            rep.check(all(t is not None and len(t) == 1 for t in tb) and len(set(tb)) == M, 'C17.inline', file, fn, '%s length %d residue table' % (label, L),
                      prog.mods[mn].funcs[fn].lineno, 'the residue -> check character table %s is not injective: two residues share a check character' % tb,
                      what='%s/%d: table %s' % (label, L, ''.join(t or '?' for t in tb)))
            u = nf.check_weight(vals)
            rep.check(u is not None, 'C17.inline', file, fn, '%s length %d check weight' % (label, L), prog.mods[mn].funcs[fn].lineno,
                      'the check character does not enter the sum linearly', what='%s/%d: check weight %s' % (label, L, u))
            if trans and u is not None:
                prime = all(M % p for p in range(2, int(M ** 0.5) + 1)) and M > 1
                ws = list(nf.weights) + [u]
                distinct = all((a - b) % M != 0 for a, b in zip(ws, ws[1:]))
                rep.check(prime and distinct, 'C17.inline', file, fn, '%s length %d adjacent weights' % (label, L), prog.mods[mn].funcs[fn].lineno,
                          'adjacent transpositions are not all detected: modulus %d %s, weights %s' % (M, 'prime' if prime else 'not prime', ws),
                          what='%s/%d: modulus %d prime, adjacent weights %s differ' % (label, L, M, ws))
    # ---- rearranged Mod 97-10 inputs stay below the order of 10
    order = 1
    x = 10 % 97
    while x != 1:
        x = (x * 10) % 97
        order += 1
    from ..reg import ReaderModel, Registry
    import re as _re
    ib = Registry(ReaderModel(), os.path.join(prog.repo, 'stdnum', 'iban.dat'))
    mx = 0
    for e in ib.entries:
        n = 4
        for m_ in _re.finditer(r'([1-9][0-9]*)!([nac])', e.props.get('bban', '')):
            n += int(m_.group(1)) * (1 if m_.group(2) == 'n' else 2)
        mx = max(mx, n + 4)
    rep.check(mx < order, 'C17.distance', 'stdnum/iban.dat', '-', 'longest expanded IBAN %d digits' % mx, 0,
              'an IBAN structure expands to %d digits, not below the order %d of 10 modulo 97' % (mx, order), what='max expansion %d < %d' % (mx, order))
    iso = [x for x in res['stdnum.iso11649']['returns'] if x['kind'] == 'str']
    hi = max([(x['hi'] or 10 ** 6) for x in iso] or [10 ** 6])
    rep.check(2 * hi < order, 'C17.distance', 'stdnum/iso11649.py', 'validate', 'longest reference %s characters' % hi, 0,
              'ISO 11649 references of %s characters expand beyond the order %d of 10 modulo 97' % (hi, order), what='2 * %s < %d' % (hi, order))
    rep.expect_at_least('C17.coverage', 25, 'modules')
    rep.expect_at_least('C17.inline', 40, 'inline weight obligations')
    rep.expect_at_least('C17.discard', 8, 'prefix-discarding branches')
    rep.not_decided = ['accepting paths without a check by design: ' + '; '.join('%s (%s)' % kv for kv in UNCHECKED_PATHS.items()), 'partially protected by design: ' + '; '.join('%s (%s)' % (k, v[1]) for k, v in PARTIAL.items()), 'letters replaced by letters in formats whose check runs over a mixed alphabet beyond what the generic algorithm guarantees',
                       'IMEI of 14 or 16 digits (no check digit by definition)'] + ['%s: %s' % kv for kv in COVERAGE_UNDECIDED.items()]
    return rep.finish()
