"""C04 - format() preserves the identity of a valid number.

 C04.consumes-compact  information-flow rule: format()'s raw parameter is read only through the
                       module's compact() (or an equivalent one), so format(x) == format(validate(x)).
 C04.roundtrip         STRABS: for every accepted number v (every return path of validate(), bounded
                       variable lengths specialised per length, ASCII spellings), compact(format(v))
                       is v position by position.  With C03 this gives validate(format(x)) == validate(x).
 C04.total             no partial operation of format() can fail on an accepted number."""
import ast
from ..common import Report, rel, src as src_
from .. import scope
from ..rawflow import raw_uses, flatten, compact_nf, nf_equiv, statement_nf


def check(tier):
    from ..strabs.run import analyse_functions, get_interp
    rep = Report('C04', tier, level='other',
                 rule_text='information-flow rule on format()\'s parameter + abstract interpretation of compact(format(v)) for every accepted shape v '
                           '(cells of the result must be the cells of v, position by position)',
                 trusted=['models of builtins/str methods in sa/strabs', 'C03 (validate depends on compact(x) only)'],
                 assumptions=['option parameters of format() take their defaults', 'documented normalisations (ISMN, ISAN, ISIL, MEID) are not decided'])
    I = get_interp()
    prog = I.prog
    res = analyse_functions()
    n = 0
    for mn in sorted(res):
        r = res[mn]
        m = prog.mods[mn]
        if r['crash']:
            rep.error('STRABS crashed on %s: %s' % (mn, r['crash'][-200:].replace('\n', ' | ')))
            continue
        rf = prog.resolve_name(m, 'format')
        if not rf or rf[0] != 'func':
            continue
        n += 1
        fmod, ffn = rf[1], prog.mods[rf[1]].funcs[rf[2]]
        file = rel(prog.mods[fmod].path)
        # --- information flow
        own = compact_nf(prog, mn)
        if mn in scope.C03_EXCLUDED_BY_PROPERTY and mn.startswith('stdnum.us.'):
            rep.undecide('C04.consumes-compact', file, scope._US)
        elif own is None:
            rep.undecide('C04.consumes-compact', file, 'module has no compact()')
        else:
            leaves = flatten(raw_uses(prog, fmod, ffn))
            for u, chain in leaves:
                where = ' -> '.join('%s.%s' % (a.replace('stdnum.', ''), b) for a, b in chain)
                if u.kind == 'compact':
                    ok = nf_equiv(own, compact_nf(prog, u.target[0], u.target[1]))
                    rep.check(ok, 'C04.consumes-compact', file, 'format', '%s%s.compact' % ((where + ' -> ') if where else '', u.target[0].replace('stdnum.', '')),
                              u.stmt.lineno, 'format() reads its argument through %s.compact, which is not equivalent to the module\'s compact()' % u.target[0],
                              what='%s.format reads raw input via %s.compact' % (mn, u.target[0]))
                elif u.kind in ('unused', 'dynamic'):
                    continue
                elif u.kind == 'clean' and not chain and nf_equiv(own, statement_nf(prog, fmod, ffn, u.stmt)):
                    rep.ok('C04.consumes-compact', '%s:%d format' % (file, u.stmt.lineno), 'inline clean() chain with the normal form of compact()')
                elif mn in scope.C04_FLOW_UNDECIDED and (mn != 'stdnum.th.tin' or (isinstance(u.stmt, ast.Return) and isinstance(u.stmt.value, ast.Name))):
                    rep.undecide('C04.consumes-compact', '%s:%d' % (file, u.stmt.lineno), scope.C04_FLOW_UNDECIDED[mn])
                else:
                    from ..common import src
                    rep.fail('C04.consumes-compact', file, 'format' + ((' -> ' + where) if where else ''), src(u.stmt).split(' : ')[0][:140], u.stmt.lineno,
                             'format() reads its raw argument (%s) without compact(): the formatted text depends on how the number was written'
                             % (u.detail or u.kind))
        # --- validate() must not normalise beyond compact(): format(x) consumes compact(x), the round trip is proven on validate(x)
        rv = prog.resolve_name(m, 'validate')
        if rv and rv[0] == 'func' and mn not in scope.C04_UNDECIDED and own is not None:
            vfn = prog.mods[rv[1]].funcs[rv[2]]
            vp = vfn.args.args[0].arg if vfn.args.args else None
            opts = {a.arg for a in vfn.args.args[1:]}
            par = {}
            for x in ast.walk(vfn):
                for c in ast.iter_child_nodes(x):
                    par[c] = x
            compacted = False
            for st in [x for x in ast.walk(vfn) if isinstance(x, ast.Assign)]:
                if not (len(st.targets) == 1 and isinstance(st.targets[0], ast.Name) and st.targets[0].id == vp):
                    continue
                v = st.value
                if isinstance(v, ast.Call) and not (isinstance(v.func, ast.Attribute) and isinstance(v.func.value, ast.Name) and v.func.value.id == vp):
                    # compact(number).upper(): a case mapping (or another rewrite) on top of compact() that compact() itself does not do
                    layers, root = [], v
                    while isinstance(root, ast.Call) and isinstance(root.func, ast.Attribute) and isinstance(root.func.value, ast.Call):
                        layers.append(root.func.attr)
                        root = root.func.value
                    if layers and isinstance(root, ast.Call) and src_(root.func) == 'compact' and isinstance(own, tuple) and len(own) > 2:
                        extra = [l_ for l_ in layers if l_ in ('upper', 'lower', 'replace', 'lstrip', 'rstrip', 'zfill', 'swapcase', 'title') and l_ not in own[2]]
                        if extra:
                            rep.fail('C04.validate-normal-form', rel(prog.mods[rv[1]].path), 'validate', src_(st)[:120], st.lineno,
                                     'validate() applies .%s() on top of compact(), which compact() itself does not do: format() starts from compact(x), so for '
                                     'an input that needs this rewrite format(x) is built from other characters than validate(x)' % extra[0])
                    compacted = compacted or 'compact' in src_(v.func) or 'clean' in src_(v.func) or (isinstance(root, ast.Call) and src_(root.func) == 'compact')
                    continue            # compact(...), another module's validate(...): results in compact form
                reads_self = any(isinstance(x, ast.Name) and x.id == vp for x in ast.walk(v))
                under_option = False
                q = st
                while q in par:
                    q = par[q]
                    if isinstance(q, ast.If) and any(isinstance(x, ast.Name) and x.id in opts for x in ast.walk(q.test)):
                        under_option = True
                # idempotent repetition of something compact() already did (number = number.upper() after an upper-casing compact)
                redundant = isinstance(v, ast.Call) and isinstance(v.func, ast.Attribute) and not v.args and isinstance(v.func.value, ast.Name) \
                    and v.func.attr in ('strip', 'upper', 'lower') and isinstance(own, tuple) and len(own) > 2 and v.func.attr in own[2]
                if reads_self and compacted and not under_option and not redundant:
                    rep.fail('C04.validate-normal-form', rel(prog.mods[rv[1]].path), 'validate', src_(st)[:120], st.lineno,
                             'validate() rewrites the compact form once more (%s) before checking and returning it, but format() starts from compact(x): for an input '
                             'written in the form that only validate() understands, format(x) is built from characters validate(x) does not contain' % src_(v)[:60])
            rep.ok('C04.validate-normal-form', '%s validate' % file, 'the value validate() checks is compact(x) itself') if compacted else None
        rec = r['functions'].get('format')
        if rec is None:
            rep.undecide('C04.roundtrip', file, 'format() has more than one required parameter or was not analysed')
            continue
        # --- totality
        for a in rec['alarms']:
            if a.get('reg'):
                continue
            key = '%s|%s|%s' % (a['module'], a['func'], a['construct'])
            structural = a['kind'] == 'AttributeError' and a['why'].startswith('module ') and ' has no ' in a['why']
            if mn in scope.C04_UNDECIDED and mn != 'stdnum.pt.cc' and not structural:
                rep.undecide('C04.total', '%s:%d' % (a['file'], a['line']), scope.C04_UNDECIDED[mn])
                continue
            rep.fail('C04.total:%s' % a['kind'], a['file'], a['func'], a['construct'], a['line'],
                     '%s may escape %s.format() on an accepted number (%s): %s' % (a['kind'], mn.replace('stdnum.', ''), a.get('input', ''), a['why']))
        # --- result kind: a string on every path (None from a function that falls off its end is a TypeError in every caller)
        kinds = set(rec.get('kinds') or [])
        if kinds and mn not in scope.C04_UNDECIDED:
            rep.check(kinds <= {'str'}, 'C04.total:kind', file, 'format', 'result kinds %s' % sorted(kinds), rec['where'][1],
                      '%s.format() can return %s for an accepted number instead of a string' % (mn.replace('stdnum.', ''), ', '.join(sorted(kinds - {'str'}))),
                      what='%s.format() returns a string on all %d paths' % (mn, rec.get('paths', 0)))
        # --- round trip
        probs = rec.get('roundtrip_problems') or []
        if probs or not rec.get('roundtrips'):
            if mn in scope.C04_UNDECIDED:
                rep.undecide('C04.roundtrip', file, scope.C04_UNDECIDED[mn])
            elif not rec.get('roundtrips'):
                rep.undecide('C04.roundtrip', file, 'no accepted shape reached format()')
            else:
                rep.fail('C04.roundtrip', file, 'format', 'compact(format(v)) is v', rec['where'][1],
                         '%s: %d of %d accepted shapes are not preserved, e.g. %s' % (mn.replace('stdnum.', ''), len(probs), rec['roundtrips'], probs[0][:200]))
        else:
            rep.ok('C04.roundtrip', '%s:%d format' % (file, rec['where'][1]), '%d accepted shapes: compact(format(v)) is v position by position' % rec['roundtrips'])
    rep.unit('format functions', n)
    rep.expect_at_least('C04.roundtrip', 90, 'format functions with a proven round trip')
    rep.not_decided = ['%s: %s' % kv for kv in sorted(scope.C04_UNDECIDED.items())]
    return rep.finish()
