"""C07 - international identifiers agree with an independent reading of their standard (decided part).

Oracle: specs/international.json, transcribed by hand from the standards.  Per format:
 C07.envelope   the accepted language of validate() as computed by the abstract interpreter (set of
                lengths and, per length, the exact character set of every position) equals the
                transcribed shape - in both directions;
 C07.compact    the normal form of compact() (deleted characters, case folding, stripping, literal
                prefixes removed) equals the transcribed presentation rules;
 C07.checksum   inline generators: weighted-sum normal form (modulus, canonical weights with the check
                weight normalised to 1, residue table, character values) equals the transcribed
                scheme; delegates: every accepting path hands the number (in the transcribed
                rearrangement) to the named generic algorithm (whose own guarantees are C06);
 C07.constant   alphabets the arithmetic indexes into equal the transcribed value order."""
import ast
import json
import os
import re

from ..common import Report, VERIF, rel, src
from ..rawflow import compact_nf


def expand(pattern):
    """'[0-9]{9}[0-9X]' -> list of shapes (each a list of sorted-char strings); {m,n} gives several shapes."""
    items = []
    i = 0
    while i < len(pattern):
        ch = pattern[i]
        if ch == '[':
            j = pattern.index(']', i)
            body = pattern[i + 1:j]
            chars = set()
            k = 0
            while k < len(body):
                if k + 2 < len(body) and body[k + 1] == '-':
                    chars.update(chr(c) for c in range(ord(body[k]), ord(body[k + 2]) + 1))
                    k += 3
                else:
                    chars.add(body[k])
                    k += 1
            i = j + 1
        else:
            chars = {ch}
            i += 1
        lo = hi = 1
        if i < len(pattern) and pattern[i] == '{':
            j = pattern.index('}', i)
            q = pattern[i + 1:j]
            if ',' in q:
                lo, hi = [int(x) for x in q.split(',')]
            else:
                lo = hi = int(q)
            i = j + 1
        items.append((''.join(sorted(chars)), lo, hi))
    shapes = [[]]
    for chars, lo, hi in items:
        nxt = []
        for s in shapes:
            for n in range(lo, hi + 1):
                nxt.append(s + [chars] * n)
        shapes = nxt
    return shapes


def canonical(weights, u, M):
    """scale so that the check character has weight 1."""
    for inv in range(1, M):
        if (u * inv) % M == 1:
            return [(w * inv) % M for w in weights]
    return None


def check(tier):
    from ..strabs.run import analyse_validate, get_interp, validate_with_options
    from ..strabs.wsnf import normal_form
    rep = Report('C07', tier, level='other',
                 rule_text='comparison of interpreter-computed accept envelopes, compact() normal forms and weighted-sum normal forms with a '
                           'hand-transcribed table of the standards (specs/international.json)',
                 trusted=['specs/international.json', 'models in sa/strabs', 'sa/alg/LEMMAS.md for the delegated algorithms'],
                 assumptions=['registry tables (country codes, IBAN structures, ISBN ranges) are taken as given',
                              'digit-sum arithmetic of ISIN/CUSIP/FIGI and the hash/Bech32 parts of Bitcoin addresses are not decided'])
    with open(os.path.join(VERIF, 'specs', 'international.json')) as fh:
        spec = json.load(fh)['formats']
    # the IBAN envelope includes the national rules reached through util.get_cc_module
    from .c09 import check_cc_import
    check_cc_import(rep, 'C07.dispatch-import')
    I = get_interp()
    B = I.B
    prog = I.prog
    res = analyse_validate()
    # guarantees of the generic algorithm modules (decided by C06 on their source): a delegate is only as good as its algorithm
    from . import c06
    from ..common import AnalysisError as _AE
    sub = Report('C07', tier)
    try:
        c06.analyse(sub, tier)
    except _AE as e:
        rep.error('generic algorithm modules: %s' % e)
    broken = {}
    for f in sub.findings:
        broken.setdefault(f.file, []).append(f)
    algfile = {m: rel(prog.mods[m].path) for m in I.ALG_MODULES}
    for name, sp in sorted(spec.items()):
        mn = sp['module']
        if mn not in prog.mods:
            rep.error('module %s vanished' % mn)
            continue
        file = rel(prog.mods[mn].path)
        # ---- compact normal form
        nf = compact_nf(prog, mn)
        c = sp.get('compact')
        if c and nf and nf[0] == 'nf':
            flags = nf[2]
            prefixes = []
            for rule in (nf[4] if len(nf) > 4 else ()):
                m_ = re.match(r"^if number\.startswith\('([^']+)'\): number = number\[(\d+):\]$", rule)
                if m_ and int(m_.group(2)) == len(m_.group(1)):
                    prefixes.append(m_.group(1))
            got = {'delete': ''.join(sorted(nf[1])), 'upper': 'upper' in flags, 'lower': 'lower' in flags, 'strip': 'strip' in flags, 'ordered': list(nf[3]),
                   'strip_prefix': sorted(prefixes)}
            want = {'delete': ''.join(sorted(c['delete'])), 'upper': bool(c.get('upper')), 'lower': False, 'strip': bool(c.get('strip')), 'ordered': [],
                    'strip_prefix': sorted(c.get('strip_prefix', []))}
            rep.check(got == want, 'C07.compact', file, 'compact', 'presentation rules of %s' % name, 0,
                      'compact() normalises with %s, the transcribed rules are %s' % (got, want), what='%s: %s' % (name, got))
        elif c:
            rep.undecide('C07.compact', file, 'compact() is not of the clean().strip().upper() family')
        # ---- envelope
        shapes = []
        for p in sp.get('shapes', []):
            shapes.extend(expand(p))
        rets = [x for x in res[mn]['returns'] if x['kind'] == 'str']
        if shapes:
            want = {}
            for s in shapes:
                cur = want.setdefault(len(s), [set() for _ in s])
                for i_, chars in enumerate(s):
                    cur[i_] |= set(chars)
            got = {}
            inexact = []
            varlen = [x for x in rets if not x.get('fixed')]
            for x in rets:
                if not x.get('fixed'):
                    continue
                cur = got.setdefault(x['lo'], [set() for _ in x['shape']])
                for i_, chars in enumerate(x['shape']):
                    if chars is None:
                        inexact.append((x['lo'], i_))
                    else:
                        cur[i_] |= set(chars)
            simple_var = len(rets) == len(varlen) == 1 and varlen[0]['hi'] is not None and sorted(want) == list(range(varlen[0]['lo'], varlen[0]['hi'] + 1))
            if simple_var:
                # one variable-length shape: compare prefix cells, body and suffix cells with every transcribed length
                d = varlen[0]
                vs = d['vshape']
                rep.ok('C07.envelope', '%s validate' % file, '%s lengths %d..%d' % (name, d['lo'], d['hi']))
                probs = []
                for L in sorted(want):
                    for i_ in range(L):
                        if i_ < len(vs['pre']):
                            g = vs['pre'][i_]
                        elif L - 1 - i_ < len(vs['suf']):
                            g = vs['suf'][L - 1 - i_]
                        else:
                            g = vs['body']
                        w = ''.join(sorted(want[L][i_]))
                        if g is None:
                            probs.append((i_, 'characters outside any finite alphabet (non-ASCII digits/letters)', w))
                        elif not set(w) <= set(g) or (i_ < len(vs['pre']) and set(g) != set(w)):
                            probs.append((i_, repr(g), w))
                pos = sorted({p_[0] for p_ in probs})
                rep.check(not probs, 'C07.envelope', file, 'validate', '%s positions %s' % (name, pos[:6]), 0,
                          'position %s of %s admits %s; the standard prescribes %r' % ((probs or [(0, '', '')])[0][0], name, (probs or [(0, '', '')])[0][1], (probs or [(0, '', '')])[0][2]),
                          what='%s: every position within the transcribed alphabet' % name)
            elif varlen:
                d = varlen[0]
                rep.fail('C07.envelope', file, 'validate', 'lengths of %s' % name, 0,
                         '%s.validate() accepts strings of length %s..%s (%s); the standard prescribes lengths %s'
                         % (mn.replace('stdnum.', ''), d['lo'], d['hi'], d['desc'][:80], sorted(want)))
            else:
                rep.check(sorted(got) == sorted(want), 'C07.envelope', file, 'validate', 'lengths of %s' % name, 0,
                          '%s.validate() accepts lengths %s, the standard prescribes %s' % (mn.replace('stdnum.', ''), sorted(got), sorted(want)),
                          what='%s lengths %s' % (name, sorted(want)))
                for L in sorted(set(got) & set(want)):
                    for i_ in range(L):
                        if (L, i_) in inexact:
                            rep.fail('C07.envelope', file, 'validate', '%s length %d position %d' % (name, L, i_), 0,
                                     'position %d of a %d-character %s admits characters outside any finite alphabet (non-ASCII digits/letters); the standard prescribes %r'
                                     % (i_, L, name, ''.join(sorted(want[L][i_]))))
                            continue
                        g, w = got[L][i_], want[L][i_]
                        rep.check(g == w, 'C07.envelope', file, 'validate', '%s length %d position %d' % (name, L, i_), 0,
                                  'position %d of a %d-character %s: accepted %r, standard %r (extra %r, missing %r)'
                                  % (i_, L, name, ''.join(sorted(g)), ''.join(sorted(w)), ''.join(sorted(g - w)), ''.join(sorted(w - g))),
                                  what='%s/%d[%d] = %s' % (name, L, i_, ''.join(sorted(w))[:40]))
        # ---- checks
        for ck in sp.get('checks', []):
            if ck['kind'] == 'weighted':
                fn = ck['function']
                if fn not in prog.mods[mn].funcs:
                    rep.fail('C07.checksum', file, fn, 'generator of %s' % name, 0, 'function %s() vanished' % fn)
                    continue
                L = ck['payload']
                M = ck['M']
                if 'weights' in ck:
                    w = list(ck['weights'])
                else:
                    cyc = ck['weights_from_right']
                    w = [cyc[k % len(cyc)] for k in range(L)][::-1]
                want_w = [x % M for x in w] if ck['relation'] == 'sum+check=0' else [(-x) % M for x in w]
                # alphabet of the payload positions from the transcribed shape
                pshape = None
                for s in shapes:
                    if name == 'casrn':
                        s2 = [c_ for c_ in s if c_ != '-']
                        if len(s2) == L + 1:
                            pshape = s2[:-1]
                    elif len(s) == L + 1:
                        pshape = s[:-1]
                if pshape is None:
                    rep.undecide('C07.checksum', file, 'no transcribed shape with payload length %d' % L)
                    continue
                classes = [B.cls_of_chars(c_) for c_ in pshape]
                nfm = normal_form(I, mn, fn, classes)
                lno = prog.mods[mn].funcs[fn].lineno
                if nfm is None:
                    rep.fail('C07.checksum', file, fn, '%s payload %d' % (name, L), lno, 'generator is not a weighted sum modulo a constant any more')
                    continue
                vals = {str(i_): i_ for i_ in range(10)}
                vals['X'] = 10
                u = nfm.check_weight(vals)
                canon = canonical(nfm.weights, u, nfm.M) if u else None
                rep.check(nfm.M == M and canon == want_w, 'C07.checksum', file, fn, '%s payload %d weights' % (name, L), lno,
                          'modulus %d and canonical weights %s (check weight 1); the standard prescribes modulus %d and %s' % (nfm.M, canon, M, want_w),
                          what='%s/%d: mod %d weights %s' % (name, L, M, want_w))
                tb = ''.join(nfm.table[r_] or '?' for r_ in range(nfm.M))
                # residue r is shown as table[r]; with check weight u the character value must satisfy r + u * val = 0
                ok_t = all(nfm.table[r_] in vals and (r_ + (u or 0) * vals[nfm.table[r_]]) % nfm.M == 0 for r_ in range(nfm.M)) and set(tb) == set(ck['table'])
                rep.check(ok_t, 'C07.checksum', file, fn, '%s payload %d check characters' % (name, L), lno,
                          'check characters %r do not encode the residues with the alphabet %r' % (tb, ck['table']), what='%s/%d: characters %s' % (name, L, tb))
                if ck.get('values') == 'ord-55':
                    kinds = set(nfm.kinds)
                    okv = all(k and k.startswith('index:') and all(k[6:].index(ch) == (int(ch) if ch.isdigit() else ord(ch) - 55) for ch in pshape[0] if ch in k[6:])
                              for k in kinds)
                    rep.check(okv, 'C07.checksum', file, fn, '%s character values' % name, lno, 'letters are not valued A=10 ... Z=35', what='%s letter values' % name)
            elif ck['kind'] == 'delegate':
                to = ck['to']
                use = rets
                if name == 'iban':
                    use = validate_with_options(mn, {'check_country': False})
                if 'when_length' in ck:
                    use = [x for x in use if x['lo'] == ck['when_length'] and x['hi'] == ck['when_length']]
                algs_ok = bool(use) and all(to in x.get('algorithms', []) or to == 'stdnum.ean' for x in use)
                if to == 'stdnum.ean':
                    # EAN is not a generic algorithm module: require the resolved call
                    callers = [n for n in ast.walk(prog.mods[mn].tree) if isinstance(n, ast.Call) and src(n.func) == 'ean.validate']
                    algs_ok = bool(callers)
                covered = all((x.get('input_uncovered') or [[('?', '')]])[0] == [] for x in use) if use else False
                rep.check(algs_ok and covered, 'C07.checksum', file, 'validate', '%s checked by %s' % (name, to.replace('stdnum.', '')), 0,
                          'not every accepting path hands the whole number to %s (paths %d, algorithm used on all: %s, all positions covered: %s)'
                          % (to, len(use), algs_ok, covered), what='%s -> %s over all positions' % (name, to.replace('stdnum.', '')))
                # the algorithm itself must give what the standard says (C06 decides it on the algorithm module)
                if to in algfile:
                    fl = broken.get(algfile[to], [])
                    rep.check(not fl, 'C07.checksum', file, 'validate', '%s relies on %s' % (name, to.replace('stdnum.', '')), 0,
                              'the algorithm module %s no longer computes the published scheme: %s' % (to, fl[0].detail[:160] if fl else ''),
                              what='%s: %s as published (C06)' % (name, to.replace('stdnum.', '')))
                if 'argument' in ck:
                    from ..match import resolve_locals
                    vf_ = prog.mods[mn].funcs['validate']
                    calls = [src(resolve_locals(vf_, n.args[0])) for n in ast.walk(vf_) if isinstance(n, ast.Call) and src(n.func).endswith('mod_97_10.validate') and n.args]
                    rep.check(calls == [ck['argument']], 'C07.checksum', file, 'validate', '%s rearrangement' % name, 0,
                              'the digits are handed to Mod 97-10 as %s, the standard moves the first four characters to the end (%s)' % (calls, ck['argument']),
                              what='%s: %s' % (name, ck['argument']))
        # ---- constants
        ac = sp.get('alphabet_constant')
        consts = dict(sp.get('constants', {}))
        if ac:
            consts[ac['name']] = ac['value']
        for cname, cval in consts.items():
            got_c = prog.mods[mn].consts.get(cname)
            rep.check(got_c == cval, 'C07.constant', file, cname, '%s of %s' % (cname, name), 0,
                      'the alphabet %s is %r, the standard orders the character values as %r' % (cname, got_c, cval), what='%s.%s' % (name, cname))
        if 'structure_classes' in sp:
            for k, chars in sp['structure_classes'].items():
                cl_ = I.iban_letters.get(k)
                ex_ = I.B.exact_chars(cl_) if cl_ is not None else None
                got_cls = ''.join(sorted(ex_)) if ex_ is not None else None
                rep.check(got_cls == ''.join(sorted(chars)), 'C07.envelope', file, '_struct_to_re', 'IBAN structure class %r' % k, 0,
                          'structure letter %r admits %r, the IBAN registry defines it as %r' % (k, got_cls, ''.join(sorted(chars))), what='IBAN %s = %s' % (k, chars[:20]))
    rep.expect_at_least('C07.envelope', 150, 'position obligations')
    rep.expect_at_least('C07.checksum', 20, 'checksum obligations')
    rep.not_decided = ['equality of the full accept sets (only envelope, presentation rules and checksum schemes)', 'ISIN/CUSIP/FIGI digit-sum arithmetic',
                       'Bitcoin hash, Base58Check and Bech32 arithmetic, witness version rules', 'contents of the country / range registries']
    return rep.finish()
