"""C06 - generic checksum algorithms give their guarantees at any length (engine ALG).

For each of the 8 modules the fold (initial state, step expression, acceptance residue) and the
generator expression are extracted from the syntax tree.  The step is tabulated over its finite
state x symbol domain, which gives the algorithm as a finite state machine; the guarantees are
then properties of that machine (see sa/alg/LEMMAS.md for the two-line inductions that lift them
to every length):
  SUB   delta(s, .) is injective for every state s            (a substituted symbol changes the state)
  PROP  delta(., a) is injective for every symbol a           (a changed state stays changed)
  GEN   delta*(s, gen(s)) == T for every state s, and no other single check character does
  TRANS delta(delta(s,a),b) != delta(delta(s,b),a) for a != b (adjacent transposition detected)
Nothing of the repository is executed; only extracted expression trees are evaluated, each on
every element of its finite domain."""
import ast
import os

from ..common import Report, REPO, AnalysisError, src
from ..match import match_expr, match_stmts, strip_doc, canonical, inline_temps, _Subst
from ..minieval import ev, Undecidable, Unsupported

BASE = 'stdnum'


def load(relpath):
    path = os.path.join(REPO, relpath)
    if not os.path.exists(path):
        raise AnalysisError('%s vanished' % relpath)
    with open(path, encoding='utf-8') as fh:
        tree = canonical(ast.parse(fh.read()))
    funcs = {n.name: n for n in tree.body if isinstance(n, ast.FunctionDef)}
    # temporaries of a loop body are substituted into the state update, so that one pattern covers `t = f(n); c = g(c, t)`
    for fn in funcs.values():
        outer = {t.id for st in fn.body if isinstance(st, ast.Assign) for t in st.targets if isinstance(t, ast.Name)} | {a.arg for a in fn.args.args}
        for st in ast.walk(fn):
            if isinstance(st, (ast.For, ast.While)):
                st.body = inline_temps(st.body, keep=outer)
    consts = {}
    for n in tree.body:
        if isinstance(n, ast.Assign) and len(n.targets) == 1 and isinstance(n.targets[0], ast.Name):
            try:
                consts[n.targets[0].id] = ast.literal_eval(n.value)
            except Exception:
                pass
    return funcs, consts


def defaults(fn, consts=None):
    """param name -> default value (a literal, or a module-level constant)."""
    out = {}
    a = fn.args
    for p, d in zip(a.args[len(a.args) - len(a.defaults):], a.defaults):
        try:
            out[p.arg] = ast.literal_eval(d)
        except Exception:
            out[p.arg] = (consts or {}).get(d.id) if isinstance(d, ast.Name) else None
    return out


def helper_hooks(funcs, consts=None):
    """Private one-expression helpers of the module (`def _double(check, modulus): return <expr>`) as evaluator hooks."""
    hooks = {}
    for name, fn in funcs.items():
        body = strip_doc(fn.body)
        if name.startswith('_') and len(body) == 1 and isinstance(body[0], ast.Return) and body[0].value is not None \
                and not fn.args.vararg and not fn.args.kwarg and not fn.args.kwonlyargs and not fn.args.defaults:
            params = [a.arg for a in fn.args.args]

            def call(*args, _p=params, _e=body[0].value, _n=name):
                if len(args) != len(_p):
                    raise Undecidable('%s() called with %d arguments' % (_n, len(args)))
                return ev(_e, dict(consts or {}, **dict(zip(_p, args))), hooks)
            hooks[name] = call
    return hooks


def payload_flow(rep, relpath, gen, callee='checksum'):
    """The payload of a generator may only flow into checksum() (directly, through str() or a concatenation) or be rebound to its
    own str(): a generator that looks at the payload itself (a test on its characters, a slice) gives a character that does not
    follow from the residue the validator computes.  -> True when the rule holds."""
    p = gen.args.args[0].arg
    par = {}
    for n in ast.walk(gen):
        for c in ast.iter_child_nodes(n):
            par[c] = n
    ok = True
    for n in ast.walk(gen):
        if isinstance(n, ast.Name) and n.id == p and isinstance(n.ctx, ast.Load):
            x, fine = n, False
            while x in par:
                q = par[x]
                if isinstance(q, ast.Call) and src(q.func) == 'str' and q.args and q.args[0] is x:
                    x = q
                    if isinstance(par.get(q), ast.Assign) and len(par[q].targets) == 1 and src(par[q].targets[0]) == p:
                        fine = True
                        break
                    continue
                if isinstance(q, ast.BinOp) and isinstance(q.op, ast.Add):
                    x = q
                    continue
                if isinstance(q, ast.Call) and src(q.func) == callee and q.args and q.args[0] is x:
                    fine = True
                break
            if not fine:
                ok = False
                rep.fail('ALG.GEN', relpath, gen.name, src(par.get(n, n))[:100], n.lineno,
                         'the generator reads its payload outside %s() (`%s`): the character it returns depends on more than the residue the validator '
                         'computes, so for some payloads it is not the one validate() accepts' % (callee, src(par.get(n, n))[:60]))
    return ok


def need(fn_map, name, relpath):
    if name not in fn_map:
        raise AnalysisError('%s: function %s() vanished' % (relpath, name))
    return fn_map[name]


def validate_wiring(rep, relpath, funcs, extra_args='', alphabets=None):
    """validate(): checksum(number...) is evaluated inside a catch-all that raises InvalidFormat; the number is returned
    exactly when that checksum equals T, otherwise InvalidChecksum is raised.  Accepted spellings: the comparison inside or
    after the try block; `if not ok: raise ...; return number` or `if ok: return number; raise ...`.  Returns T."""
    import copy
    fn = need(funcs, 'validate', relpath)
    body = strip_doc(fn.body)
    num = fn.args.args[0].arg
    stmts = list(body)
    # optional emptiness gate first; any other leading `if <test on the number>: raise` is a gate that has to let every string
    # over the alphabet through (checked below with the gates inside the try block)
    pre_gates = []
    while stmts and isinstance(stmts[0], ast.If) and not stmts[0].orelse and len(stmts[0].body) == 1 and isinstance(stmts[0].body[0], ast.Raise):
        if match_stmts('if not %s:\n    raise InvalidFormat()' % num, [stmts[0]]) is None:
            pre_gates.append(stmts[0])
        stmts = stmts[1:]
    ncheck = 2 if 'calc_check_digits' in funcs else 1
    bad = AnalysisError('%s:%d validate() is not `checksum(number) == T` inside a catch-all followed by raise/return' % (relpath, fn.lineno))
    if len(stmts) != 3 or not isinstance(stmts[0], ast.Try):
        raise bad
    tr = stmts[0]
    # gates inside the try block (`if <condition on the number>: raise InvalidFormat()`) in front of the comparison: they may only
    # reject strings that are not over the alphabet
    gates = []
    tbody = list(tr.body)
    while tbody and isinstance(tbody[0], ast.If) and not tbody[0].orelse and len(tbody[0].body) == 1 and isinstance(tbody[0].body[0], ast.Raise):
        gates.append(tbody.pop(0))
    if not (len(tbody) == 1 and isinstance(tbody[0], ast.Assign) and len(tbody[0].targets) == 1 and isinstance(tbody[0].targets[0], ast.Name)) \
            or tr.orelse or tr.finalbody:
        raise bad
    # further conjuncts of the accepting condition (`valid = len(number) > 3 and checksum(number) == 1`) are gates as well: they
    # must hold for every string of one payload character or more plus the check characters
    if isinstance(tbody[0].value, ast.BoolOp) and isinstance(tbody[0].value.op, ast.And):
        keep = [v for v in tbody[0].value.values if any(isinstance(c_, ast.Call) and src(c_.func) == 'checksum' for c_ in ast.walk(v))]
        if len(keep) == 1:
            for v in tbody[0].value.values:
                if v is not keep[0]:
                    neg = ast.copy_location(ast.If(test=ast.UnaryOp(op=ast.Not(), operand=v), body=[ast.Pass()], orelse=[]), v)
                    pre_gates.append(ast.fix_missing_locations(neg))
            tbody[0] = ast.copy_location(ast.Assign(targets=tbody[0].targets, value=keep[0]), tbody[0])
            ast.fix_missing_locations(tbody[0])
    default_alph = ['0123456789'] if not alphabets else []
    for gt in pre_gates:
        for alph in (alphabets or default_alph):
            hit = None
            for a in alph:
                for probe in (a * (ncheck + 1), alph[0] * ncheck + a, a + alph[0] * ncheck, a * (ncheck + 2), alph[0] * 6 + a, a * 12):
                    try:
                        if ev(gt.test, {num: probe}):
                            hit = hit or probe
                    except Unsupported as e:
                        raise AnalysisError('%s:%d the gate `%s` of validate() cannot be evaluated: %s' % (relpath, gt.lineno, src(gt.test), e))
                    except Undecidable:
                        pass
            rep.check(hit is None, 'ALG.validate-gate', relpath, 'validate', '%s alphabet=%r' % (src(gt.test), alph), gt.lineno,
                      'validate() rejects %r, a string over its alphabet %r with a payload and check characters, whatever its checksum (`%s`): '
                      'for some payloads the character the generator gives is refused' % (hit, alph, src(gt.test)),
                      what='gate `%s` passes every string over %r' % (src(gt.test), alph))
    for gt in gates:
        for alph in (alphabets or []):
            hit = None
            for a in alph:
                for probe in (a, a + a, alph[0] + a):
                    try:
                        if ev(gt.test, {num: probe}):
                            hit = hit or probe
                    except Unsupported as e:
                        raise AnalysisError('%s:%d the gate `%s` of validate() cannot be evaluated: %s' % (relpath, gt.lineno, src(gt.test), e))
                    except Undecidable:
                        pass
            rep.check(hit is None, 'ALG.validate-gate', relpath, 'validate', '%s alphabet=%r' % (src(gt.test), alph), gt.lineno,
                      'validate() rejects %r, a string over its own alphabet %r, before the checksum is looked at: a generated check character '
                      'can be refused' % (hit, alph), what='gate `%s` passes every string over %r' % (src(gt.test), alph))
    flag = tbody[0].targets[0].id
    value = tbody[0].value
    # the accepting condition, with the flag replaced by what it holds
    s1, s2 = stmts[1], stmts[2]
    if isinstance(s1, ast.If) and not s1.orelse and len(s1.body) == 1 and isinstance(s1.body[0], ast.Raise) and isinstance(s2, ast.Return):
        cond, negated, raise_st, ret_st = s1.test, True, s1.body[0], s2
    elif isinstance(s1, ast.If) and not s1.orelse and len(s1.body) == 1 and isinstance(s1.body[0], ast.Return) and isinstance(s2, ast.Raise):
        cond, negated, raise_st, ret_st = s1.test, False, s2, s1.body[0]
    else:
        raise bad
    if negated:
        if isinstance(cond, ast.UnaryOp) and isinstance(cond.op, ast.Not):
            cond = cond.operand
        elif isinstance(cond, ast.Compare) and len(cond.ops) == 1 and isinstance(cond.ops[0], ast.NotEq):
            cond = ast.Compare(left=cond.left, ops=[ast.Eq()], comparators=cond.comparators)
        else:
            raise bad

    class Sub(ast.NodeTransformer):
        def visit_Name(self, node):
            return copy.deepcopy(value) if node.id == flag and isinstance(node.ctx, ast.Load) else node
    cond = Sub().visit(copy.deepcopy(cond))
    c = None
    if isinstance(cond, ast.Compare) and len(cond.ops) == 1 and isinstance(cond.ops[0], ast.Eq):
        for call, const in ((cond.left, cond.comparators[0]), (cond.comparators[0], cond.left)):
            if isinstance(call, ast.Call) and src(call.func) == 'checksum' and call.args and isinstance(const, ast.Constant):
                c = (call, const)
    if c is None or src(c[0].args[0]) != num:
        raise bad
    T = c[1].value
    catch = any((h.type is None or src(h.type) in ('Exception', 'BaseException')) and len(h.body) == 1
                and isinstance(h.body[0], ast.Raise) and h.body[0].exc is not None
                and src(h.body[0].exc).startswith('InvalidFormat') for h in tr.handlers)
    rep.check(catch, 'ALG.validate-catch-all', relpath, 'validate', src(tr), tr.lineno,
              'checksum() is not evaluated inside `except Exception: raise InvalidFormat()`')
    rep.check(raise_st.exc is not None and src(raise_st.exc).startswith('InvalidChecksum'), 'ALG.validate-raises', relpath, 'validate', src(raise_st), raise_st.lineno,
              'a failed comparison does not raise InvalidChecksum')
    rep.check(ret_st.value is not None and src(ret_st.value) == num, 'ALG.validate-returns-number', relpath, 'validate', src(ret_st), ret_st.lineno,
              'validate() does not return its argument')
    return T


class FSM:
    """delta[pos][state][symbol] -> state; pos cycles with period P (1 for position independent)."""

    def __init__(self, states, symbols, period=1):
        self.states, self.symbols, self.P = list(states), list(symbols), period
        self.delta = [dict() for _ in range(period)]

    def d(self, pos, s, a):
        return self.delta[pos % self.P][(s, a)]


def fsm_checks(rep, relpath, fsm, label, want_trans, sym_kinds=None):
    """SUB / PROP / TRANS on a tabulated machine.  sym_kinds: symbol -> kind; substitutions and
    transpositions are only required within one kind (digit for digit, letter for letter)."""
    kind = (lambda a: sym_kinds[a]) if sym_kinds else (lambda a: 0)
    for pos in range(fsm.P):
        for s in fsm.states:
            seen = {}
            bad = None
            for a in fsm.symbols:
                t = fsm.d(pos, s, a)
                k = (t, kind(a))
                if k in seen:
                    bad = (seen[k], a, t)
                seen[k] = a
            rep.check(bad is None, 'ALG.SUB', relpath, 'checksum', '%s state=%r pos=%d' % (label, s, pos), 0,
                      'symbols %r and %r lead from state %r to the same state %r: this single substitution is undetected'
                      % ((bad or (0, 0, 0))[0], (bad or (0, 0, 0))[1], s, (bad or (0, 0, 0))[2]), what='%s: delta(%r, .) injective at pos %d' % (label, s, pos))
        for a in fsm.symbols:
            img = [fsm.d(pos, s, a) for s in fsm.states]
            rep.check(len(set(img)) == len(img), 'ALG.PROP', relpath, 'checksum', '%s symbol=%r pos=%d' % (label, a, pos), 0,
                      'two states collapse under symbol %r: an earlier difference can be masked' % (a,),
                      what='%s: delta(., %r) injective at pos %d' % (label, a, pos))
    if want_trans:
        undetected = []
        for pos in range(fsm.P):
            for s in fsm.states:
                for a in fsm.symbols:
                    for b in fsm.symbols:
                        if a != b and kind(a) == kind(b):
                            if fsm.d(pos + 1, fsm.d(pos, s, a), b) == fsm.d(pos + 1, fsm.d(pos, s, b), a):
                                undetected.append((pos, s, a, b))
        return undetected
    return None


# ---------------------------------------------------------------------------------- ISO 7064 pure / hybrid
def iso_fold(rep, relpath, alphabets, T_expected_one=True, want_trans=False, label=''):
    funcs, consts = load(relpath)
    fn = need(funcs, 'checksum', relpath)
    body = strip_doc(fn.body)
    num = fn.args.args[0].arg
    dfl = defaults(fn, consts)
    # [V_m = len(alphabet)]  V_c = INIT ; for V_n in number: V_c = STEP ; return V_c
    pre = []
    i = 0
    while i < len(body) and isinstance(body[i], ast.Assign) and not isinstance(body[i + 1] if i + 1 < len(body) else None, ast.For):
        pre.append(body[i])
        i += 1
    rest = body[i:]
    b = match_stmts('V_c = E_init\nfor V_n in %s:\n    V_c = E_step\nreturn V_c' % num, rest)
    split_last = None
    if b is None:
        # the last character treated apart: for n in number[:-1]: c = STEP ; last = number[-1:] ; return FINAL(c, last)
        b2 = match_stmts('V_c = E_init\nfor V_n in %s[:-1]:\n    V_c = E_step\nV_last = %s[-1:]\nreturn E_final' % (num, num), rest)
        if b2 is not None:
            b = b2
            split_last = (b2['V_last'].id, b2['E_final'])
    if b is None:
        done = iso_weighted(rep, relpath, funcs, consts, fn, pre, rest, alphabets, want_trans, label)
        if done is not None:
            return done
        raise AnalysisError('%s:%d checksum() is not a fold `c = INIT; for n in number: c = STEP; return c`' % (relpath, fn.lineno))
    alph_list = []
    for al in alphabets:
        al = al if al is not None else (dfl.get(fn.args.args[1].arg) if len(fn.args.args) > 1 else None)
        if isinstance(al, str):
            alph_list.append(al)
    T = validate_wiring(rep, relpath, funcs, alphabets=alph_list)
    gen_name = 'calc_check_digit' if 'calc_check_digit' in funcs else 'calc_check_digits'
    gen = need(funcs, gen_name, relpath)
    gbody = strip_doc(gen.body)
    gdfl = defaults(gen, consts)
    results = {}
    H = helper_hooks(funcs, consts)
    for alpha in alphabets:
        # environment of pre-assignments
        env = {}
        if 'alphabet' in dfl or len(fn.args.args) > 1:
            pname = fn.args.args[1].arg
            env[pname] = alpha if alpha is not None else dfl.get(pname)
            symbols = list(env[pname])
        else:
            symbols = list(alpha)
        try:
            for st in pre:
                env[st.targets[0].id] = ev(st.value, env, H)
            init = ev(b['E_init'], env, H)
        except Undecidable as e:
            raise AnalysisError('%s: cannot evaluate the fold prologue: %s' % (relpath, e))
        cvar, nvar = b['V_c'].id, b['V_n'].id
        # state space: closure of the step over all symbols starting from every value the step can produce;
        # to quantify over "all states" we take 0..M-1 where M is the number of distinct results
        states = set([init])
        frontier = [init]
        delta = {}
        while frontier:
            s = frontier.pop()
            for a in symbols:
                e2 = dict(env)
                e2[cvar], e2[nvar] = s, a
                try:
                    t = ev(b['E_step'], e2, H)
                except Unsupported as e:
                    raise AnalysisError('%s:%d the step %s uses a construct the evaluator does not know: %s' % (relpath, fn.lineno, src(b['E_step']), e))
                except Undecidable as e:
                    rep.fail('ALG.step-total', relpath, 'checksum', src(b['E_step']), fn.lineno,
                             'step is not defined for state %r and alphabet symbol %r (%s)' % (s, a, e))
                    return None
                delta[(s, a)] = t
                if t not in states:
                    states.add(t)
                    frontier.append(t)
        if split_last is not None:
            # the separate final step has to be the loop's step (then the function is the plain fold over the whole string)
            for s in sorted(states):
                for a in symbols:
                    e2 = dict(env)
                    e2[cvar], e2[split_last[0]] = s, a
                    try:
                        fin = ev(split_last[1], e2, H)
                    except Unsupported as e:
                        raise AnalysisError('%s:%d the final step %s uses a construct the evaluator does not know: %s' % (relpath, fn.lineno, src(split_last[1]), e))
                    except Undecidable:
                        fin = None
                    rep.check(fin == delta.get((s, a)), 'ALG.step-total', relpath, 'checksum', '%s final step state=%r symbol=%r' % (label, s, a), fn.lineno,
                              'the last character %r is folded to %r from state %r, the other positions to %r: not one and the same fold' % (a, fin, s, delta.get((s, a))),
                              what='final step == step at (%r, %r)' % (s, a))
        # complete to the full residue ring so that SUB/PROP hold for states unreachable from INIT as well
        M = max(states) + 1 if all(isinstance(s, int) for s in states) else None
        if M is not None:
            for s in range(M):
                if s not in states:
                    states.add(s)
                    for a in symbols:
                        e2 = dict(env)
                        e2[cvar], e2[nvar] = s, a
                        try:
                            delta[(s, a)] = ev(b['E_step'], e2, H)
                        except Undecidable:
                            delta[(s, a)] = None
        fsm = FSM(sorted(states), symbols)
        fsm.delta[0] = delta
        lab = '%s alphabet=%r' % (label, ''.join(symbols))
        und = fsm_checks(rep, relpath, fsm, lab, want_trans)
        if want_trans:
            rep.check(not und, 'ALG.TRANS', relpath, 'checksum', lab, fn.lineno,
                      'adjacent transpositions undetected, e.g. state %r symbols %r,%r' % tuple((und or [(0, 0, 0, 0)])[0][1:]),
                      what='%s: all %d x %d x %d adjacent swaps detected' % (lab, len(states), len(symbols), len(symbols) - 1))
        # generator: tabulate gen(s) for every state s by substituting checksum(...) := s
        genv = dict(consts)
        if len(gen.args.args) > 1:
            genv[gen.args.args[1].arg] = alpha if alpha is not None else gdfl.get(gen.args.args[1].arg)
        gnum = gen.args.args[0].arg
        ck_alpha_param = fn.args.args[1].arg if len(fn.args.args) > 1 else None
        wrong_alpha = []

        def ck_hook(_s):
            def h(*a, **k):
                # the generator has to evaluate checksum() over the alphabet it was given itself
                if ck_alpha_param is not None:
                    used = a[1] if len(a) > 1 else k.get(ck_alpha_param, dfl.get(ck_alpha_param))
                    if used != ''.join(symbols):
                        wrong_alpha.append(used)
                return _s
            return h
        for s in sorted(states):
            hooks = dict(H, checksum=ck_hook(s))
            e2 = dict(genv)
            e2[gnum] = ''
            try:
                val = None
                for st in gbody:
                    if isinstance(st, ast.Assign) and len(st.targets) == 1 and isinstance(st.targets[0], ast.Name):
                        e2[st.targets[0].id] = ev(st.value, e2, hooks)
                    elif isinstance(st, ast.Return):
                        val = ev(st.value, e2, hooks)
                        break
                    else:
                        raise Undecidable('statement %s' % type(st).__name__)
            except Undecidable as e:
                if str(e).startswith('free name'):
                    raise AnalysisError('%s:%d %s() reads a name the evaluator has no value for: %s' % (relpath, gen.lineno, gen_name, e))
                rep.fail('ALG.GEN', relpath, gen_name, '%s state=%r' % (lab, s), gen.lineno,
                         'generator is not defined for payload state %r (%s)' % (s, e))
                continue
            good = isinstance(val, str) and len(val) == 1 and val in symbols and delta.get((s, val)) == T
            others = [a for a in symbols if delta.get((s, a)) == T and a != val]
            rep.check(good and not others, 'ALG.GEN', relpath, gen_name, '%s state=%r' % (lab, s), gen.lineno,
                      'generated check character %r for payload state %r leads to state %r, accepted state is %r; other accepted characters: %r'
                      % (val, s, delta.get((s, val)) if isinstance(val, str) else None, T, others),
                      what='%s: gen(state %r) = %r is the unique accepted check character' % (lab, s, val))
        if wrong_alpha:
            rep.fail('ALG.GEN', relpath, gen_name, '%s checksum() alphabet' % lab, gen.lineno,
                     'called with the alphabet %r the generator computes checksum() over %r: the interim value is reduced with another modulus than the '
                     'one the check character is picked with' % (''.join(symbols), wrong_alpha[0]))
        results[''.join(symbols)] = (len(states), len(symbols))
    return results


def iso_weighted(rep, relpath, funcs, consts, fn, pre, rest, alphabets, want_trans, label):
    """The checksum written as a weighted sum over the reversed number,
         return sum(W(i) * val(n) for i, n in enumerate(reversed(number))) % M      (W periodic in i, or true powers)
         return sum(w * val(n) for w, n in zip(WEIGHTS, reversed(number))) % M       (positions beyond the table drop out)
    decided by Lemma 7 of sa/alg/LEMMAS.md on the weight function (position 0 = last character).  Returns None when the
    function is not of this form either."""
    import math
    num = fn.args.args[0].arg
    if len(rest) != 1 or not isinstance(rest[0], ast.Return):
        return None
    ba = match_expr('sum(E_w * E_v for V_i, V_n in enumerate(reversed(%s))) %% E_m' % num, rest[0].value)
    bz = match_expr('sum(V_w * E_v for V_w, V_n in zip(E_ws, reversed(%s))) %% E_m' % num, rest[0].value)
    if ba is None and bz is None:
        return None
    b = ba or bz
    dfl = defaults(fn)
    T = validate_wiring(rep, relpath, funcs)
    gen_name = 'calc_check_digit' if 'calc_check_digit' in funcs else 'calc_check_digits'
    gen = need(funcs, gen_name, relpath)
    gbody = strip_doc(gen.body)
    gdfl = defaults(gen)
    results = {}
    for alpha in alphabets:
        env = dict(consts)
        if 'alphabet' in dfl or len(fn.args.args) > 1:
            pname = fn.args.args[1].arg
            env[pname] = alpha if alpha is not None else dfl.get(pname)
            symbols = list(env[pname])
        else:
            symbols = list(alpha)
        lab = '%s alphabet=%r' % (label, ''.join(symbols))
        try:
            for st in pre:
                env[st.targets[0].id] = ev(st.value, env)
            M = ev(b['E_m'], env)
            val = {}
            for a in symbols:
                e2 = dict(env)
                e2[b['V_n'].id] = a
                val[a] = ev(b['E_v'], e2) % M
        except Undecidable as e:
            raise AnalysisError('%s: cannot evaluate the weighted sum: %s' % (relpath, e))
        # ---- the weight function
        limit = None        # number of positions that have a weight at all (zip with a finite table)
        if bz is not None:
            try:
                table = [w % M for w in ev(b['E_ws'], env)]
            except Undecidable as e:
                raise AnalysisError('%s: weight table cannot be evaluated: %s' % (relpath, e))
            limit = len(table)
            P = limit + 1
            W = lambda i, table=table: table[i] if i < len(table) else 0
        else:
            ivar = b['V_i'].id
            ew = b['E_w']
            uses = [n for n in ast.walk(ew) if isinstance(n, ast.Name) and n.id == ivar]
            par = {}
            for n in ast.walk(ew):
                for c in ast.iter_child_nodes(n):
                    par[c] = n
            period = None
            powers = False
            for u in uses:
                p_ = par.get(u)
                if isinstance(p_, ast.BinOp) and isinstance(p_.op, ast.Mod) and p_.left is u:
                    try:
                        k = ev(p_.right, env)
                    except Undecidable:
                        k = None
                    if isinstance(k, int) and k > 0:
                        period = k if period is None else period * k // math.gcd(period, k)
                        continue
                if isinstance(p_, ast.Call) and isinstance(p_.func, ast.Name) and p_.func.id == 'pow' and len(p_.args) == 3 and p_.args[1] is u:
                    powers = True
                    continue
                if isinstance(p_, ast.BinOp) and isinstance(p_.op, ast.Pow) and p_.right is u:
                    powers = True
                    continue
                raise AnalysisError('%s:%d the weight %s depends on the position in a way the rule cannot bound' % (relpath, fn.lineno, src(ew)))

            def W(i, env=env, ew=ew, ivar=ivar, M=M):
                e2 = dict(env)
                e2[ivar] = i
                return ev(ew, e2) % M
            if powers:
                # r ** i mod M is periodic with the multiplicative order of r once it is invertible; find the period by iteration
                seq = [W(i) for i in range(2 * M + 2)]
                per = next((k for k in range(1, M + 1) if all(seq[i] == seq[i + k] for i in range(M + 1))), None)
                if per is None:
                    raise AnalysisError('%s: the power weights are not periodic within the modulus' % relpath)
                period = per if period is None else period * per // math.gcd(period, per)
            if period is None:
                period = 1
            P = period
        try:
            ws = [W(i) for i in range(P + 1)]
        except Undecidable as e:
            raise AnalysisError('%s: weight expression cannot be evaluated: %s' % (relpath, e))
        pos_name = lambda i: 'position %d from the right%s' % (i, '' if limit is not None else ' (and every %d-th after it)' % P if P > 1 else '')
        if limit is not None:
            rep.fail('ALG.SUB', relpath, 'checksum', '%s %s' % (lab, src(b['E_ws'])), fn.lineno,
                     'zip() stops at the %d weights of the table: characters further than %d positions from the end never enter the checksum, '
                     'any substitution there is undetected' % (limit, limit))
        # ---- SUB / TRANS on the weights
        for i in range(P if limit is None else limit):
            bad = next(((a, c) for a in symbols for c in symbols if a < c and (ws[i] * (val[a] - val[c])) % M == 0), None)
            rep.check(bad is None, 'ALG.SUB', relpath, 'checksum', '%s weight %d at %s' % (lab, ws[i], pos_name(i)), fn.lineno,
                      'weight %d (mod %d) at %s gives %r and %r the same contribution: this single substitution is undetected'
                      % (ws[i], M, pos_name(i), (bad or ('', ''))[0], (bad or ('', ''))[1]), what='%s: weight %d separates all symbols at %s' % (lab, ws[i], pos_name(i)))
        if want_trans:
            for i in range(P if limit is None else limit - 1):
                d = (ws[i] - ws[i + 1]) % M
                bad = next(((a, c) for a in symbols for c in symbols if a < c and (d * (val[a] - val[c])) % M == 0), None)
                rep.check(bad is None, 'ALG.TRANS', relpath, 'checksum', '%s weights %d,%d at positions %d,%d' % (lab, ws[i], ws[i + 1], i, i + 1), fn.lineno,
                          'the weights %d and %d of the adjacent positions %d and %d from the right (mod %d) do not separate %r and %r: swapping them is undetected'
                          % (ws[i], ws[i + 1], i, i + 1, M, (bad or ('', ''))[0], (bad or ('', ''))[1]),
                          what='%s: adjacent weights %d,%d differ invertibly' % (lab, ws[i], ws[i + 1]))
        # ---- GEN: the generator sees only s = checksum(payload); after appending c the payload weights shift by one position
        genv = dict(consts)
        if len(gen.args.args) > 1:
            genv[gen.args.args[1].arg] = alpha if alpha is not None else gdfl.get(gen.args.args[1].arg)
        gnum = gen.args.args[0].arg
        g = {}
        for s_ in range(M):
            hooks = {'checksum': (lambda *a, _s=s_, **k: _s)}
            e2 = dict(genv)
            e2[gnum] = ''
            try:
                out = None
                for st in gbody:
                    if isinstance(st, ast.Assign) and len(st.targets) == 1 and isinstance(st.targets[0], ast.Name):
                        e2[st.targets[0].id] = ev(st.value, e2, hooks)
                    elif isinstance(st, ast.Return):
                        out = ev(st.value, e2, hooks)
                        break
                    else:
                        raise Undecidable('statement %s' % type(st).__name__)
            except Undecidable as e:
                out = None
            g[s_] = out if isinstance(out, str) and len(out) == 1 and out in val else None
        # shift ratio k with W(i+1) = k W(i): then checksum(p + c) = k s + W(0) val(c)
        ks = [k for k in range(M) if all((ws[i + 1] - k * ws[i]) % M == 0 for i in range(P))]
        if not ks:
            # two concrete payloads with the same checksum whose extensions differ
            wit = None
            for i in range(P):
                for j in range(i + 1, P + 1 if limit is None else P):
                    for a in symbols:
                        for c in symbols:
                            if val[a] and val[c] and (ws[i] * val[a] - ws[j % P if limit is None else j] * val[c]) % M == 0 \
                                    and (ws[i + 1] * val[a] - (ws[(j + 1) % P] if limit is None else W(j + 1)) * val[c]) % M != 0:
                                wit = wit or (i, a, j, c)
            z = next((a for a in symbols if val[a] == 0), symbols[0])
            rep.fail('ALG.GEN', relpath, gen_name, '%s weights %s' % (lab, ws[:P]), gen.lineno,
                     'the weights are not in a constant ratio from one position to the next (%s), but the generator only knows checksum(payload): %s'
                     % (ws[:P + 1], 'the payloads %r and %r have the same checksum and need different check characters'
                        % (wit[1] + z * wit[0], wit[3] + z * wit[2]) if wit else 'appending a character shifts every payload weight by one position'))
        else:
            k = ks[0]
            for s_ in range(M):
                c = g[s_]
                good = c is not None and (k * s_ + ws[0] * val[c]) % M == T
                others = [a for a in symbols if (k * s_ + ws[0] * val[a]) % M == T and a != c]
                rep.check(good and not others, 'ALG.GEN', relpath, gen_name, '%s state=%r' % (lab, s_), gen.lineno,
                          'generated check character %r for payload checksum %r gives %r, accepted is %r; other accepted characters: %r'
                          % (c, s_, (k * s_ + ws[0] * val[c]) % M if c is not None else None, T, others),
                          what='%s: gen(%r) = %r is the unique accepted check character (shift ratio %d)' % (lab, s_, c, k))
        results[''.join(symbols)] = (M, len(symbols))
    return results


# ---------------------------------------------------------------------------------- 97-10
def mod_97_10(rep):
    relpath = 'stdnum/iso7064/mod_97_10.py'
    funcs, consts = load(relpath)
    ck = need(funcs, 'checksum', relpath)
    num = ck.args.args[0].arg
    b = match_stmts('return int(V_f(%s)) %% K_m' % num, strip_doc(ck.body))
    if b is None:
        # block-wise Horner evaluation of the same integer: c = (c * 10 ** len(block) + int(block)) % M
        pat = ('V_s = V_f(%s)\nV_c = K_zero\nfor V_i in range(0, len(V_s), K_k):\n'
               '    V_c = (V_c * 10 ** E_exp + int(V_s[V_i:V_i + K_k])) %% K_m\nreturn V_c') % num
        b = match_stmts(pat, strip_doc(ck.body))
        if b is not None:
            exp_ok = match_expr('len(%s[%s:%s + K_k])' % (b['V_s'].id, b['V_i'].id, b['V_i'].id), b['E_exp'], {'K_k': b['K_k']}) is not None
            rep.check(exp_ok and b['K_zero'].value == 0, 'ALG.horner-block', relpath, 'checksum', src(ck.body[-2]), ck.lineno,
                      'block-wise reduction multiplies by 10 ** %s although the last block %s[i:i + %s] may be shorter: the value differs '
                      'from int(number) %% M for expansions whose length is not a multiple of the block size'
                      % (src(b['E_exp']), b['V_s'].id, b['K_k'].value))
    conv = None
    if b is None:
        # the expansion written in place (possibly through a temporary): int(''.join(...)) % M
        from ..match import resolve_locals
        last = strip_doc(ck.body)[-1]
        others = [st for st in strip_doc(ck.body)[:-1] if not (isinstance(st, ast.Assign) and len(st.targets) == 1 and isinstance(st.targets[0], ast.Name))]
        b = match_expr('int(E_exp) % K_m', resolve_locals(ck, last.value)) if isinstance(last, ast.Return) and last.value is not None and not others else None
        if b is not None and isinstance(b['E_exp'], ast.Call) and src(b['E_exp'].func) == "''.join":
            conv = ast.parse('def _expansion(number):\n    return 0').body[0]
            conv.body[0].value = b['E_exp']
            ast.fix_missing_locations(conv)
            conv.lineno = ck.lineno
        else:
            b = None
    if b is None:
        raise AnalysisError('%s:%d checksum() is neither int(<expansion>(number)) %% M nor a block-wise Horner form of it' % (relpath, ck.lineno))
    M = b['K_m'].value
    if conv is None:
        conv = need(funcs, b['V_f'].id, relpath)
    bb = match_stmts("return ''.join(str(int(V_x, K_b)) for V_x in %s)" % conv.args.args[0].arg, strip_doc(conv.body))
    T = validate_wiring(rep, relpath, funcs)
    if bb is not None:
        base = bb['K_b'].value
        symbols = list('0123456789ABCDEFGHIJKLMNOPQRSTUVWXYZ'[:base])
        expansion = {a: str(int(a, base)) for a in symbols}
    else:
        # any other per character expansion str(E(x)): tabulated with the whitelisted evaluator over the 36 symbols, and probed
        # with characters outside them, for which it has to fail (the failure becomes InvalidFormat in validate's catch-all)
        bb = match_stmts("return ''.join(str(E_v) for V_x in %s)" % conv.args.args[0].arg, strip_doc(conv.body))
        if bb is None:
            raise AnalysisError('%s:%d %s() is not the per character base conversion' % (relpath, conv.lineno, conv.name))
        base = 36
        symbols = list('0123456789ABCDEFGHIJKLMNOPQRSTUVWXYZ')
        expansion = {}
        env0 = dict(consts)
        for a in symbols + list('+- .*az\u0663'):
            e2 = dict(env0)
            e2[bb['V_x'].id] = a
            try:
                v = str(ev(bb['E_v'], e2))
            except Undecidable:
                v = None
            if a in symbols and v is None:
                raise AnalysisError('%s:%d the expansion %s cannot be evaluated for the alphabet symbol %r' % (relpath, conv.lineno, src(bb['E_v']), a))
            if a in symbols:
                rep.check(v == str(int(a, 36)), 'ALG.expansion', relpath, conv.name, '%s for %r' % (src(bb['E_v']), a), conv.lineno,
                          'the character %r expands to %r, ISO 7064 Mod 97-10 uses its base-36 value %d' % (a, v, int(a, 36)),
                          what='%r -> %s' % (a, v))
                expansion[a] = v if v is not None else str(int(a, 36))
            elif v is not None and not (a in 'az' and v == str(int(a, 36))):
                rep.fail('ALG.expansion', relpath, conv.name, '%s for %r' % (src(bb['E_v']), a), conv.lineno,
                         'a character outside 0-9A-Z (%r) does not fail but contributes the text %r to the decimal expansion: numbers containing it '
                         'can be accepted' % (a, v))
    kinds = {a: ('d' if a.isdigit() else 'l') for a in symbols}
    fsm = FSM(range(M), symbols)
    for s in range(M):
        for a in symbols:
            v = expansion[a]
            fsm.delta[0][(s, a)] = (s * 10 ** len(v) + int(v)) % M
    lab = 'mod %d, base-%d expansion' % (M, base)
    rep.check(all(M % p for p in range(2, int(M ** 0.5) + 1)) and M > 1, 'ALG.modulus-prime', relpath, 'checksum', 'int(...) %% %d' % M, ck.lineno,
              'modulus %d is not prime' % M, what='modulus %d prime' % M)
    # letters and digits: substitution within a kind; transposition on digits only (what the standard promises)
    und = fsm_checks(rep, relpath, fsm, lab, True, kinds)
    und_digits = [u for u in (und or []) if kinds[u[2]] == 'd']
    rep.check(not und_digits, 'ALG.TRANS', relpath, 'checksum', lab + ' digits', ck.lineno,
              'adjacent digit transposition undetected: %r' % (und_digits[:1],), what='%s: every adjacent digit swap detected' % lab)
    gen = need(funcs, 'calc_check_digits', relpath)
    # the generator is evaluated for every payload state s with checksum(<payload + literal>) standing for "state s, then the
    # literal's characters": whatever spelling it has, it must return as many digits as it padded and they must lead to T
    from ..minieval import run as run_body
    gnum = gen.args.args[0].arg
    gbody = strip_doc(gen.body)
    for s_ in range(M):
        pads = []

        def hook(arg, _s=s_):
            if not isinstance(arg, str) or any(ch not in symbols for ch in arg):
                raise Undecidable('checksum() of %r' % (arg,))
            pads.append(arg)
            t = _s
            for ch in arg:
                t = fsm.delta[0][(t, ch)]
            return t
        try:
            cd = run_body(gbody, dict(consts, **{gnum: ''}), {'checksum': hook})
        except Unsupported as e:
            raise AnalysisError('%s:%d calc_check_digits() uses a construct the evaluator does not know: %s' % (relpath, gen.lineno, e))
        except Undecidable:
            cd = None
        pad = pads[0] if len(pads) == 1 else None
        okk = isinstance(cd, str) and pad is not None and len(cd) == len(pad) and all(c in '0123456789' for c in cd)
        u = None
        if okk:
            u = s_
            for ch in cd:
                u = fsm.delta[0][(u, ch)]
            okk = (u == T)
        rep.check(okk, 'ALG.GEN', relpath, 'calc_check_digits', '%s state=%d' % (lab, s_), gen.lineno,
                  'check digits %r generated for payload state %d (placeholder %r) lead to state %r, accepted is %r' % (cd, s_, pad, u, T),
                  what='payload state %d -> check digits %r -> state %r' % (s_, cd, T))
    return M


def luhn_shape(stmts, num):
    """Symbolic reading of a Luhn style checksum body: a sequence SEQ = (VAL(c) for c in reversed(str(number))) and a result
    (sum of EVEN(v) over SEQ[::2] + sum of ODD(v) over SEQ[1::2]) % MOD, written with generator sums, explicit accumulation
    loops, temporaries or tuple unpacking.  -> dict(pre=[assignments of plain values], val=(var, expr), even=[(var, expr)],
    odd=[(var, expr)], mod=expr) or None when the body is something else."""
    import copy
    env = {}
    pre = []

    def is_rev(e):
        return src(e) in ('reversed(str(%s))' % num, 'reversed(%s)' % num, 'str(%s)[::-1]' % num, '%s[::-1]' % num)

    def as_seq(e):
        if isinstance(e, ast.Call) and src(e.func) in ('tuple', 'list') and len(e.args) == 1:
            e = e.args[0]
        if isinstance(e, (ast.GeneratorExp, ast.ListComp)) and len(e.generators) == 1 and not e.generators[0].ifs \
                and isinstance(e.generators[0].target, ast.Name) and is_rev(e.generators[0].iter):
            return ('seq', e.generators[0].target.id, e.elt)
        return None

    def parity(e):
        """SEQ[::2] -> 0, SEQ[1::2] -> 1 for a name bound to the sequence (or the sequence expression itself)"""
        if isinstance(e, ast.Subscript) and isinstance(e.slice, ast.Slice) and e.slice.upper is None and e.slice.step is not None \
                and isinstance(e.slice.step, ast.Constant) and e.slice.step.value == 2:
            base = env.get(e.value.id) if isinstance(e.value, ast.Name) else as_seq(e.value)
            if base is not None and base[0] == 'seq':
                lo = e.slice.lower
                k = 0 if lo is None else (lo.value if isinstance(lo, ast.Constant) else None)
                if k in (0, 1):
                    seqs.append(base)
                    return k
        return None
    seqs = []

    def as_terms(e):
        """[E(v) for v in SEQ[k::2]] (possibly inside list()/tuple()): the terms of one parity, not yet summed"""
        if isinstance(e, ast.Call) and src(e.func) in ('tuple', 'list') and len(e.args) == 1:
            e = e.args[0]
        if isinstance(e, (ast.GeneratorExp, ast.ListComp)) and len(e.generators) == 1 and not e.generators[0].ifs and isinstance(e.generators[0].target, ast.Name):
            k = parity(e.generators[0].iter)
            if k is not None:
                return ('terms', k, e.generators[0].target.id, e.elt)
        return None

    def sym(e):
        if isinstance(e, ast.Name) and isinstance(env.get(e.id), tuple) and env[e.id][0] in ('sum', 'mod'):
            return env[e.id]
        if isinstance(e, ast.Call) and src(e.func) == 'sum' and len(e.args) == 1 and isinstance(e.args[0], ast.Name) \
                and isinstance(env.get(e.args[0].id), tuple) and env[e.args[0].id][0] == 'terms':
            _t, k, var, expr = env[e.args[0].id]
            return ('sum', [(var, expr)], []) if k == 0 else ('sum', [], [(var, expr)])
        if isinstance(e, ast.Call) and src(e.func) == 'sum' and len(e.args) == 1:
            a = e.args[0]
            k = parity(a)
            if k is not None:
                return ('sum', [('v', ast.Name(id='v', ctx=ast.Load()))], []) if k == 0 else ('sum', [], [('v', ast.Name(id='v', ctx=ast.Load()))])
            if isinstance(a, (ast.GeneratorExp, ast.ListComp)) and len(a.generators) == 1 and not a.generators[0].ifs and isinstance(a.generators[0].target, ast.Name):
                k = parity(a.generators[0].iter)
                if k is not None:
                    t = (a.generators[0].target.id, a.elt)
                    return ('sum', [t], []) if k == 0 else ('sum', [], [t])
            return None
        if isinstance(e, ast.BinOp) and isinstance(e.op, ast.Add):
            l, r = sym(e.left), sym(e.right)
            if l and r and l[0] == r[0] == 'sum':
                return ('sum', l[1] + r[1], l[2] + r[2])
            return None
        if isinstance(e, ast.BinOp) and isinstance(e.op, ast.Mod):
            l = sym(e.left)
            if l and l[0] == 'sum':
                return ('mod', l, e.right)
        return None
    for st in stmts:
        if isinstance(st, ast.Assign) and len(st.targets) == 1 and isinstance(st.targets[0], ast.Name):
            t = st.targets[0].id
            sq = as_seq(st.value)
            if sq is not None:
                env[t] = sq
                continue
            sv = sym(st.value)
            if sv is not None:
                env[t] = sv
                continue
            tv = as_terms(st.value)
            if tv is not None:
                env[t] = tv
                continue
            if any(isinstance(x, ast.Name) and isinstance(env.get(x.id), tuple) for x in ast.walk(st.value)):
                return None
            pre.append(st)
            continue
        if isinstance(st, ast.For) and isinstance(st.target, ast.Name) and not st.orelse:
            k = parity(st.iter)
            if k is None:
                return None
            # temporaries of the loop body are substituted; `q, r = divmod(x, n)` gives q = divmod(x, n)[0], r = divmod(x, n)[1]
            sub = {}
            acc = None
            for b_ in st.body:
                if isinstance(b_, ast.Assign) and len(b_.targets) == 1 and isinstance(b_.targets[0], ast.Name) and not isinstance(env.get(b_.targets[0].id), tuple):
                    sub[b_.targets[0].id] = _Subst(dict(sub)).visit(copy.deepcopy(b_.value))
                elif isinstance(b_, ast.Assign) and len(b_.targets) == 1 and isinstance(b_.targets[0], ast.Tuple) and all(isinstance(x, ast.Name) for x in b_.targets[0].elts):
                    v_ = _Subst(dict(sub)).visit(copy.deepcopy(b_.value))
                    for i_, x in enumerate(b_.targets[0].elts):
                        sub[x.id] = ast.Subscript(value=copy.deepcopy(v_), slice=ast.Constant(value=i_), ctx=ast.Load())
                elif isinstance(b_, ast.AugAssign) and isinstance(b_.op, ast.Add) and isinstance(b_.target, ast.Name) \
                        and isinstance(env.get(b_.target.id), tuple) and env[b_.target.id][0] == 'sum' and acc is None:
                    acc = (b_.target.id, _Subst(dict(sub)).visit(copy.deepcopy(b_.value)))
                else:
                    return None
            if acc is None:
                return None
            cur = env[acc[0]]
            term = (st.target.id, ast.fix_missing_locations(acc[1]))
            env[acc[0]] = ('sum', cur[1] + [term], cur[2]) if k == 0 else ('sum', cur[1], cur[2] + [term])
            continue
        if isinstance(st, ast.Return) and st.value is not None:
            r = sym(st.value)
            if r is None or r[0] != 'mod' or not r[1][1] or not r[1][2]:
                return None
            seq = seqs[0] if seqs else None
            if seq is None or any(q is not seq and ast.dump(q[2]) != ast.dump(seq[2]) for q in seqs):
                return None
            return {'pre': pre, 'val': (seq[1], seq[2]), 'even': r[1][1], 'odd': r[1][2], 'mod': r[2]}
        return None
    return None


# ---------------------------------------------------------------------------------- Luhn
def luhn(rep, ns):
    relpath = 'stdnum/luhn.py'
    funcs, consts = load(relpath)
    ck = need(funcs, 'checksum', relpath)
    num, alpha = ck.args.args[0].arg, ck.args.args[1].arg
    body = strip_doc(ck.body)
    # an optional fast path `if <condition on the alphabet>: <same shape with other expressions>` in front of the general code
    fast = body[0] if body and isinstance(body[0], ast.If) and not body[0].orelse else None
    # private one-expression helpers are read as the expressions they return
    from ..match import inline_expr_helpers
    ck_in = inline_expr_helpers(ast.Module(body=list(funcs.values()), type_ignores=[]), ck)
    body = strip_doc(ck_in.body)
    fast = body[0] if body and isinstance(body[0], ast.If) and not body[0].orelse else None
    general = luhn_shape(body[1:] if fast is not None else body, num)
    fastshape = luhn_shape(fast.body, num) if fast is not None else None
    if general is None or (fast is not None and fastshape is None):
        raise AnalysisError('%s:%d checksum() is not the reversed even/odd Luhn sum the rule understands' % (relpath, ck.lineno))
    T = validate_wiring(rep, relpath, funcs)
    gen = need(funcs, 'calc_check_digit', relpath)
    if len(gen.args.args) < 2:
        raise AnalysisError('%s:%d calc_check_digit(number, alphabet) lost its alphabet parameter' % (relpath, gen.lineno))
    flow_ok = payload_flow(rep, relpath, gen)
    from ..minieval import run as run_stmts

    def run_gen(alph, s_):
        """(returned character, [(probe string, alphabet handed to checksum)]) with checksum() standing for the residue s_"""
        seen = []

        def hook(*a, **k):
            seen.append((a[0] if a else k.get(num), a[1] if len(a) > 1 else k.get(alpha, dfl)))
            return s_
        env = dict(consts)
        env[gen.args.args[0].arg] = ''
        env[gen.args.args[1].arg] = alph
        try:
            return run_stmts(strip_doc(gen.body), env, {'checksum': hook}), seen
        except Unsupported as e:
            raise AnalysisError('%s:%d calc_check_digit() uses a construct the evaluator does not know: %s' % (relpath, gen.lineno, e))
        except Undecidable:
            return None, seen
    dfl = defaults(ck).get(alpha)
    import string
    full = string.digits + string.ascii_uppercase + string.ascii_lowercase
    alphabets = [(n, dfl if (dfl is not None and n == len(dfl)) else full[:n]) for n in ns]
    alphabets.append((6, 'abcdef'))                      # an alphabet that does not start with the character '0'
    alphabets.append((16, 'ABCDEFGHIJKLMNOP'))
    for n, alph in alphabets:
        # the generator probes with payload + <symbol of value 0>, in the caller's alphabet
        _out, seen = run_gen(alph, 0)
        probe = seen[0][0] if len(seen) == 1 else None
        rep.check(probe == alph[0] and len(seen) == 1 and seen[0][1] == alph, 'ALG.GEN', relpath, 'calc_check_digit', 'placeholder for alphabet %r' % alph, gen.lineno,
                  'the generator asks checksum() about %r in the alphabet %r; the validator reads payload + %r (the symbol of value 0) in the alphabet %r: '
                  'the generated character is rejected' % (probe, seen[0][1] if seen else None, alph[0], alph), what='alphabet %r: placeholder %r' % (alph, probe))
        env = dict(consts)
        env[alpha] = alph
        b = general
        if fast is not None:
            try:
                if ev(fast.test, env):
                    b = fastshape
            except Undecidable as e:
                raise AnalysisError('%s: the fast path condition %s cannot be evaluated for the alphabet %r: %s' % (relpath, src(fast.test), alph, e))
        try:
            for st in b['pre']:
                env[st.targets[0].id] = ev(st.value, env)
            m = ev(b['mod'], env)
            val = {a: ev(b['val'][1], dict(env, **{b['val'][0]: a})) for a in alph}
            vals_ = sorted(set(val.values()))
            EV = {v: sum(ev(e_, dict(env, **{x_: v})) for x_, e_ in b['even']) for v in vals_}
            D = {v: sum(ev(e_, dict(env, **{x_: v})) for x_, e_ in b['odd']) for v in vals_}
        except Undecidable as e:
            raise AnalysisError('%s: the Luhn sum cannot be tabulated for the alphabet %r: %s' % (relpath, alph, e))
        lab = 'luhn mod %d (%s)' % (m, alph[:6])
        # machine: state (sum mod m, parity); reversed processing: parity 0 = plain, 1 = doubled
        fsm = FSM([(s, p) for s in range(m) for p in (0, 1)], list(alph), period=1)
        for s in range(m):
            for a in alph:
                fsm.delta[0][((s, 0), a)] = ((s + EV[val[a]]) % m, 1)
                fsm.delta[0][((s, 1), a)] = ((s + D[val[a]]) % m, 0)
        und = fsm_checks(rep, relpath, fsm, lab, True)
        pairs = sorted(set(tuple(sorted((a, c))) for (_p, _s, a, c) in und))
        expected = [tuple(sorted((alph[0], alph[n - 1])))]
        rep.check(set(pairs) <= set(expected), 'ALG.LUHN-TRANS', relpath, 'checksum', lab, ck.lineno,
                  'undetected adjacent transpositions are %r, documented exception is exactly %r' % (pairs[:6], expected),
                  what='%s: only the swap of symbols %r is undetected' % (lab, expected[0]))
        # generator: the appended character sits at reversed position 0 (plain)
        for s in range(m):
            ch, _seen = run_gen(alph, s)
            v = EV[val[ch]] if isinstance(ch, str) and len(ch) == 1 and ch in val else None
            others = [w for w in alph if (s + EV[val[w]]) % m == T and w != ch]
            rep.check(v is not None and (s + v) % m == T and not others, 'ALG.GEN', relpath, 'calc_check_digit', '%s ck=%d' % (lab, s), gen.lineno,
                      'for checksum(payload + alphabet[0]) == %d the generator picks %r, which gives residue %r instead of %r'
                      % (s, ch, None if v is None else (s + v) % m, T), what='%s: residue %d -> %r' % (lab, s, ch))


# ---------------------------------------------------------------------------------- Verhoeff / Damm
def verhoeff(rep):
    relpath = 'stdnum/verhoeff.py'
    funcs, consts = load(relpath)
    ck = need(funcs, 'checksum', relpath)
    num = ck.args.args[0].arg
    pat = ('V_seq = tuple(int(V_n) for V_n in reversed(str(%s)))\n'
           'V_c = K_init\n'
           'for V_i, V_m in enumerate(V_seq):\n'
           '    V_c = V_mt[V_c][V_pt[V_i %% K_p][V_m]]\n'
           'return V_c') % num
    b = match_stmts(pat, strip_doc(ck.body))
    if b is None:
        # the same fold with the conversion of each character inside the loop
        for conv in ('int(V_m)',):
            for it in ('reversed(str(%s))' % num, 'reversed(%s)' % num, 'str(%s)[::-1]' % num):
                b = b or match_stmts(('V_c = K_init\n'
                                      'for V_i, V_m in enumerate(%s):\n'
                                      '    V_c = V_mt[V_c][V_pt[V_i %% K_p][%s]]\n'
                                      'return V_c') % (it, conv), strip_doc(ck.body))
    if b is None:
        raise AnalysisError('%s:%d checksum() is not the reversed table fold the rule understands' % (relpath, ck.lineno))
    mt, pt = consts.get(b['V_mt'].id), consts.get(b['V_pt'].id)
    if mt is None or pt is None:
        raise AnalysisError('%s: tables are not literals' % relpath)
    P, init = b['K_p'].value, b['K_init'].value
    T = validate_wiring(rep, relpath, funcs)
    R = range(10)
    shape = len(mt) == 10 and all(len(r) == 10 and all(x in R for x in r) for r in mt) and len(pt) >= 1 and all(len(r) == 10 and all(x in R for x in r) for r in pt)
    rep.check(shape, 'ALG.table-shape', relpath, 'checksum', 'tables', ck.lineno, 'tables are not 10x10 / Px10 over 0..9')
    if not shape:
        return
    rep.check(P == len(pt), 'ALG.period', relpath, 'checksum', 'i %% %d' % P, ck.lineno,
              'position modulus %d differs from the %d rows of the permutation table' % (P, len(pt)), what='period %d == rows' % P)
    if P > len(pt):
        return
    fsm = FSM(R, R, period=P)
    for i in range(P):
        for c in R:
            for n in R:
                fsm.delta[i][(c, n)] = mt[c][pt[i][n]]
    und = fsm_checks(rep, relpath, fsm, 'verhoeff', True)
    rep.check(not und, 'ALG.TRANS', relpath, 'checksum', 'verhoeff tables', ck.lineno,
              'adjacent transposition undetected at position %d state %d digits %d,%d' % tuple((und or [(0, 0, 0, 0)])[0]),
              what='verhoeff: %d position classes x 10 states x 90 swaps detected' % P)
    # group structure needed by the generator lemma
    assoc = all(mt[mt[a][x]][c] == mt[a][mt[x][c]] for a in R for x in R for c in R)
    ident = all(mt[init][x] == x and mt[x][init] == x for x in R)
    p0 = list(pt[0]) == list(R)
    rep.check(assoc, 'ALG.group', relpath, 'checksum', 'multiplication table associative', ck.lineno, 'multiplication table is not associative', what='1000 triples')
    rep.check(ident, 'ALG.group', relpath, 'checksum', 'initial state is the identity', ck.lineno, 'state %d is not a two-sided identity' % init)
    rep.check(p0, 'ALG.group', relpath, 'checksum', 'permutation row 0 is the identity', ck.lineno, 'the last digit is permuted: generator lemma does not apply')
    gen = need(funcs, 'calc_check_digit', relpath)
    payload_flow(rep, relpath, gen)
    from ..minieval import run as run_stmts
    for q in R:
        # q = product of the payload part (what checksum(payload + identity digit) returns); the check digit d must satisfy d * q == T
        seen = []

        def hook(*a, **k):
            seen.append(a[0] if a else None)
            return q
        env = dict(consts)
        env[gen.args.args[0].arg] = '7'
        try:
            out = run_stmts(strip_doc(gen.body), env, {'checksum': hook})
        except Unsupported as e:
            raise AnalysisError('%s:%d calc_check_digit() uses a construct the evaluator does not know: %s' % (relpath, gen.lineno, e))
        except Undecidable:
            out = None
        d = int(out) if isinstance(out, str) and len(out) == 1 and out.isdigit() else None
        sols = [x for x in R if mt[x][q] == T]
        rep.check(seen == ['7' + str(init)] and d is not None and sols == [d], 'ALG.GEN', relpath, 'calc_check_digit', 'payload product %d' % q, gen.lineno,
                  'the generator asks checksum() about %r (expected payload + %r) and returns %r for payload product %d; digits accepted in front of '
                  'that product: %r' % (seen, str(init), out, q, sols),
                  what='payload product %d -> digit %r unique' % (q, d))


def damm(rep):
    relpath = 'stdnum/damm.py'
    funcs, consts = load(relpath)
    ck = need(funcs, 'checksum', relpath)
    num, tab = ck.args.args[0].arg, ck.args.args[1].arg
    # checksum(): `table = table or <default>; i = <init>; for n in str(number): <step>; return i`: the step is evaluated for
    # every (state, digit) pair, whatever its form (a lookup, a guarded lookup, a helper)
    from ..minieval import run as run_stmts
    body = strip_doc(ck.body)
    b0 = match_stmts('%s = %s or V_T' % (tab, tab), body[:1]) or match_stmts('if not %s:\n    %s = V_T' % (tab, tab), body[:1]) \
        or match_stmts('if %s is None:\n    %s = V_T' % (tab, tab), body[:1]) or match_stmts('%s = V_T if not %s else %s' % (tab, tab, tab), body[:1]) \
        or match_stmts('%s = %s if %s else V_T' % (tab, tab, tab), body[:1])
    loop = body[2] if len(body) == 4 and isinstance(body[2], ast.For) else None
    ok_shape = b0 is not None and loop is not None and isinstance(body[1], ast.Assign) and len(body[1].targets) == 1 and isinstance(body[1].targets[0], ast.Name) \
        and isinstance(body[1].value, ast.Constant) and isinstance(loop.target, ast.Name) and src(loop.iter) in ('str(%s)' % num, num) and not loop.orelse \
        and isinstance(body[3], ast.Return) and src(body[3].value) == body[1].targets[0].id
    if not ok_shape and b0 is not None and loop is not None and isinstance(loop.target, ast.Name) and src(loop.iter).startswith(('str(%s).' % num, '%s.' % num)) \
            and isinstance(loop.iter, ast.Call) and isinstance(loop.iter.func, ast.Attribute) and loop.iter.func.attr in ('strip', 'lstrip', 'rstrip', 'replace'):
        rep.fail('ALG.per-character', relpath, 'checksum', src(loop.iter), loop.lineno,
                 'checksum() drops characters (%s) before the fold: strings that differ in the dropped positions share a checksum, and the check digit '
                 'generated for a payload ending in such a character is the one of the shortened payload' % src(loop.iter))
        return
    if not ok_shape:
        raise AnalysisError('%s:%d checksum() is not the table fold the rule understands' % (relpath, ck.lineno))
    t = consts.get(b0['V_T'].id)
    init = body[1].value.value
    ivar, nvar = body[1].targets[0].id, loop.target.id
    T = validate_wiring(rep, relpath, funcs)
    R = range(10)
    shape = t is not None and len(t) == 10 and all(len(r) == 10 and all(x in R for x in r) for r in t)
    rep.check(shape, 'ALG.table-shape', relpath, 'checksum', 'table', ck.lineno, 'operation table is not 10x10 over 0..9')
    if not shape:
        return
    fsm = FSM(R, R)
    for c in R:
        for n in R:
            env = dict(consts)
            env.update({tab: t, ivar: c, nvar: str(n), num: ''})
            try:
                run_stmts(loop.body, env, helper_hooks(funcs, consts))
            except Unsupported as e:
                raise AnalysisError('%s:%d checksum() step uses a construct the evaluator does not know: %s' % (relpath, ck.lineno, e))
            except Undecidable as e:
                rep.fail('ALG.step-total', relpath, 'checksum', 'state %d digit %d' % (c, n), loop.lineno, 'the step is not defined: %s' % e)
                return
            if env[ivar] not in R:
                rep.fail('ALG.step-total', relpath, 'checksum', 'state %d digit %d' % (c, n), loop.lineno, 'the step leaves the states 0..9: %r' % (env[ivar],))
                return
            fsm.delta[0][(c, n)] = env[ivar]
    und = fsm_checks(rep, relpath, fsm, 'damm', True)
    rep.check(not und, 'ALG.TRANS', relpath, 'checksum', 'damm table', ck.lineno,
              'adjacent transposition undetected: state %d digits %d,%d' % tuple((und or [(0, 0, 0, 0)])[0][1:]), what='damm: 10 x 90 swaps detected')
    gen = need(funcs, 'calc_check_digit', relpath)
    # the generator is evaluated for every payload state with checksum() standing for that state, once with the default table
    # and once with a second table of the same kind (the default one with the digits 1 and 2 exchanged: still a quasigroup with
    # zero diagonal): it has to hand its own table on to checksum() and return the digit that leads to the accepted state
    from ..minieval import run as run_body
    gnum = gen.args.args[0].arg
    gtab = gen.args.args[1].arg if len(gen.args.args) > 1 else None
    perm = {0: 0, 1: 2, 2: 1}
    pi = lambda x: perm.get(x, x)
    t2 = tuple(tuple(pi(t[pi(i)][pi(j)]) for j in R) for i in R)
    for label, table_arg, eff in (('default table', None, t), ('caller table', t2, t2)):
        for s_ in R:
            used = []

            def hook(*a, **k):
                used.append(k.get(tab, a[1] if len(a) > 1 else None))
                return s_
            env = dict(consts)
            env[gnum] = ''
            if gtab:
                env[gtab] = table_arg
            try:
                out = run_body(strip_doc(gen.body), env, {'checksum': hook})
            except Unsupported as e:
                raise AnalysisError('%s:%d calc_check_digit() uses a construct the evaluator does not know: %s' % (relpath, gen.lineno, e))
            except Undecidable:
                out = None
            passed = used and all((u is table_arg) or (u == table_arg) for u in used)
            sols = [d for d in R if eff[s_][d] == T]
            good = isinstance(out, str) and out.isdigit() and len(out) == 1 and sols == [int(out)] and passed
            rep.check(good, 'ALG.GEN', relpath, 'calc_check_digit', '%s payload state %d' % (label, s_), gen.lineno,
                      'with the %s the generator returns %r for payload state %d (checksum() was given %s), accepted check digits are %r'
                      % (label, out, s_, 'the same table' if passed else 'another table than its own', sols),
                      what='%s: state %d -> digit %s unique' % (label, s_, out))
    rep.check(init == T, 'ALG.GEN', relpath, 'checksum', 'initial state', ck.lineno, 'initial state %r differs from accepted state %r' % (init, T))


def check(tier):
    rep = Report('C06', tier, level='proof',
                 rule_text='fold (init, step, accepted residue) and generator extracted from the AST of the 8 generic modules; step '
                           'tabulated over states x alphabet; SUB/PROP/GEN/TRANS checked on the resulting finite machine for every '
                           'state, symbol and position class; lemmas in sa/alg/LEMMAS.md lift them to every length',
                 trusted=['CPython ast', 'sa/minieval.py (whitelisted expression evaluator over finite domains)', 'sa/alg/LEMMAS.md'],
                 assumptions=['caller supplied alphabets are those tabulated: 0-9, 0-9X, 0-9A-F, 0-9A-Z, 0-9A-Z*, Luhn even N in 2..40',
                              'characters outside the alphabet raise inside the catch-all (C01)'])
    analyse(rep, tier)
    rep.unit('modules', 8)
    rep.expect_at_least('ALG.SUB', 100, 'state rows')
    rep.expect_at_least('ALG.GEN', 100, 'generator states')
    rep.not_decided = ['alphabets/tables other than the tabulated ones', 'behaviour on characters outside the alphabet (C01)']
    return rep.finish()


def per_character(rep):
    """ALG.per-character: checksum() consumes the number character by character.  `int(number)` on the whole argument reads it
    as one integer: leading zeros vanish and every Unicode decimal digit counts as its ASCII value, so strings that differ in those
    positions share a checksum (substitutions of or into a leading zero go undetected).  -> files where the rule fails."""
    bad = set()
    for relpath in ('stdnum/iso7064/mod_11_2.py', 'stdnum/iso7064/mod_37_2.py', 'stdnum/iso7064/mod_11_10.py', 'stdnum/iso7064/mod_37_36.py',
                    'stdnum/iso7064/mod_97_10.py', 'stdnum/luhn.py', 'stdnum/verhoeff.py', 'stdnum/damm.py'):
        funcs, _consts = load(relpath)
        ck = need(funcs, 'checksum', relpath)
        p = ck.args.args[0].arg
        hits = [n for n in ast.walk(ck) if isinstance(n, ast.Call) and src(n.func) == 'int' and len(n.args) == 1
                and src(n.args[0]) in (p, 'str(%s)' % p)]
        if relpath.endswith('mod_97_10.py'):
            # modulo 97 the value of an ASCII digit string is its integer value: a fast path is the same function when its guard admits
            # ASCII digits only (util.isdigits, isascii() and isdigit(), a [0-9] pattern)
            def guarded(n):
                for i in ast.walk(ck):
                    if isinstance(i, ast.If) and any(x is n for st in i.body for x in ast.walk(st)):
                        t = src(i.test)
                        if 'isdigits(' in t or 'isascii()' in t or '[0-9]' in t:
                            return True
                return False
            hits = [n for n in hits if not guarded(n)]
        for n in hits:
            bad.add(relpath)
            rep.fail('ALG.per-character', relpath, 'checksum', src(n), n.lineno,
                     'checksum() reads the whole number as one integer (%s): leading zeros and the difference between look-alike decimal digits are lost '
                     'before the check characters are computed, so e.g. a leading 0 can be replaced or dropped without the checksum changing' % src(n))
        if not hits:
            rep.ok('ALG.per-character', '%s checksum' % relpath, 'no int() of the whole argument')
    return bad


def analyse(rep, tier):
    luhn_ns = list(range(2, 41, 2)) if tier == 'thorough' else [2, 10, 16, 36, 40]
    skip = per_character(rep)
    jobs = [('stdnum/iso7064/mod_11_2.py', lambda: iso_fold(rep, 'stdnum/iso7064/mod_11_2.py', ['0123456789X'], want_trans=True, label='11-2')),
            ('stdnum/iso7064/mod_37_2.py', lambda: iso_fold(rep, 'stdnum/iso7064/mod_37_2.py', [None, '0123456789X'], want_trans=True, label='37-2')),
            ('stdnum/iso7064/mod_11_10.py', lambda: iso_fold(rep, 'stdnum/iso7064/mod_11_10.py', ['0123456789'], want_trans=False, label='11-10')),
            ('stdnum/iso7064/mod_37_36.py', lambda: iso_fold(rep, 'stdnum/iso7064/mod_37_36.py', [None, '0123456789'], want_trans=False, label='37-36')),
            ('stdnum/iso7064/mod_97_10.py', lambda: mod_97_10(rep)),
            ('stdnum/luhn.py', lambda: luhn(rep, luhn_ns)),
            ('stdnum/verhoeff.py', lambda: verhoeff(rep)),
            ('stdnum/damm.py', lambda: damm(rep))]
    for relpath, job in jobs:
        try:
            job()
        except AnalysisError:
            # a module already reported by ALG.per-character has a verdict; its rewritten fold need not be one the other rules read
            if relpath not in skip:
                raise
