"""C18 - the online check application answers every query safely.

Rules on online_check/stdnum.wsgi and template.html (nothing is executed):
 C18.escape   taint rule: everything that reaches the page (the value formatted into the template,
              every return value of format()) is *safe markup*: a constant, the direct result of
              html.escape(), constant-pattern replace()/re.sub() of safe markup, concatenation,
              %-formatting of a constant template with safe markup, a join over calls of a local
              function that only returns safe markup.  The attribute context uses quote escaping.
 C18.escape-arg  arguments of html.escape() are strings (query text, module name/description,
              formatted number, or wrapped in str()).
 C18.status   every start_response() call carries the literal '200 OK', with the content type of
              its mode; application() contains no raise; the query is read through
              environ.get(..., default) and parse_qs() without limits that raise; the first value
              of `number` is only read under `'number' in parameters`.
 C18.listing  the result list is [info(module, number) for module in get_number_modules()
              if module.is_valid(number)]; info() is reached only from there; every to_*/get_*
              call sits inside `except Exception`.
 C18.template the template's only % directives are the keys the application passes.
 C18.availability  is_valid() of every module is called without a handler: the C01 obligations (no foreign
              exception escapes validate()/is_valid(), registry keys present) are re-decided here on the library
              source; a failure that is not a known finding of C01 is a server error of the page."""
import ast
import os
import re

from ..common import Report, REPO, AnalysisError, src, rel
from ..match import match_expr, strip_doc

FILE = 'online_check/stdnum.wsgi'
TEMPLATE = 'online_check/template.html'


class Markup:
    def __init__(self, tree):
        self.funcs = {n.name: n for n in tree.body if isinstance(n, ast.FunctionDef)}
        self.modnames = {}
        for n in tree.body:
            if isinstance(n, ast.Assign) and len(n.targets) == 1 and isinstance(n.targets[0], ast.Name):
                self.modnames[n.targets[0].id] = n.value
        self.summary = {}
        self.why = None

    def fn_safe(self, name, stack=()):
        """Every return value of the local function is safe markup."""
        if name in self.summary:
            return self.summary[name]
        if name in stack or name not in self.funcs:
            return False
        fn = self.funcs[name]
        ok = True
        rets = [n for n in ast.walk(fn) if isinstance(n, ast.Return) and n.value is not None]
        if not rets:
            ok = False
        for r in rets:
            if not self.safe(r.value, fn, stack + (name,)):
                ok = False
                self.why = self.why or (r.lineno, src(r.value)[:100])
        self.summary[name] = ok
        return ok

    def safe(self, e, fn, stack=(), attr=False):
        S = lambda x: self.safe(x, fn, stack, attr)
        if isinstance(e, ast.Constant):
            return isinstance(e.value, (str, bytes))
        if isinstance(e, ast.Name):
            params = {a.arg for a in fn.args.args}
            if e.id in params:
                return False
            globs = {g for n in ast.walk(fn) if isinstance(n, ast.Global) for g in n.names}
            if e.id in globs and e.id in self.modnames and e.id.startswith('_template'):
                return True            # content of template.html, loaded once: trusted markup (C18.template checks its directives)
            assigns = []
            for n in ast.walk(fn):
                if isinstance(n, ast.Assign) and any(isinstance(t, ast.Name) and t.id == e.id for t in n.targets):
                    assigns.append(n.value)
                elif isinstance(n, ast.AugAssign) and isinstance(n.target, ast.Name) and n.target.id == e.id:
                    if not isinstance(n.op, ast.Add):
                        return False
                    assigns.append(n.value)
                elif isinstance(n, (ast.For, ast.comprehension)) and any(isinstance(x, ast.Name) and x.id == e.id for x in ast.walk(n.target)):
                    return False
            if assigns:
                key = ('name', fn.name, e.id)
                if key in stack:
                    return True        # self reference (x = f(x)): safe if every other source is
                return all(self.safe(a, fn, stack + (key,), attr) for a in assigns)
            if e.id in self.modnames:
                # module-level template: None placeholder replaced by the file content (trusted markup)
                return e.id.startswith('_template')
            return False
        if isinstance(e, ast.BinOp) and isinstance(e.op, ast.Add):
            return S(e.left) and S(e.right)
        if isinstance(e, ast.BinOp) and isinstance(e.op, ast.Mod):
            if not S(e.left):
                return False
            r = e.right
            if isinstance(r, ast.Tuple):
                return all(S(x) for x in r.elts)
            if isinstance(r, ast.Call) and src(r.func) == 'dict' and not r.args:
                return all(self.safe(k.value, fn, stack, attr=True) for k in r.keywords)
            if isinstance(r, ast.Dict):
                return all(self.safe(v, fn, stack, attr=True) for v in r.values)
            return S(r)
        if isinstance(e, ast.JoinedStr):
            # f'<li>{a}</li>': constant markup with fields, every field must be safe markup itself (str() of it is inserted)
            return all(isinstance(v, ast.Constant) or (isinstance(v, ast.FormattedValue) and v.format_spec is None and v.conversion in (-1, 115)
                                                       and S(v.value)) for v in e.values)
        if isinstance(e, ast.Call):
            f = src(e.func)
            if f == 'html.escape':
                if attr and len(e.args) > 1 and src(e.args[1]) == 'False':
                    return False
                if any(k.arg == 'quote' and src(k.value) == 'False' for k in e.keywords) and attr:
                    return False
                return True
            if isinstance(e.func, ast.Attribute) and e.func.attr == 'replace' and len(e.args) == 2 and all(isinstance(a, ast.Constant) for a in e.args):
                return S(e.func.value)
            if isinstance(e.func, ast.Attribute) and e.func.attr in ('encode', 'strip'):
                return S(e.func.value)
            if f == 're.sub' and len(e.args) >= 3 and isinstance(e.args[0], ast.Constant) and isinstance(e.args[1], ast.Constant):
                return S(e.args[2])
            # the same through a module-level precompiled pattern: NAME = re.compile(<constant>...) ; NAME.sub(<constant>, text)
            if isinstance(e.func, ast.Attribute) and e.func.attr == 'sub' and isinstance(e.func.value, ast.Name) and len(e.args) >= 2 \
                    and isinstance(e.args[0], ast.Constant) and e.func.value.id in self.modnames:
                c = self.modnames[e.func.value.id]
                if isinstance(c, ast.Call) and src(c.func) == 're.compile' and c.args and isinstance(c.args[0], ast.Constant):
                    return S(e.args[1])
            if isinstance(e.func, ast.Attribute) and e.func.attr == 'join' and isinstance(e.func.value, ast.Constant) and len(e.args) == 1:
                g = e.args[0]
                if isinstance(g, (ast.GeneratorExp, ast.ListComp)):
                    return S(g.elt)
                return False
            if isinstance(e.func, ast.Name) and e.func.id in self.funcs:
                return self.fn_safe(e.func.id, stack)
            return False
        if isinstance(e, ast.List) and len(e.elts) == 1:
            return S(e.elts[0])
        return False


def response_paths(app):
    """The two ways through application(): statements are followed in order, an `if` (or conditional expression) on the variable that
    holds the X-Requested-With test forks, plain assignments of names are substituted into later uses.  -> {True/False: (list of
    start_response Call nodes as seen on that path, returned expression, line)} or None when the function has another shape."""
    import copy
    from ..match import _Subst
    ajax = None
    for n in ast.walk(app):
        if isinstance(n, ast.Assign) and len(n.targets) == 1 and isinstance(n.targets[0], ast.Name) and 'HTTP_X_REQUESTED_WITH' in src(n.value):
            ajax = n.targets[0].id
    if ajax is None:
        return None

    def mode_of(test):
        if isinstance(test, ast.Name) and test.id == ajax:
            return True
        if isinstance(test, ast.UnaryOp) and isinstance(test.op, ast.Not) and isinstance(test.operand, ast.Name) and test.operand.id == ajax:
            return False
        return None

    class Resolve(ast.NodeTransformer):
        def __init__(self, mode):
            self.mode = mode

        def visit_IfExp(self, node):
            self.generic_visit(node)
            m = mode_of(node.test)
            if m is None or self.mode is None:
                return node
            return node.body if m == self.mode else node.orelse
    out = {}

    class Unsupported_(Exception):
        pass

    def run(stmts, env, mode, calls):
        """-> True when the path has returned"""
        for st in stmts:
            if isinstance(st, ast.If) and mode_of(st.test) is not None:
                m = mode_of(st.test)
                for branch_mode, body in ((m, st.body), (not m, st.orelse)):
                    if mode is not None and mode != branch_mode:
                        continue
                    e2, c2 = dict(env), list(calls)
                    if not run(body, e2, branch_mode, c2):
                        # falls through: continue with the rest of this block in that mode
                        rest = stmts[stmts.index(st) + 1:]
                        if not run(rest, e2, branch_mode, c2):
                            raise Unsupported_('a path ends without return')
                return True
            if isinstance(st, ast.Return):
                if mode is None:
                    raise Unsupported_('return before the mode is decided')
                v = Resolve(mode).visit(_Subst(dict(env)).visit(copy.deepcopy(st.value))) if st.value is not None else None
                if mode in out:
                    raise Unsupported_('two returns for one mode')
                out[mode] = (calls, ast.fix_missing_locations(v) if v is not None else None, st.lineno)
                return True
            has_resp = any(isinstance(x, ast.Call) and src(x.func) == 'start_response' for x in ast.walk(st))
            has_ret = any(isinstance(x, ast.Return) for x in ast.walk(st))
            if isinstance(st, ast.Expr) and isinstance(st.value, ast.Call) and src(st.value.func) == 'start_response':
                c = Resolve(mode).visit(_Subst(dict(env)).visit(copy.deepcopy(st.value)))
                c = ast.copy_location(c, st.value)
                calls.append(ast.fix_missing_locations(c))
                continue
            if has_resp or has_ret:
                raise Unsupported_('response inside %s' % type(st).__name__)
            if isinstance(st, ast.Assign) and len(st.targets) == 1 and isinstance(st.targets[0], ast.Name):
                env[st.targets[0].id] = Resolve(mode).visit(_Subst(dict(env)).visit(copy.deepcopy(st.value)))
                continue
            # anything else: names it binds are no longer known expressions
            for x in ast.walk(st):
                if isinstance(x, ast.Name) and isinstance(x.ctx, ast.Store):
                    env.pop(x.id, None)
        return False
    try:
        env = {}
        if not run(strip_doc(app.body), env, None, []):
            return None
    except Unsupported_:
        return None
    # values assigned before the fork are substituted too; names such as number/results stay what they are when reassigned in a block
    return out if set(out) == {True, False} else None


BYTES_CALLS = {'bytes', 'bytearray', 'fromhex', 'a2b_hex', 'unhexlify', 'b64decode', 'b32decode', 'b16decode', 'encode', 'digest', 'pack', 'to_bytes',
               'set', 'frozenset', 'complex', 'memoryview'}


def _nonjson(expr, fn, depth=0):
    """A reason when the expression is certainly a value json.dumps() refuses (bytes, set, complex), else None."""
    if isinstance(expr, ast.Constant) and isinstance(expr.value, (bytes, complex)):
        return '%s constant' % type(expr.value).__name__
    if isinstance(expr, (ast.Set, ast.SetComp)):
        return 'set'
    if isinstance(expr, ast.Call):
        name = expr.func.attr if isinstance(expr.func, ast.Attribute) else (expr.func.id if isinstance(expr.func, ast.Name) else '')
        if name in BYTES_CALLS and not (name == 'encode' and False):
            return 'result of %s()' % src(expr.func)
    if isinstance(expr, ast.IfExp):
        return _nonjson(expr.body, fn, depth) or _nonjson(expr.orelse, fn, depth)
    if isinstance(expr, ast.BinOp) and isinstance(expr.op, ast.Add):
        return _nonjson(expr.left, fn, depth) or _nonjson(expr.right, fn, depth)
    if isinstance(expr, ast.Name) and depth < 3:
        vals = [st.value for st in ast.walk(fn) if isinstance(st, ast.Assign) and any(isinstance(t, ast.Name) and t.id == expr.id for t in st.targets)]
        for v in vals:
            r = _nonjson(v, fn, depth + 1)
            if r:
                return r
    return None


def json_kind_rule(rep, gc):
    """C18.json-kind: what get_conversions() puts into the answer is handed to json.dumps() in AJAX mode outside any handler; a conversion
    function it selects (by its name tests and the single required parameter) must not return bytes / set / complex values."""
    from ..strabs.model import Program
    pre, suf = [], []
    for n in ast.walk(gc):
        if isinstance(n, ast.Call) and isinstance(n.func, ast.Attribute) and n.func.attr in ('startswith', 'endswith') and n.args:
            cs = [c.value for c in ast.walk(n.args[0]) if isinstance(c, ast.Constant) and isinstance(c.value, str)]
            (pre if n.func.attr == 'startswith' else suf).extend(cs)
    if not pre:
        rep.undecide('C18.json-kind', FILE, 'get_conversions() no longer selects functions by constant name prefixes')
        return 0
    prog = Program()
    n_ = 0
    excluded_bytes = 0
    for mn in prog.number_modules():
        m = prog.mods[mn]
        cands = dict(m.funcs)
        for st in m.tree.body:     # aliases: to_x = f
            if isinstance(st, ast.Assign) and isinstance(st.value, ast.Name) and st.value.id in m.funcs:
                for t in st.targets:
                    if isinstance(t, ast.Name):
                        cands[t.id] = m.funcs[st.value.id]
        for name, fn in sorted(cands.items()):
            if not name.startswith(tuple(pre)):
                continue
            a = fn.args
            req = [x.arg for x in a.posonlyargs + a.args][:len(a.posonlyargs + a.args) - len(a.defaults)] + \
                  [x.arg for x, d in zip(a.kwonlyargs, a.kw_defaults) if d is None]
            if len(req) != 1:
                continue
            reasons = [r for r in (_nonjson(x.value, fn) for x in ast.walk(fn) if isinstance(x, ast.Return) and x.value is not None) if r]
            if suf and name.endswith(tuple(suf)):
                excluded_bytes += bool(reasons)
                continue
            n_ += 1
            rep.check(not reasons, 'C18.json-kind', rel(m.path), name, 'def %s' % name, fn.lineno,
                      'get_conversions() selects %s.%s() (name and single required parameter) and puts its result into the answer; it returns a %s, which '
                      'json.dumps() refuses: every AJAX query for a number this module accepts ends in a server error'
                      % (mn.replace('stdnum.', ''), name, reasons[0] if reasons else ''), what='%s.%s returns no bytes/set/complex value' % (mn.replace('stdnum.', ''), name))
    probe = ast.parse('def to_x(number):\n    v = bytes.fromhex(number)\n    return v\n').body[0]
    if not _nonjson(probe.body[-1].value, probe):
        rep.error('C18.json-kind no longer recognises its positive example')
    rep.extra['json_kind_excluded_by_suffix_returning_bytes'] = excluded_bytes
    return n_


def check(tier):
    rep = Report('C18', tier, level='other',
                 rule_text='taint rule for safe markup over the WSGI script, literal-status rule, query-access rule, listing shape, template '
                           'directives; availability beyond this relies on C01 (is_valid never raises) and C04/C12 (format/getters on valid numbers)',
                 trusted=['CPython ast', 'html.escape escapes & < > and, with quote, " and \' ', 'urllib.parse.parse_qs without limits never raises on str input'],
                 assumptions=['template.html itself is trusted markup', 'module names, descriptions and the formatted number are strings (C04)'])
    path = os.path.join(REPO, FILE)
    if not os.path.exists(path):
        raise AnalysisError('%s vanished' % FILE)
    with open(path, encoding='utf-8') as fh:
        tree = ast.parse(fh.read())
    M = Markup(tree)
    for need in ('application', 'format', 'info', 'get_conversions'):
        if need not in M.funcs:
            raise AnalysisError('%s: function %s() vanished' % (FILE, need))
    # private one-expression helpers of the script (e.g. the rendering of the two documents) are read as the expressions they return
    from ..match import inline_expr_helpers
    M.funcs['application'] = inline_expr_helpers(tree, M.funcs['application'])
    app = M.funcs['application']
    # ---- escape: every element returned by application() in the HTML branch, and format()'s results
    ok = M.fn_safe('format')
    rep.check(ok, 'C18.escape', FILE, 'format', 'return values of format()', (M.why or (M.funcs['format'].lineno, ''))[0],
              'format() can return text that is not escaped markup: %s' % ((M.why or (0, ''))[1]))
    paths = response_paths(app)
    if paths is None:
        raise AnalysisError('%s: application() does not end in one HTML and one JSON response selected by the X-Requested-With test' % FILE)
    html_rets = [ast.Return(value=paths[False][1], lineno=paths[False][2], col_offset=0)]
    json_rets = [ast.Return(value=paths[True][1], lineno=paths[True][2], col_offset=0)]
    rep.check('json.dumps' in src(json_rets[0].value) and 'json.dumps' not in src(html_rets[0].value), 'C18.status', FILE, 'application', 'return statements',
              app.lineno, 'application() no longer has exactly one HTML and one JSON response')
    for r in html_rets:
        M.why = None
        good = M.safe(r.value, app)
        rep.check(good, 'C18.escape', FILE, 'application', src(r.value)[:160], r.lineno,
                  'the page is built from a value that is not the direct result of html.escape() / safe markup: the submitted text can reach the page unescaped')
    # ---- escape-arg: html.escape() gets strings
    okargs = ("data['description']", "data['number']", "data['name']", 'name', 'number')
    for fn in M.funcs.values():
        for n in ast.walk(fn):
            if isinstance(n, ast.Call) and src(n.func) == 'html.escape' and n.args:
                a = src(n.args[0])
                rep.check(a in okargs or a.startswith('str('), 'C18.escape-arg', FILE, fn.name, src(n), n.lineno,
                          'html.escape() is applied to %s, which need not be a string: AttributeError gives a server error' % a, what=a)
    # ---- status / headers / no raise
    calls = [n for n in ast.walk(tree) if isinstance(n, ast.Call) and src(n.func) == 'start_response']
    rep.check(1 <= len(calls) <= 2, 'C18.status', FILE, 'application', 'start_response calls', app.lineno,
              'expected one start_response() per mode (or one for both), found %d' % len(calls))
    for mode, want in ((True, 'application/json'), (False, 'text/html')):
        pc = paths[mode][0]
        rep.check(len(pc) == 1, 'C18.status', FILE, 'application', 'start_response calls in %s mode' % ('AJAX' if mode else 'HTML'), paths[mode][2],
                  'start_response() is called %d times before the %s response is returned' % (len(pc), 'JSON' if mode else 'HTML'))
        for c in pc:
            rep.check(c.args and isinstance(c.args[0], ast.Constant) and c.args[0].value == '200 OK', 'C18.status', FILE, 'application', src(c)[:100], c.lineno,
                      'status is not the literal 200 OK')
            rep.check(want in src(c), 'C18.status', FILE, 'application', src(c)[:120], c.lineno,
                      '%s mode does not announce %s before returning its document' % ('AJAX' if mode else 'HTML', want))
    for fnname in ('application', 'format', 'info'):
        for n in ast.walk(M.funcs[fnname]):
            if isinstance(n, ast.Raise):
                rep.fail('C18.status', FILE, fnname, src(n), n.lineno, 'explicit raise on the request path gives a server error')
    jd = [n for n in ast.walk(json_rets[0]) if isinstance(n, ast.Call) and src(n.func) == 'json.dumps']
    rep.check(len(jd) == 1 and src(jd[0].args[0]) == 'results', 'C18.listing', FILE, 'application', src(json_rets[0].value)[:120], json_rets[0].lineno,
              'the JSON document is not json.dumps(results ...)')
    # ---- query access
    for n in ast.walk(app):
        if isinstance(n, ast.Subscript) and src(n.value) == 'environ' and isinstance(n.slice, ast.Constant):
            rep.check(n.slice.value in ('DOCUMENT_ROOT', 'SCRIPT_NAME'), 'C18.query', FILE, 'application', src(n), n.lineno,
                      'environ[%r] raises KeyError when the key is absent; request data must be read with environ.get(key, default)' % n.slice.value)
        if isinstance(n, ast.Call) and src(n.func).endswith('parse_qs'):
            bad = [k.arg for k in n.keywords if k.arg in ('max_num_fields', 'strict_parsing', 'errors', 'encoding') and src(k.value) not in ('False', 'None')]
            arg_ok = len(n.args) == 1 and match_expr("environ.get('QUERY_STRING', K_d)", n.args[0]) is not None
            rep.check(not bad and arg_ok, 'C18.query', FILE, 'application', src(n)[:140], n.lineno,
                      'parse_qs() is called with %s: it raises ValueError for some query strings (or the query is not read with a default)' % (bad or 'a non-defaulted argument'))
    idx = [n for n in ast.walk(app) if isinstance(n, ast.Subscript) and src(n.value).startswith('parameters[')]
    for n in idx:
        guard = None
        for g in ast.walk(app):
            if isinstance(g, ast.If) and any(x is n for b in g.body for x in ast.walk(b)) and src(g.test) == "'number' in parameters":
                guard = g
        rep.check(guard is not None and src(n) == "parameters['number'][0]", 'C18.query', FILE, 'application', src(n), n.lineno,
                  'a parameter value is read without the `\'number\' in parameters` guard (absent or repeated parameters)')
    rep.expect_at_least('C18.query', 2, 'query accesses')
    # ---- listing
    lst = None
    for n in ast.walk(app):
        if isinstance(n, ast.Assign) and src(n.targets[0]) == 'results' and isinstance(n.value, ast.ListComp):
            lst = n.value
    good = lst is not None and match_expr('[info(V_m, number) for V_m in get_number_modules() if V_m.is_valid(number)]', lst) is not None
    rep.check(good, 'C18.listing', FILE, 'application', src(lst)[:160] if lst is not None else 'results = [...]', getattr(lst, 'lineno', app.lineno),
              'the result list is not exactly the modules of get_number_modules() whose is_valid() accepts the number')
    # ... and it is computed whenever a number was submitted: the only condition around it is the presence of the parameter
    if lst is not None:
        par18 = {}
        for x in ast.walk(app):
            for c_ in ast.iter_child_nodes(x):
                par18[c_] = x
        q = lst
        while q in par18:
            q = par18[q]
            if isinstance(q, ast.If):
                qs_names = {a_.targets[0].id for a_ in ast.walk(app) if isinstance(a_, ast.Assign) and len(a_.targets) == 1 and isinstance(a_.targets[0], ast.Name)
                            and any(isinstance(c_, ast.Call) and src(c_.func).endswith('parse_qs') for c_ in ast.walk(a_.value))}
                t_ = q.test
                present = isinstance(t_, ast.Compare) and len(t_.ops) == 1 and isinstance(t_.ops[0], ast.In) and isinstance(t_.left, ast.Constant) \
                    and t_.left.value == 'number' and isinstance(t_.comparators[0], ast.Name) and t_.comparators[0].id in qs_names
                rep.check(present, 'C18.listing', FILE, 'application', src(q.test)[:100], q.lineno,
                          'the scan of the formats is skipped under the condition `%s`: for such requests the page lists nothing although is_valid() of some '
                          'format accepts the number' % src(q.test)[:60])
            elif isinstance(q, (ast.For, ast.While, ast.Try, ast.With)):
                rep.fail('C18.listing', FILE, 'application', type(q).__name__, q.lineno, 'the scan of the formats sits inside a %s statement' % type(q).__name__)
    # no other writer of results than the initial [] and the list comprehension
    for n in ast.walk(app):
        if isinstance(n, ast.Assign) and src(n.targets[0]) == 'results' and n.value is not lst:
            rep.check(src(n.value) == '[]', 'C18.listing', FILE, 'application', src(n)[:120], n.lineno, 'results is assigned from something other than the is_valid() filter')
    for fn in M.funcs.values():
        for n in ast.walk(fn):
            if isinstance(n, ast.Call) and isinstance(n.func, ast.Name) and n.func.id == 'info' and fn.name != 'application':
                rep.fail('C18.listing', FILE, fn.name, src(n), n.lineno, 'info() is called outside the is_valid() filter')
    gc = M.funcs['get_conversions']
    for n in ast.walk(gc):
        if isinstance(n, ast.Call) and src(n.func) == 'func':
            inside = False
            for t in ast.walk(gc):
                if isinstance(t, ast.Try) and any(x is n for b in t.body for x in ast.walk(b)):
                    if any(h.type is None or src(h.type) in ('Exception', 'BaseException') for h in t.handlers):
                        inside = True
            rep.check(inside, 'C18.listing', FILE, 'get_conversions', src(n), n.lineno, 'a conversion function is called outside `except Exception`')
    rep.expect_at_least('C18.listing', 3, 'listing obligations')
    rep.unit('conversion functions read for C18.json-kind', json_kind_rule(rep, gc))
    # ---- template directives
    tpath = os.path.join(REPO, TEMPLATE)
    if not os.path.exists(tpath):
        raise AnalysisError('%s vanished' % TEMPLATE)
    with open(tpath, encoding='utf-8') as fh:
        tpl = fh.read()
    keys = set()
    for r in html_rets:
        for n in ast.walk(r):
            if isinstance(n, ast.Call) and src(n.func) == 'dict':
                keys |= {k.arg for k in n.keywords}
            if isinstance(n, ast.BinOp) and isinstance(n.op, ast.Mod) and isinstance(n.right, ast.Dict):
                keys |= {k.value for k in n.right.keys if isinstance(k, ast.Constant) and isinstance(k.value, str)}
    directives = re.findall(r'%(?:\((\w+)\)s|(.))', tpl)
    for name, other in directives:
        if name:
            rep.check(name in keys, 'C18.template', TEMPLATE, '-', '%%(%s)s' % name, 0, 'template uses a key the application does not pass: KeyError -> server error')
        else:
            rep.check(other == '%', 'C18.template', TEMPLATE, '-', '%' + other, 0, 'stray %% directive in the template: the %-formatting of the page raises')
    for k in keys:
        rep.check(('%%(%s)s' % k) in tpl, 'C18.template', TEMPLATE, '-', k, 0, 'key %s passed by the application is not used by the template' % k)
    m = re.search(r'value="%\(value\)s"', tpl)
    rep.check(m is not None, 'C18.template', TEMPLATE, '-', 'value="%(value)s"', 0, 'the submitted value is not placed inside a double-quoted attribute')
    # ---- availability: module.is_valid(number) is called for all modules outside any handler; an exception other than
    #      ValidationError that can escape validate() (C01's obligations, decided on the library source) is a server error here
    guarded = False
    if lst is not None:
        for t in ast.walk(app):
            if isinstance(t, ast.Try) and any(x is lst for b in t.body for x in ast.walk(b)) and \
                    any(h.type is None or src(h.type) in ('Exception', 'BaseException') for h in t.handlers):
                guarded = True
    if not guarded:
        from . import c01
        sub = Report('C18', tier)
        c01.analyse(sub, tier)
        from ..common import load_known, match_known
        known01 = load_known('C01')
        fresh = []
        for f in sub.findings:
            if f.rule.startswith(('C01.sink', 'C01.registry', 'C01.clean-summary', 'C01.is_valid')):
                if match_known(known01, f) is None:
                    fresh.append(f)
        for f in fresh:
            rep.fail('C18.availability', f.file, f.func, f.construct, f.line,
                     'the page calls is_valid() of every module for every submitted text without a handler; %s' % f.detail)
        if not fresh:
            rep.ok('C18.availability', FILE + ' application', 'no foreign exception can escape any is_valid() (C01 obligations, known findings of C01 excluded)')
    # the formatted number of every accepting module goes through html.escape(): format() has to return a string for accepted numbers
    if 'format' in src(M.funcs['info']):
        from ..strabs.run import analyse_functions, get_interp
        from .. import scope as _scope
        fres = analyse_functions()
        prog_ = get_interp().prog
        nfmt = 0
        for mn_ in sorted(fres):
            rec_ = (fres[mn_].get('functions') or {}).get('format')
            for a_ in (rec_ or {}).get('alarms') or []:
                if a_['kind'] == 'AttributeError' and a_['why'].startswith('module ') and ' has no ' in a_['why']:
                    rep.fail('C18.availability', a_['file'], a_['func'], a_['construct'], a_['line'],
                             '%s.format() is called by the page for every number its is_valid() accepts, outside any handler; %s: AttributeError, server error'
                             % (mn_.replace('stdnum.', ''), a_['why']))
            if not rec_ or mn_ in _scope.C04_UNDECIDED:
                continue
            nfmt += 1
            kinds_ = set(rec_.get('kinds') or [])
            if kinds_ and not kinds_ <= {'str'}:
                rep.fail('C18.availability', rec_['where'][0], 'format', 'result kinds %s' % sorted(kinds_), rec_['where'][1],
                         '%s.format() can return %s for a number its is_valid() accepts; the page passes it to html.escape(), which raises: server error in HTML mode'
                         % (mn_.replace('stdnum.', ''), ', '.join(sorted(kinds_ - {'str'}))))
        rep.unit('format() functions whose result kind is decided', nfmt)
    # ---- the listing is complete only if get_number_modules() yields every walked module that has validate() under its own name
    upath = os.path.join(REPO, 'stdnum', 'util.py')
    with open(upath, encoding='utf-8') as fh:
        utree = ast.parse(fh.read())
    gnm = next((n for n in utree.body if isinstance(n, ast.FunctionDef) and n.name == 'get_number_modules'), None)
    if gnm is None:
        raise AnalysisError('stdnum/util.py: get_number_modules() vanished')
    yields = [n for n in ast.walk(gnm) if isinstance(n, ast.Yield)]
    par_ = {}
    for n in ast.walk(gnm):
        for c in ast.iter_child_nodes(n):
            par_[c] = n
    for y in yields:
        conds = []
        n = y
        while n in par_:
            p_ = par_[n]
            if isinstance(p_, ast.If) and any(x is y for b in p_.body for x in ast.walk(b)):
                conds.extend(p_.test.values if isinstance(p_.test, ast.BoolOp) and isinstance(p_.test.op, ast.And) else [p_.test])
            elif isinstance(p_, ast.If):
                conds.append(ast.UnaryOp(op=ast.Not(), operand=p_.test))
            n = p_
        extra = [c for c in conds if not (
            (isinstance(c, ast.Call) and src(c.func) == 'hasattr' and len(c.args) == 2 and src(c.args[1]) == "'validate'") or
            (isinstance(c, ast.Compare) and len(c.ops) == 1 and isinstance(c.ops[0], ast.Eq) and '__name__' in src(c)) or
            # the hasattr test written as getattr(module, 'validate', None) is not None (directly or through a local)
            (isinstance(c, ast.Compare) and len(c.ops) == 1 and isinstance(c.ops[0], ast.IsNot) and src(c.comparators[0]) == 'None' and (
                "getattr" in src(c.left) and "'validate'" in src(c.left) or
                any(isinstance(a_, ast.Assign) and src(a_.targets[0]) == src(c.left) and 'getattr' in src(a_.value) and "'validate'" in src(a_.value) for a_ in ast.walk(gnm)))))]
        rep.check(not extra, 'C18.listing', 'stdnum/util.py', 'get_number_modules', src(extra[0]) if extra else 'yield under hasattr(validate) and __name__ == name',
                  y.lineno, 'get_number_modules() skips modules by a further condition (%s): a format whose is_valid() accepts the number can be missing from the answer'
                  % (src(extra[0]) if extra else ''), what='modules are filtered only by hasattr(module, validate) and the alias test')
    rep.not_decided = ['that formatfn/compactfn never raise on numbers accepted by is_valid() (C04, C01)',
                       'JSON serialisability of conversion results beyond the kind rule C18.json-kind (bytes, set and complex values are excluded; Decimal, non-string dictionary keys and objects of foreign classes are not decided)']
    return rep.finish()
