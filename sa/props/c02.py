"""C02 - validate() returns a canonical fixed point.

STRABS, two clauses per module and per assignment of the boolean options:
 C02.edges        first and last character class of every returned string exclude whitespace;
 C02.fixed-point  validate() is applied abstractly to each of its own results r (restricted to
                  ASCII spellings; non-ASCII results are C15's finding): compact(r) must be r
                  itself on every path, and every return path of validate(r) must hand back r
                  itself (same string identity), and at least one path must return.
 C02.table-fixpoint  where validate() replaces a part by a table lookup through a key function, every table
                  value is a fixed point of the lookup (de.handelsregisternummer court names and aliases).
 C02.generator-sibling  beside a module's own calc_check_digit(s)() no other function attaches a check character
                  computed by a generic algorithm in a different way.
Since validate is deterministic (C13), "compact(r) is r and the body returns its input" gives
validate(r) == r for every accepted r."""
from ..common import Report, rel
from .. import scope


def table_fixpoints(rep, prog):
    """C02.table-fixpoint: where validate() replaces a part of the number by a table lookup through a key function
    (t = D.get(K(t)) / t = D[K(t)]), the returned spelling is looked up again when the result is validated: every
    value v of the table must satisfy D[K(v)] == v.  Table and key function are evaluated from their module level
    definitions (constant tuples, dict(...) / .update(...) of generator expressions) with the whitelisted evaluator."""
    import ast
    from ..common import src
    from .. import minieval
    n = 0
    for mn, m in sorted(prog.mods.items()):
        fn = m.funcs.get('validate')
        if fn is None:
            continue
        file = rel(m.path)
        for st in ast.walk(fn):
            if not (isinstance(st, ast.Assign) and len(st.targets) == 1 and isinstance(st.targets[0], ast.Name)):
                continue
            t = st.targets[0].id
            v = st.value
            key = None
            if isinstance(v, ast.Call) and isinstance(v.func, ast.Attribute) and v.func.attr == 'get' and isinstance(v.func.value, ast.Name) and len(v.args) == 1:
                dname, key = v.func.value.id, v.args[0]
            elif isinstance(v, ast.Subscript) and isinstance(v.value, ast.Name):
                dname, key = v.value.id, v.slice
            if not (isinstance(key, ast.Call) and isinstance(key.func, ast.Name) and len(key.args) == 1 and isinstance(key.args[0], ast.Name)
                    and key.args[0].id == t and key.func.id in m.funcs):
                continue
            kfn = m.funcs[key.func.id]
            body = [b for b in kfn.body if not (isinstance(b, ast.Expr) and isinstance(b.value, ast.Constant))]
            n += 1
            construct = src(st)
            if not (len(body) == 1 and isinstance(body[0], ast.Return) and len(kfn.args.args) == 1):
                rep.undecide('C02.table-fixpoint', file, 'key function %s is not a single expression' % kfn.name)
                continue
            param = kfn.args.args[0].arg

            def K(x, body=body, param=param, env0=None):
                return minieval.ev(body[0].value, {param: x})
            # module level construction of the table
            env = {}
            table = None
            try:
                for top in m.tree.body:
                    if isinstance(top, ast.Assign) and len(top.targets) == 1 and isinstance(top.targets[0], ast.Name):
                        nm = top.targets[0].id
                        if nm == dname:
                            table = dict(minieval.ev(top.value, env, {kfn.name: K}))
                        else:
                            try:
                                env[nm] = ast.literal_eval(top.value)
                            except (ValueError, SyntaxError):
                                pass
                    elif isinstance(top, ast.Expr) and isinstance(top.value, ast.Call) and isinstance(top.value.func, ast.Attribute) \
                            and isinstance(top.value.func.value, ast.Name) and top.value.func.value.id == dname and table is not None:
                        if top.value.func.attr == 'update' and len(top.value.args) == 1:
                            table.update(dict(minieval.ev(top.value.args[0], env, {kfn.name: K})))
                        else:
                            raise minieval.Undecidable('table modified by .%s()' % top.value.func.attr)
                if table is None:
                    raise minieval.Undecidable('no module level definition of %s' % dname)
                bad = []
                for v_ in sorted(set(table.values()), key=str):
                    k_ = K(v_)
                    if k_ not in table or table[k_] != v_:
                        bad.append((v_, sorted(a for a, b in table.items() if b == v_)[:3], table.get(k_)))
            except minieval.Undecidable as e:
                rep.undecide('C02.table-fixpoint', file, 'table %s: %s' % (dname, e))
                continue
            for v_, aliases, back in bad:
                rep.fail('C02.table-fixpoint', file, 'validate', '%s -> %r' % (construct, v_), st.lineno,
                         '%s.validate() replaces the looked-up part by %r (stored under %s), but %s(%r) %s: validate() of its own result %s'
                         % (mn.replace('stdnum.', ''), v_, aliases, kfn.name, v_, 'is not a key of %s' % dname if back is None else 'maps to %r' % back,
                            'is rejected' if back is None else 'returns a different value'))
            if not bad:
                rep.ok('C02.table-fixpoint', '%s %s' % (file, construct), '%d table values are fixed points of %s o %s' % (len(set(table.values())), dname, kfn.name))
    return n


ALG_NAMES = {'luhn', 'verhoeff', 'damm', 'mod_11_2', 'mod_11_10', 'mod_37_2', 'mod_37_36', 'mod_97_10'}


def generator_siblings(rep, mods):
    """C02.generator-sibling: a module that has its own calc_check_digit(s)() attaches check characters that its own
    validate() accepts again only if every place that attaches one computes it the same way.  A direct call of a generic
    algorithm's generator outside that helper is accepted only when the helper is that very call (one return, same
    algorithm, same constant arguments); otherwise the two disagree on the inputs where the helper chooses differently.
    mods: iterable of (module name, file, ast.Module).  Returns (modules with a helper, direct call sites)."""
    import ast
    from ..common import src

    def gen_calls(fn):
        for n in ast.walk(fn):
            if isinstance(n, ast.Call) and isinstance(n.func, ast.Attribute) and isinstance(n.func.value, ast.Name) \
                    and n.func.value.id in ALG_NAMES and n.func.attr.startswith('calc_check_digit'):
                yield n

    def shape(call):
        # algorithm, function, constant extra arguments (the first argument is the payload)
        return (call.func.value.id, call.func.attr, tuple(src(a) for a in call.args[1:]), tuple(sorted((k.arg, src(k.value)) for k in call.keywords)))
    nh = ns = 0
    for mn, file, tree in mods:
        helpers = [f for f in tree.body if isinstance(f, ast.FunctionDef) and f.name.startswith('calc_check_digit')]
        if not helpers:
            continue
        nh += 1
        hshapes = {}
        for h in helpers:
            rets = [r for r in ast.walk(h) if isinstance(r, ast.Return)]
            calls = list(gen_calls(h))
            hshapes[h.name] = shape(calls[0]) if len(rets) == 1 and len(calls) == 1 and rets[0].value is calls[0] else None
        for f in ast.walk(tree):
            if not isinstance(f, ast.FunctionDef) or f in helpers:
                continue
            for c in gen_calls(f):
                ns += 1
                same = [h for h, sh in hshapes.items() if sh is not None and sh == shape(c)]
                rep.check(bool(same), 'C02.generator-sibling', file, f.name, src(c), c.lineno,
                          '%s.%s() computes a check character with %s directly, while the module\'s own %s() %s: the attached character is not '
                          'the one validate() expects wherever the two differ' % (mn.replace('stdnum.', ''), f.name, src(c.func), ' / '.join(sorted(hshapes)),
                                                                                 'chooses the algorithm or its alphabet per input' if any(v is None for v in hshapes.values()) else 'uses other arguments'),
                          what='%s.%s: %s is the module helper' % (mn, f.name, src(c)))
    return nh, ns


def check(tier):
    from ..strabs.run import analyse_validate, analyse_c02, get_interp
    rep = Report('C02', tier, level='other',
                 rule_text='abstract interpretation: validate() re-applied to each of its abstract results must return the identical string '
                           '(identity of cells), compact() must be the identity on them; edge classes exclude whitespace',
                 trusted=['models of builtins/str methods in sa/strabs', 'determinism of validate (C13)'],
                 assumptions=['decided for ASCII spellings of the result; non-ASCII results are reported by C15'])
    I = get_interp()
    res = analyse_validate()
    for mn in sorted(res):
        r = res[mn]
        file = rel(I.prog.mods[mn].path)
        if mn in scope.C15_GENERIC or r['crash']:
            continue
        strs = [x for x in r['returns'] if x['kind'] == 'str']
        if not strs:
            continue
        lead = [x['ws_first_desc'] for x in strs if x['ws_first']]
        trail = [x['ws_last_desc'] for x in strs if x['ws_last']]
        if lead or trail:
            if mn in scope.C02_EDGES_UNDECIDED:
                rep.undecide('C02.edges', file, scope.C02_UNDECIDED[mn])
            else:
                rep.fail('C02.edges', file, 'validate', 'whitespace at the %s' % ('start and end' if lead and trail else 'start' if lead else 'end'), 0,
                         '%s.validate() can return a value with %s whitespace' % (mn.replace('stdnum.', ''), 'leading' if lead else 'trailing'))
        else:
            rep.ok('C02.edges', '%s validate' % file, '%d return paths without whitespace at the edges' % len(strs))
    fx = analyse_c02()
    for mn in sorted(fx):
        x = fx[mn]
        file = rel(I.prog.mods[mn].path)
        if x['crash']:
            rep.error('STRABS crashed on %s: %s' % (mn, x['crash'][-200:].replace('\n', ' | ')))
            continue
        if mn in scope.C15_GENERIC:
            continue
        if not x['paths']:
            continue
        if x['problems']:
            if mn in scope.C02_UNDECIDED:
                rep.undecide('C02.fixed-point', file, scope.C02_UNDECIDED[mn])
                continue
            kinds = sorted(set(p[0] for p in x['problems']))
            p0 = x['problems'][0]
            why = {'compact': 'compact() changes an accepted value', 'changed': 'validate() of an accepted value returns a different string',
                   'rejected': 'validate() rejects a value it returned'}
            rep.fail('C02.fixed-point', file, 'validate', ' / '.join(why[k] for k in kinds), 0,
                     '%s: for the accepted value %s the second application gives %s' % (mn.replace('stdnum.', ''), p0[1], p0[2]))
        else:
            rep.ok('C02.fixed-point', '%s validate' % file, '%d accepted shapes re-validate to themselves' % x['paths'])
    import ast as _ast
    nh, ns = generator_siblings(rep, [(mn, rel(m.path), m.tree) for mn, m in sorted(I.prog.mods.items())])
    rep.unit('modules with their own check digit generator', nh)
    rep.unit('direct generic generator calls beside a module generator', ns)
    if nh < 90:
        rep.error('only %d modules with their own check digit generator found, 97 confirmed on the reference tree' % nh)
    # the expected number of sites on a healthy tree is zero: the rule must still recognise the construct
    probe = Report('C02', tier)
    generator_siblings(probe, [('probe', 'probe.py', _ast.parse(
        "def calc_check_digit(number):\n    if number.isdigit():\n        return luhn.calc_check_digit(number)\n    return luhn.calc_check_digit(number, alphabet='0123456789ABCDEF')\n"
        "def validate(number):\n    return number + luhn.calc_check_digit(number, alphabet='0123456789ABCDEF')\n"))])
    if len(probe.findings) != 1:
        rep.error('C02.generator-sibling no longer recognises its positive example')
    ntab = table_fixpoints(rep, I.prog)
    rep.unit('normalisation tables', ntab)
    rep.expect_at_least('C02.table-fixpoint', 1, 'normalisation tables used by validate()')
    rep.unit('modules', len(fx))
    rep.expect_at_least('C02.fixed-point', 200, 'modules')
    rep.not_decided = ['%s: %s' % kv for kv in sorted(scope.C02_UNDECIDED.items())]
    return rep.finish()
