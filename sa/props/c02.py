"""C02 - validate() returns a canonical fixed point.

STRABS, two clauses per module and per assignment of the boolean options:
 C02.edges        first and last character class of every returned string exclude whitespace;
 C02.fixed-point  validate() is applied abstractly to each of its own results r (restricted to
                  ASCII spellings; non-ASCII results are C15's finding): compact(r) must be r
                  itself on every path, and every return path of validate(r) must hand back r
                  itself (same string identity), and at least one path must return.
Since validate is deterministic (C13), "compact(r) is r and the body returns its input" gives
validate(r) == r for every accepted r."""
from ..common import Report, rel
from .. import scope


def check(tier):
    from ..strabs.run import analyse_validate, analyse_c02, get_interp
    rep = Report('C02', tier, level='other',
                 rule_text='abstract interpretation: validate() re-applied to each of its abstract results must return the identical string '
                           '(identity of cells), compact() must be the identity on them; edge classes exclude whitespace',
                 trusted=['models of builtins/str methods in sa/strabs', 'determinism of validate (C13)'],
                 assumptions=['decided for ASCII spellings of the result; non-ASCII results are reported by C15'])
    I = get_interp()
    res = analyse_validate()
    for mn in sorted(res):
        r = res[mn]
        file = rel(I.prog.mods[mn].path)
        if mn in scope.C15_GENERIC or r['crash']:
            continue
        strs = [x for x in r['returns'] if x['kind'] == 'str']
        if not strs:
            continue
        lead = [x['ws_first_desc'] for x in strs if x['ws_first']]
        trail = [x['ws_last_desc'] for x in strs if x['ws_last']]
        if lead or trail:
            if mn in scope.C02_UNDECIDED:
                rep.undecide('C02.edges', file, scope.C02_UNDECIDED[mn])
            else:
                rep.fail('C02.edges', file, 'validate', 'whitespace at the %s' % ('start and end' if lead and trail else 'start' if lead else 'end'), 0,
                         '%s.validate() can return a value with %s whitespace' % (mn.replace('stdnum.', ''), 'leading' if lead else 'trailing'))
        else:
            rep.ok('C02.edges', '%s validate' % file, '%d return paths without whitespace at the edges' % len(strs))
    fx = analyse_c02()
    for mn in sorted(fx):
        x = fx[mn]
        file = rel(I.prog.mods[mn].path)
        if x['crash']:
            rep.error('STRABS crashed on %s: %s' % (mn, x['crash'][-200:].replace('\n', ' | ')))
            continue
        if mn in scope.C15_GENERIC:
            continue
        if not x['paths']:
            continue
        if x['problems']:
            if mn in scope.C02_UNDECIDED:
                rep.undecide('C02.fixed-point', file, scope.C02_UNDECIDED[mn])
                continue
            kinds = sorted(set(p[0] for p in x['problems']))
            p0 = x['problems'][0]
            why = {'compact': 'compact() changes an accepted value', 'changed': 'validate() of an accepted value returns a different string',
                   'rejected': 'validate() rejects a value it returned'}
            rep.fail('C02.fixed-point', file, 'validate', ' / '.join(why[k] for k in kinds), 0,
                     '%s: for the accepted value %s the second application gives %s' % (mn.replace('stdnum.', ''), p0[1], p0[2]))
        else:
            rep.ok('C02.fixed-point', '%s validate' % file, '%d accepted shapes re-validate to themselves' % x['paths'])
    rep.unit('modules', len(fx))
    rep.expect_at_least('C02.fixed-point', 200, 'modules')
    rep.not_decided = ['%s: %s' % kv for kv in sorted(scope.C02_UNDECIDED.items())]
    return rep.finish()
