"""C09 - aggregate validators accept exactly what their constituent formats accept (decided part).

 C09.table     constant propagation (STRABS) through eu.vat._get_cc_module, vatin._get_cc_module and
               iban._get_cc_module for every country code of an independent list: the module returned
               must be the VAT module of that member state (27 + EL alias + XI), None for everything
               else, eu.oss for EU/IM; vatin must agree with eu.vat on every EU code; national IBAN
               modules exactly for BE, ES, ME, NO.
 C09.alias     every alias import in stdnum/*/__init__.py resolves to a module that defines validate().
 C09.accepts   STRABS: for every accepted shape of a constituent (first-letter classes split per
               letter), the wrapper's validate() has a returning path, and for the prefixed
               dispatchers the result carries the prefix.
 C09.shape     dataflow/shape rules: wrappers return only what a constituent's validate() returned;
               guess_country()/guess_type() filter the same table with is_valid(<the argument itself>);
               national IBAN validators start with the generic rules and test their own prefix;
               iban.validate() dispatches to the national module under check_country."""
import ast
import json
import os

from ..common import Report, VERIF, REPO, AnalysisError, src, rel
from ..match import match_expr, match_stmts, strip_doc


def check_cc_import(rep, rule):
    """The summary STRABS uses for util.get_cc_module (the submodule `name` of the country package, None when missing) rests on
    the import call loading that submodule: `__import__(pkg, ..., [name])` with the name in the from-list, or an import of the
    dotted path that contains the name.  An import of the package alone returns it without its plain submodules (es.iban,
    no.iban, ...) unless something else imported them before, and getattr(..., None) then silently disables the dispatch."""
    import ast as _ast
    from ..common import src as _src
    path = os.path.join(REPO, 'stdnum', 'util.py')
    with open(path, encoding='utf-8') as fh:
        tree = _ast.parse(fh.read())
    fn = next((n for n in tree.body if isinstance(n, _ast.FunctionDef) and n.name == 'get_cc_module'), None)
    if fn is None or len(fn.args.args) < 2:
        raise AnalysisError('stdnum/util.py: get_cc_module(cc, name) vanished')
    name = fn.args.args[1].arg
    imports = [c for c in _ast.walk(fn) if isinstance(c, _ast.Call) and _src(c.func) in ('__import__', 'importlib.import_module', 'import_module', 'importlib.__import__')]
    if not imports:
        raise AnalysisError('stdnum/util.py: get_cc_module() has no import call')
    for c in imports:
        mentions = lambda e: any(isinstance(x, _ast.Name) and x.id == name for x in _ast.walk(e))
        fromlist = c.args[3] if len(c.args) > 3 else next((k.value for k in c.keywords if k.arg == 'fromlist'), None)
        ok = (fromlist is not None and mentions(fromlist)) or (c.args and mentions(c.args[0]))
        rep.check(ok, rule, 'stdnum/util.py', 'get_cc_module', _src(c)[:120], c.lineno,
                  'the import call does not name the submodule %r (neither in a from-list nor in the imported path): for country packages that do not '
                  'import it themselves getattr() returns None unless another import happened earlier, and the national rules are skipped' % name,
                  what='import loads the named submodule')


def fallback_rule(rep, prog):
    """C09.fallback: a wrapper of the shape `try: return A.validate(n)  except X: return B.validate(n)` reaches B only when A fails with X.
    A number that B accepts must therefore not be stopped in A by a gate of another class: every gate of A.validate() that raises
    something other than X has to be a gate B.validate() has too (same test, sibling agreement) - B would reject the number anyway."""
    n_ = 0
    for mn in prog.number_modules():
        m = prog.mods[mn]
        v = m.funcs.get('validate')
        if v is None:
            continue
        for t in ast.walk(v):
            if not (isinstance(t, ast.Try) and len(t.handlers) == 1 and t.handlers[0].type is not None):
                continue
            def callee(body):
                if len(body) == 1 and isinstance(body[0], ast.Return) and isinstance(body[0].value, ast.Call) and isinstance(body[0].value.func, ast.Attribute) \
                        and body[0].value.func.attr == 'validate':
                    r = prog.resolve_expr(m, body[0].value.func)
                    return r if r and r[0] == 'func' else None
                return None
            a, b = callee(t.body), callee(t.handlers[0].body)
            if not a or not b:
                continue
            X = src(t.handlers[0].type)
            fa, fb = prog.mods[a[1]].funcs[a[2]], prog.mods[b[1]].funcs[b[2]]
            def canon(test, fn):
                """Test text with the function's first parameter renamed and `not (a OP b)` written as the opposite comparison."""
                import copy
                t2 = copy.deepcopy(test)
                par = fn.args.args[0].arg if fn.args.args else None
                flip = {ast.Eq: ast.NotEq, ast.NotEq: ast.Eq, ast.Lt: ast.GtE, ast.GtE: ast.Lt, ast.Gt: ast.LtE, ast.LtE: ast.Gt, ast.In: ast.NotIn, ast.NotIn: ast.In,
                        ast.Is: ast.IsNot, ast.IsNot: ast.Is}

                class N(ast.NodeTransformer):
                    def visit_Name(self, n):
                        return ast.copy_location(ast.Name(id='_arg_', ctx=n.ctx), n) if n.id == par else n

                    def visit_UnaryOp(self, n):
                        self.generic_visit(n)
                        if isinstance(n.op, ast.Not) and isinstance(n.operand, ast.Compare) and len(n.operand.ops) == 1 and type(n.operand.ops[0]) in flip:
                            return ast.Compare(left=n.operand.left, ops=[flip[type(n.operand.ops[0])]()], comparators=n.operand.comparators)
                        return n
                return src(ast.fix_missing_locations(N().visit(t2)))
            btests = {canon(i.test, fb) for i in ast.walk(fb) if isinstance(i, ast.If)}
            for i in ast.walk(fa):
                if isinstance(i, ast.If) and any(isinstance(x, ast.Raise) for x in i.body):
                    cls = next((src(x.exc.func if isinstance(x.exc, ast.Call) else x.exc) for x in i.body if isinstance(x, ast.Raise) and x.exc is not None), '')
                    if cls == X:
                        continue
                    n_ += 1
                    rep.check(canon(i.test, fa) in btests, 'C09.fallback', rel(prog.mods[a[1]].path), a[2], 'if %s' % src(i.test), i.lineno,
                              '%s.validate() tries %s.validate() and falls back to %s.validate() only on %s; this gate of %s raises %s and %s has no such gate: '
                              'a number it stops is never offered to %s although %s may accept it'
                              % (mn.replace('stdnum.', ''), a[1].replace('stdnum.', ''), b[1].replace('stdnum.', ''), X, a[1].replace('stdnum.', ''), cls,
                                 b[1].replace('stdnum.', ''), b[1].replace('stdnum.', ''), b[1].replace('stdnum.', '')),
                              what='%s: gate raising %s is shared with %s' % (a[1].replace('stdnum.', ''), cls, b[1].replace('stdnum.', '')))
    return n_


def check(tier):
    from ..strabs.run import get_interp, dispatch_table, analyse_wrappers
    rep = Report('C09', tier, level='other',
                 rule_text='dispatch tables by constant propagation against an independent country list; wrapper acceptance of every accepted '
                           'constituent shape by abstract interpretation; shape rules on the wrappers',
                 trusted=['specs/aggregates.json (EU member states, aliases, national IBAN list, sub-type lists from the property)', 'models in sa/strabs'],
                 assumptions=['the universally quantified equivalence (wrapper accepts x iff a constituent accepts x) is decided only in the '
                              'direction "constituent shape is not rejected" plus the return-only-through-constituent shape rule'])
    with open(os.path.join(VERIF, 'specs', 'aggregates.json')) as fh:
        spec = json.load(fh)
    check_cc_import(rep, 'C09.dispatch-import')
    I = get_interp()
    prog = I.prog
    members = spec['eu_member_states']
    aliases = spec['eu_vat_aliases']
    eu_codes = members + list(aliases)
    all_codes = eu_codes + spec['eu_vat_oss_codes'] + spec['not_eu_codes'] + [c.upper() for c in members[:3]] + ['El', 'Xi']

    def expected_vat(cc):
        cc = cc.lower()
        cc = aliases.get(cc, cc)
        pkg = prog.mods.get('stdnum.' + cc)
        if pkg is None:
            return None
        if ('stdnum.%s.vat' % cc) in prog.mods:
            return 'stdnum.%s.vat' % cc
        r = prog.resolve_name(pkg, 'vat')
        return r[1] if r and r[0] == 'mod' else None
    # ---- eu.vat table
    t_eu = dispatch_table('stdnum.eu.vat', all_codes)
    for cc in all_codes:
        val, evs = t_eu[cc]
        low = cc.lower()
        if low in members or low in aliases:
            want = expected_vat(low)
            rep.check(want is not None and val == want and not evs, 'C09.table', 'stdnum/eu/vat.py', '_get_cc_module', 'country code %r' % cc, 0,
                      'eu.vat dispatches %r to %r (exceptions %s), the VAT module of that member state is %r' % (cc, val, evs, want), what='%s -> %s' % (cc, val))
            if want:
                m = prog.mods[want]
                for f in ('validate', 'is_valid', 'compact'):
                    rep.check(prog.resolve_name(m, f) is not None, 'C09.table', rel(m.path), f, 'def %s' % f, 0, 'member-state VAT module %s lacks %s()' % (want, f))
        elif low in spec['eu_vat_oss_codes']:
            rep.check(val == 'stdnum.eu.oss' and not evs, 'C09.table', 'stdnum/eu/vat.py', '_get_cc_module', 'country code %r' % cc, 0,
                      'eu.vat dispatches the One Stop Shop prefix %r to %r' % (cc, val), what='%s -> %s' % (cc, val))
        else:
            rep.check(val is None and not evs, 'C09.table', 'stdnum/eu/vat.py', '_get_cc_module', 'country code %r' % cc, 0,
                      'eu.vat dispatches the non-member code %r to %r (exceptions %s): numbers of a non-member are accepted or the lookup depends on history' % (cc, val, evs),
                      what='%s -> None' % cc)
    # ---- vatin agrees with eu.vat on EU codes
    t_va = dispatch_table('stdnum.vatin', eu_codes + spec['eu_vat_oss_codes'])
    for cc in eu_codes:
        rep.check(t_va[cc][0] == t_eu[cc][0] and not t_va[cc][1], 'C09.table', 'stdnum/vatin.py', '_get_cc_module', 'country code %r' % cc, 0,
                  'vatin dispatches %r to %r %s, eu.vat to %r' % (cc, t_va[cc][0], t_va[cc][1], t_eu[cc][0]), what='%s -> %s' % (cc, t_va[cc][0]))
    for cc in spec['eu_vat_oss_codes']:
        rep.check(t_va[cc][0] in ('stdnum.eu.vat', 'stdnum.eu.oss') and not t_va[cc][1], 'C09.table', 'stdnum/vatin.py', '_get_cc_module', 'country code %r' % cc, 0,
                  'vatin dispatches the One Stop Shop prefix %r to %r %s although eu.vat accepts such numbers' % (cc, t_va[cc][0], t_va[cc][1]), what='%s -> %s' % (cc, t_va[cc][0]))
    # ---- iban table over every registered country
    from ..reg import ReaderModel, Registry
    ibreg = Registry(ReaderModel(), os.path.join(prog.repo, 'stdnum', 'iban.dat'))
    ccs = sorted({e.low.lower() for e in ibreg.entries if e.depth == 0})
    t_ib = dispatch_table('stdnum.iban', ccs)
    for cc in ccs:
        val, evs = t_ib[cc]
        want = 'stdnum.%s.iban' % cc if cc in spec['national_iban'] else None
        rep.check(val == want and not evs, 'C09.table', 'stdnum/iban.py', '_get_cc_module', 'country code %r' % cc, 0,
                  'iban dispatches %r to %r, expected %r' % (cc, val, want), what='%s -> %s' % (cc, val))
    for cc in spec['national_iban']:
        rep.check(cc in ccs and ('stdnum.%s.iban' % cc) in prog.mods, 'C09.table', 'stdnum/iban.dat', cc.upper(), 'national IBAN module', 0, 'national IBAN module for %s missing' % cc)
    # ---- aliases in package __init__ files
    nal = 0
    for mn, m in sorted(prog.mods.items()):
        if not m.is_pkg or mn == 'stdnum':
            continue
        for n in m.tree.body:
            if isinstance(n, ast.ImportFrom):
                for a in n.names:
                    if a.asname and a.asname != a.name:
                        nal += 1
                        full = '%s.%s' % (n.module, a.name)
                        ok = full in prog.mods and prog.resolve_name(prog.mods[full], 'validate') is not None
                        rep.check(ok, 'C09.alias', rel(m.path), a.asname, src(n)[:100], n.lineno, 'alias %s.%s does not resolve to a module with validate()' % (mn, a.asname),
                                  what='%s.%s -> %s' % (mn, a.asname, full))
    rep.expect_at_least('C09.alias', 60, 'package aliases')
    # ---- wrappers accept constituent shapes
    jobs = [(w, k, None) for w, ks in spec['wrappers'].items() for k in ks]
    for cc in eu_codes:
        k = t_eu[cc][0]
        if isinstance(k, str) and k in prog.mods:
            jobs.append(('stdnum.eu.vat', k, cc.upper()))
            jobs.append(('stdnum.vatin', k, cc.upper()))
    for cc in spec['national_iban']:
        jobs.append(('stdnum.iban', 'stdnum.%s.iban' % cc, None))
    for r in analyse_wrappers(jobs):
        W, K, prefix = r['job']
        file = rel(prog.mods[W].path)
        if r['crash']:
            rep.error('STRABS crashed on wrapper %s/%s: %s' % (W, K, r['crash'][-200:].replace('\n', ' | ')))
            continue
        what = '%s accepts the %d accepted shapes of %s%s' % (W.replace('stdnum.', ''), r['shapes'], K.replace('stdnum.', ''), (' prefixed %s' % prefix) if prefix else '')
        if r['shapes'] == 0:
            rep.undecide('C09.accepts', file, 'no ASCII accepted shape of %s to try' % K)
            continue
        rep.check(not r['rejected'], 'C09.accepts', file, 'validate', '%s%s' % (K.replace('stdnum.', ''), (' with prefix %s' % prefix) if prefix else ''), 0,
                  '%s.validate() rejects numbers that %s accepts: %s' % (W.replace('stdnum.', ''), K.replace('stdnum.', ''),
                                                                           '; '.join('%s -> %s' % x for x in r['rejected'][:2])), what=what)
        if prefix:
            rep.check(not r['noprefix'], 'C09.accepts', file, 'validate', '%s result carries %s' % (K.replace('stdnum.', ''), prefix), 0,
                      'the result does not carry the country prefix: %s' % (r['noprefix'][:1],), what='%s: result starts with %s' % (W.replace('stdnum.', ''), prefix))
    # ---- shape rules
    def fn_of(mn, name):
        f = prog.mods[mn].funcs.get(name)
        if f is None:
            raise AnalysisError('%s.%s vanished' % (mn, name))
        return f
    for W in ('stdnum.us.tin', 'stdnum.th.tin'):
        file = rel(prog.mods[W].path)
        v = fn_of(W, 'validate')
        num = v.args.args[0].arg
        pat = 'for V_m in V_t:\n    try:\n        return V_m.validate(%s)\n    except ValidationError:\n        pass\nraise InvalidFormat()' % num
        b = match_stmts(pat, strip_doc(v.body))
        rep.check(b is not None, 'C09.shape', file, 'validate', src(v.body[-2])[:100] if len(v.body) > 1 else 'validate', v.lineno,
                  'validate() is not "return the first sub-type that validates, else raise": it may accept what no sub-type accepts or reject what one accepts')
        table = b['V_t'].id if b else None
        g = prog.mods[W].funcs.get('guess_type')
        if g is not None and table:
            gb = strip_doc(g.body)
            ok = len(gb) == 1 and isinstance(gb[0], ast.Return) and isinstance(gb[0].value, ast.ListComp) and len(gb[0].value.generators) == 1 \
                and src(gb[0].value.generators[0].iter) == table and len(gb[0].value.generators[0].ifs) == 1 \
                and match_expr('V_m.is_valid(%s)' % g.args.args[0].arg, gb[0].value.generators[0].ifs[0]) is not None
            rep.check(ok, 'C09.shape', file, 'guess_type', src(gb[-1])[:140], g.lineno, 'guess_type() does not list exactly the sub-types of %s whose is_valid() accepts the argument itself' % table)
        mods = prog.mods[W].assign_nodes.get(table) if table else None
        if mods is not None:
            got = []
            for e in getattr(mods, 'elts', []):
                rr = prog.resolve_expr(prog.mods[W], e)
                got.append(rr[1] if rr and rr[0] == 'mod' else src(e))
            rep.check(sorted(got) == sorted(spec['wrappers'][W]), 'C09.shape', file, table, src(mods), 0,
                      'sub-type table %s, the property names %s' % (sorted(got), sorted(spec['wrappers'][W])))
    # be.ssn: bis first, nn on InvalidComponent
    v = fn_of('stdnum.be.ssn', 'validate')
    called = sorted({src(n.func) for n in ast.walk(v) if isinstance(n, ast.Call) and src(n.func).endswith('.validate')})
    rep.check(called == ['bis.validate', 'nn.validate'] and all(isinstance(s, (ast.Try, ast.Expr)) for s in v.body), 'C09.shape', 'stdnum/be/ssn.py', 'validate', ' / '.join(called), v.lineno,
              'be.ssn.validate() does not return what bis.validate()/nn.validate() return')
    # es.nif: every branch ends in a constituent check, final else is cif
    v = fn_of('stdnum.es.nif', 'validate')
    from ..match import resolve_locals
    top = [s for s in strip_doc(v.body) if isinstance(s, ast.If) and 'number[0]' in src(resolve_locals(v, s.test))]
    ok = False
    if top:
        node = top[-1]
        chain = []
        while True:
            chain.append(node)
            if len(node.orelse) == 1 and isinstance(node.orelse[0], ast.If):
                node = node.orelse[0]
            else:
                break
        last_else = chain[-1].orelse
        ok = len(last_else) == 1 and src(last_else[0]).startswith('cif.validate(') and any('dni.validate(' in src(c) for c in chain) and any('nie.validate(' in src(c) for c in chain)
    rep.check(ok, 'C09.shape', 'stdnum/es/nif.py', 'validate', src(top[-1].test) if top else 'dispatch', v.lineno,
              'es.nif.validate() does not send every number that is neither K/L/M, digit-led nor X/Y/Z to cif.validate() (and the others to dni/nie)')
    # eu.vat: the member-state result with the prefix re-attached is decided on the abstract results (C09.accepts / prefix, above);
    # here only that validate() (or a private helper it calls) dispatches through _get_cc_module and calls the module's validate()
    v = fn_of('stdnum.eu.vat', 'validate')
    reach_fns = [v] + [f for n_, f in prog.mods['stdnum.eu.vat'].funcs.items() if n_.startswith('_')
                       and any(isinstance(c, ast.Call) and src(c.func) == n_ for c in ast.walk(v))]
    calls = [c for f in reach_fns for c in ast.walk(f) if isinstance(c, ast.Call)]
    has_dispatch = any(src(c.func) == '_get_cc_module' for c in calls)
    has_validate = any(isinstance(c.func, ast.Attribute) and c.func.attr == 'validate' and isinstance(c.func.value, ast.Name) for c in calls)
    rep.check(has_dispatch and has_validate, 'C09.shape', 'stdnum/eu/vat.py', 'validate', 'dispatch through _get_cc_module(...).validate(...)', v.lineno,
              'eu.vat.validate() no longer selects the member-state module with _get_cc_module() and calls its validate()')
    # guess_country: every is_valid() it consults gets the argument itself, for the modules of MEMBER_STATES
    g = fn_of('stdnum.eu.vat', 'guess_country')
    gp = g.args.args[0].arg
    iv = [c for c in ast.walk(g) if isinstance(c, ast.Call) and isinstance(c.func, ast.Attribute) and c.func.attr in ('is_valid', 'validate')]
    bad_arg = [c for c in iv if not (len(c.args) == 1 and isinstance(c.args[0], ast.Name) and c.args[0].id == gp and not c.keywords)]
    own = [c for c in ast.walk(g) if isinstance(c, ast.Call) and isinstance(c.func, ast.Name) and c.func.id in ('is_valid', 'validate')]
    over_members = any(isinstance(n, ast.Name) and n.id == 'MEMBER_STATES' for n in ast.walk(g))
    if not iv and not own:
        rep.undecide('C09.shape', 'stdnum/eu/vat.py guess_country', 'guess_country() consults no is_valid()/validate() the rule recognises')
    else:
        rep.check(not bad_arg and not own and over_members, 'C09.shape', 'stdnum/eu/vat.py', 'guess_country', src((bad_arg or own or iv)[0])[:140], g.lineno,
                  'guess_country() does not list exactly the member states whose own is_valid() accepts the argument itself (%s)'
                  % ('it asks the aggregate validator of this module' if own else 'the argument is altered before it is handed to the member-state module'
                     if bad_arg else 'it does not run over MEMBER_STATES'))
    ms = prog.mods['stdnum.eu.vat'].consts.get('MEMBER_STATES')
    rep.check(ms is not None and set(ms) == set(members) | {'xi'}, 'C09.shape', 'stdnum/eu/vat.py', 'MEMBER_STATES', 'MEMBER_STATES', 0,
              'MEMBER_STATES is %s, expected the 27 member states plus xi' % (sorted(ms) if ms else None))
    # iban: national modules start with the generic rules; generic dispatches under check_country
    for cc in spec['national_iban']:
        mn = 'stdnum.%s.iban' % cc
        v = fn_of(mn, 'validate')
        b = strip_doc(v.body)
        num = v.args.args[0].arg
        whole = src(prog.mods[mn].tree)
        gcalls = [c for c in ast.walk(v) if isinstance(c, ast.Call) and src(c.func) == 'iban.validate']
        generic_ok = any(any(k.arg == 'check_country' and isinstance(k.value, ast.Constant) and k.value.value is False for k in c.keywords)
                         and c.args and isinstance(c.args[0], ast.Name) and c.args[0].id == num for c in gcalls)
        ok = generic_ok and ("startswith('%s')" % cc.upper()) in whole
        rep.check(ok, 'C09.shape', rel(prog.mods[mn].path), 'validate', src(gcalls[0])[:100] if gcalls else 'iban.validate(...)', v.lineno,
                  'national IBAN validator does not apply iban.validate(number, check_country=False) to its argument and test its own prefix')
    v = fn_of('stdnum.iban', 'validate')
    opt = [a.arg for a in v.args.args[1:]]
    guarded = [i for i in ast.walk(v) if isinstance(i, ast.If) and isinstance(i.test, ast.Name) and i.test.id in opt]
    okc = False
    from ..match import reach_private
    itree_ = prog.mods['stdnum.iban'].tree
    for i in guarded:
        wrapper = ast.FunctionDef(name='<guarded>', args=v.args, body=i.body, decorator_list=[], returns=None, type_comment=None, type_params=[])
        inner = [c for f_ in reach_private(itree_, wrapper) for c in ast.walk(f_) if isinstance(c, ast.Call)]
        if any(src(c.func) == '_get_cc_module' for c in inner) and any(
                isinstance(c.func, ast.Attribute) and c.func.attr == 'validate' and c.args and isinstance(c.args[0], ast.Name) for c in inner):
            okc = True
    rep.check(okc, 'C09.shape', 'stdnum/iban.py', 'validate', 'if check_country: _get_cc_module(...).validate(number)', v.lineno,
              'iban.validate() does not call the national validator of the number\'s country under check_country')
    if fallback_rule(rep, get_interp().prog) < 2:
        rep.error('C09.fallback found fewer than the 2 shared gates of be.bis / be.nn under be.ssn confirmed on the reference tree')
    rep.expect_at_least('C09.table', 100, 'dispatch table cells')
    rep.expect_at_least('C09.accepts', 60, 'wrapper/constituent relations')
    rep.not_decided = ['the equivalence itself for every string (only: no accepted constituent shape is rejected + results are returned through constituents)',
                       'agreement of guess_* lists with validate on every input beyond the filter shape']
    return rep.finish()
