"""C13 - results are independent of call history, ordering, aliasing and threads (engine OWN).

Effect and ownership discipline, decided per construct:
 W  every write to module-level state from function scope is part of a *transparent memo*:
      if K not in C: ...; C[K] = V        (single store, last statement of the guarded body)
      ... C[K] ...                        (every other read uses the same key expression, after the guard,
                                           with no rebinding of the key's variables in between)
    V (and every local it is built from) depends only on the variables of K; the stored object is
    not touched after the store (publish-after-construct); nobody else touches C.
 E  no function returns or yields a module-level mutable container, a mutable element of one,
    or (numdb) a container owned by a loaded registry.
 M  no mutable default arguments, no global/nonlocal outside memo idioms, no attribute writes on
    modules/functions/classes, methods assign self.* only in __init__, no functools caches on
    functions that build containers.
 R  no reads of process environment other than the calendar date (random, os.environ, time, locale).
Under CPython's atomic dict operations W+E+M+R make every public call a function of its
arguments and the date, whatever happened before and whatever other threads do."""
import ast
import re
import os

from ..common import Report, REPO, AnalysisError, src, rel
from ..match import strip_doc
from ..strabs.model import Program

MUT_LIT = (ast.Dict, ast.List, ast.Set, ast.ListComp, ast.DictComp, ast.SetComp)
MUT_CALLS = ('dict', 'list', 'set', 'defaultdict', 'collections.defaultdict', 'OrderedDict', 'collections.OrderedDict', 'bytearray', 'deque')
MUTATORS = {'append', 'extend', 'insert', 'pop', 'remove', 'clear', 'sort', 'reverse', 'update', 'setdefault', 'popitem', 'add', 'discard',
            '__setitem__', '__delitem__', 'appendleft'}
ENV_READS = ('random.', 'os.environ', 'os.getenv', 'time.time', 'time.perf_counter', 'time.monotonic', 'locale.', 'uuid.', 'socket.',
             'getpass.', 'os.getpid', 'threading.get_ident', 'secrets.',
             # the table of loaded modules: what it holds depends on what ran before, and an entry may be a module that another
             # thread is still executing (the import lock is only taken by the import statement / __import__ / importlib)
             'sys.modules')


def is_mutable_init(v):
    if isinstance(v, MUT_LIT):
        return True
    if isinstance(v, ast.Call) and src(v.func) in MUT_CALLS:
        return True
    return False


def has_mutable_values(v):
    """dict/list literal whose elements are themselves mutable containers."""
    if isinstance(v, ast.Dict):
        return any(isinstance(x, MUT_LIT) for x in v.values)
    if isinstance(v, (ast.List, ast.Tuple, ast.Set)):
        return any(isinstance(x, MUT_LIT) for x in v.elts)
    if isinstance(v, ast.Call):
        return any(isinstance(x, MUT_LIT) for a in v.args for x in ast.walk(a) if x is not a) or any(has_mutable_values(a) for a in v.args)
    return False


class Unit:
    """One source file: module-level names and all function definitions with their scope."""

    def __init__(self, path, relname, tree):
        self.path, self.rel, self.tree = path, relname, tree
        self.mutable = {}      # module-level name -> init node
        self.modnames = set()
        for n in tree.body:
            if isinstance(n, ast.Assign):
                for t in n.targets:
                    if isinstance(t, ast.Name):
                        self.modnames.add(t.id)
                        if is_mutable_init(n.value) or (isinstance(n.value, ast.Constant) and n.value.value is None):
                            self.mutable[t.id] = n.value
            elif isinstance(n, (ast.FunctionDef, ast.ClassDef)):
                self.modnames.add(n.name)
            elif isinstance(n, (ast.Import, ast.ImportFrom)):
                for a in n.names:
                    self.modnames.add((a.asname or a.name).split('.')[0])
        self.funcs = []        # (qualname, FunctionDef, class or None)
        for n in tree.body:
            if isinstance(n, ast.FunctionDef):
                self.funcs.append((n.name, n, None))
            elif isinstance(n, ast.ClassDef):
                for c in n.body:
                    if isinstance(c, ast.FunctionDef):
                        self.funcs.append(('%s.%s' % (n.name, c.name), c, n))


def local_names(fn):
    out = {a.arg for a in fn.args.args + fn.args.kwonlyargs}
    if fn.args.vararg:
        out.add(fn.args.vararg.arg)
    if fn.args.kwarg:
        out.add(fn.args.kwarg.arg)
    globs = set()
    for n in ast.walk(fn):
        if isinstance(n, ast.Global):
            globs.update(n.names)
    for n in ast.walk(fn):
        if isinstance(n, ast.Name) and isinstance(n.ctx, ast.Store) and n.id not in globs:
            out.add(n.id)
        elif isinstance(n, (ast.Import, ast.ImportFrom)):
            for a in n.names:
                out.add((a.asname or a.name).split('.')[0])
        elif isinstance(n, ast.ExceptHandler) and n.name:
            out.add(n.name)
        elif isinstance(n, (ast.FunctionDef, ast.ClassDef)) and n is not fn:
            out.add(n.name)
    return out, globs


def deps(fn, params):
    """name -> set of parameters it may depend on (flow-insensitive closure over assignments)."""
    d = {p: {p} for p in params}
    changed = True
    assigns = []
    for n in ast.walk(fn):
        if isinstance(n, ast.Assign):
            for t in n.targets:
                for x in ast.walk(t):
                    if isinstance(x, ast.Name) and isinstance(x.ctx, ast.Store):
                        assigns.append((x.id, n.value))
        elif isinstance(n, ast.AugAssign) and isinstance(n.target, ast.Name):
            assigns.append((n.target.id, n.value))
        elif isinstance(n, (ast.For, ast.comprehension)):
            for x in ast.walk(n.target):
                if isinstance(x, ast.Name):
                    assigns.append((x.id, n.iter))
        elif isinstance(n, ast.With):
            for it in n.items:
                if it.optional_vars is not None:
                    for x in ast.walk(it.optional_vars):
                        if isinstance(x, ast.Name):
                            assigns.append((x.id, it.context_expr))
    while changed:
        changed = False
        for name, value in assigns:
            s = set()
            for x in ast.walk(value):
                if isinstance(x, ast.Name) and x.id in d:
                    s |= d[x.id]
            if not s <= d.get(name, set()):
                d[name] = d.get(name, set()) | s
                changed = True
    return d


def names_in(node):
    return {x.id for x in ast.walk(node) if isinstance(x, ast.Name)}


def find_writes(unit, fn):
    """Writes to module-level state inside fn: (kind, container name, node, stmt)."""
    loc, globs = local_names(fn)
    out = []
    for st in ast.walk(fn):
        if isinstance(st, (ast.Assign, ast.AugAssign, ast.Delete)):
            targets = st.targets if isinstance(st, (ast.Assign, ast.Delete)) else [st.target]
            for t in targets:
                if isinstance(t, ast.Subscript) and isinstance(t.value, ast.Name) and t.value.id not in loc and t.value.id in unit.modnames:
                    out.append(('store', t.value.id, t, st))
                elif isinstance(t, ast.Name) and t.id in globs:
                    out.append(('global', t.id, t, st))
                elif isinstance(t, ast.Attribute) and isinstance(t.value, ast.Name) and t.value.id not in loc and t.value.id in unit.modnames:
                    out.append(('attr', t.value.id, t, st))
        elif isinstance(st, ast.Call) and isinstance(st.func, ast.Attribute) and st.func.attr in MUTATORS \
                and isinstance(st.func.value, ast.Name) and st.func.value.id not in loc and st.func.value.id in unit.mutable:
            out.append(('mutate', st.func.value.id, st, st))
    return out


def check_memo(rep, unit, qual, fn, cname, writes):
    """Transparent-memo protocol for container `cname` written in fn."""
    file = unit.rel
    stores = [w for w in writes if w[1] == cname]
    kinds = {w[0] for w in stores}
    body = strip_doc(fn.body)
    params = [a.arg for a in fn.args.args + fn.args.kwonlyargs]
    d = deps(fn, params)
    if kinds == {'global'}:
        # if not G: G = V   with V independent of the arguments
        ok = True
        for kind, name, t, st in stores:
            guard = None
            for n in ast.walk(fn):
                if isinstance(n, ast.If) and any(x is st for x in ast.walk(n)) and src(n.test) in ('not %s' % name, '%s is None' % name):
                    guard = n
            vdeps = set()
            # WSGI deployment keys are constants of the process, not request data
            const_env = set()
            scope_node = guard if guard is not None else fn
            for x in ast.walk(scope_node):
                if isinstance(x, ast.Subscript) and isinstance(x.value, ast.Name) and isinstance(x.slice, ast.Constant) \
                        and x.slice.value in ('DOCUMENT_ROOT', 'SCRIPT_NAME', 'SCRIPT_FILENAME', 'SERVER_NAME'):
                    const_env.add(id(x.value))
            for x in ast.walk(scope_node):
                if isinstance(x, ast.Name) and isinstance(x.ctx, ast.Load) and x.id in params and id(x) not in const_env:
                    vdeps.add(x.id)
            rep.check(guard is not None and not vdeps, 'OWN.memo', file, qual, src(st)[:120], st.lineno,
                      'module-level name %s is rebound from function scope %s: later calls depend on earlier ones'
                      % (name, 'with a value that depends on the arguments %s' % sorted(vdeps) if vdeps else 'outside an `if not %s:` initialise-once guard' % name))
        return
    if kinds != {'store'} or len(stores) != 1:
        for kind, name, t, st in stores:
            rep.fail('OWN.memo', file, qual, src(st)[:120], st.lineno,
                     'module-level container %s is modified from function scope (%s) outside the single-store memo idiom: the outcome of later '
                     'calls depends on the calls made before' % (name, kind))
        return
    kind, name, target, st = stores[0]
    K = src(target.slice)
    ident = [x for x in ast.walk(target.slice) if isinstance(x, ast.Call) and isinstance(x.func, ast.Name) and x.func.id == 'id']
    rep.check(not ident, 'OWN.memo-identity-key', file, qual, src(st)[:120], st.lineno,
              'the memo %s is keyed on the identity of an object (%s): the identity stays the same when the caller modifies the object and is '
              'handed out again once the object has been freed, so a later call receives the value stored for different contents'
              % (name, src(ident[0]) if ident else ''))
    if ident:
        return
    # the guard: an If whose test is `K not in C` and whose body ends with the store (possibly nested in with/for/try)
    guard = None
    for n in ast.walk(fn):
        if isinstance(n, ast.If) and src(n.test) in ('%s not in %s' % (K, name), 'not %s in %s' % (K, name)) and any(x is st for x in ast.walk(n)):
            guard = n
    if guard is None:
        rep.fail('OWN.memo', file, qual, src(st)[:120], st.lineno,
                 'store into module-level %s is not guarded by `if %s not in %s`' % (name, K, name))
        return
    # store must be the last effect of the guarded body
    last = guard.body[-1]
    while isinstance(last, (ast.With, ast.For, ast.Try, ast.If)) and last is not st:
        last = (last.orelse or last.body)[-1] if isinstance(last, ast.For) and last.orelse else last.body[-1]
    rep.check(last is st, 'OWN.publish-after-construct', file, qual, src(st)[:120], st.lineno,
              'the store into %s is not the last statement of the initialisation block: the object is published before it is complete and '
              'concurrent first users can observe it half-built' % name)
    # stored value not touched after the store
    vname = st.value.id if isinstance(st.value, ast.Name) else None
    after = False
    for n in ast.walk(fn):
        pass
    touched = []
    order = list(ast.walk(fn))
    seen_store = False
    for s2 in iter_stmts(fn.body):
        if s2 is st:
            seen_store = True
            continue
        if not seen_store:
            continue
        for x in ast.walk(s2):
            if isinstance(x, ast.Call):
                args = list(x.args) + [k.value for k in x.keywords]
                recv = x.func.value if isinstance(x.func, ast.Attribute) else None
                for a in args + ([recv] if recv is not None else []):
                    sa = src(a)
                    if (vname and sa == vname) or sa == '%s[%s]' % (name, K):
                        pure = isinstance(x.func, ast.Name) and x.func.id in (
                            'bool', 'len', 'isinstance', 'getattr', 'hasattr', 'str', 'repr', 'iter', 'sorted', 'list', 'tuple', 'dict', 'id', 'type')
                        reader = isinstance(x.func, ast.Attribute) and a is recv and x.func.attr not in MUTATORS and x.func.attr in (
                            'get', 'info', 'split', 'items', 'keys', 'values', 'validate', 'is_valid', 'compact', 'format', 'match', 'search')
                        if not pure and not reader:
                            touched.append(x)
    rep.check(not touched, 'OWN.publish-after-construct', file, qual, src(st)[:120], st.lineno,
              'the object stored in %s is passed on or modified after the store (%s): a concurrent first user can observe it half-built'
              % (name, src(touched[0])[:80] if touched else ''), what='%s[%s] is complete when stored' % (name, K))
    # value depends only on the key
    kvars = set()
    for x in names_in(target.slice):
        kvars |= d.get(x, set())
    vdeps = set()
    for n in ast.walk(guard):
        if isinstance(n, ast.Name) and isinstance(n.ctx, ast.Load) and n.id in d and not any(n is y for y in ast.walk(guard.test)):
            vdeps |= d[n.id]
    rep.check(vdeps <= kvars, 'OWN.memo-key', file, qual, src(st)[:120], st.lineno,
              'the cached value depends on %s but the cache key only on %s: a later call with a different %s gets the value computed for an '
              'earlier one' % (sorted(vdeps), sorted(kvars), sorted(vdeps - kvars)), what='value deps %s within key deps %s' % (sorted(vdeps), sorted(kvars)))
    # every other access to C is C[K] after the guard without rebinding of K's variables
    stmts = list(iter_stmts(fn.body))
    gi = stmts.index(guard)
    keynames = names_in(target.slice)
    for n in ast.walk(fn):
        if isinstance(n, ast.Name) and n.id == name and isinstance(n.ctx, ast.Load):
            holder = enclosing_stmt(fn, n)
            if any(x is n for x in ast.walk(guard)):
                continue
            par = parent_of(fn, n)
            good = isinstance(par, ast.Subscript) and par.value is n and src(par.slice) == K
            pos = stmts.index(holder) if holder in stmts else -1
            rebound = False
            if pos > gi:
                for s3 in stmts[gi + 1:pos]:
                    for x in ast.walk(s3):
                        if isinstance(x, ast.Name) and isinstance(x.ctx, ast.Store) and x.id in keynames:
                            rebound = True
            rep.check(good and pos > gi and not rebound, 'OWN.memo-transparent', file, qual, src(holder)[:120], holder.lineno,
                      'module-level %s is read here %s: the result then depends on which keys earlier calls have filled in'
                      % (name, 'before the `if %s not in %s` guard' % (K, name) if good else 'other than as %s[%s]' % (name, K)),
                      what='%s[%s] read after its guard' % (name, K))


def iter_stmts(body):
    for st in body:
        yield st
        for f in ('body', 'orelse', 'finalbody'):
            sub = getattr(st, f, None)
            if isinstance(sub, list) and sub and isinstance(sub[0], ast.stmt):
                yield from iter_stmts(sub)
        if isinstance(st, ast.Try):
            for h in st.handlers:
                yield from iter_stmts(h.body)


def parent_of(fn, node):
    for p in ast.walk(fn):
        for c in ast.iter_child_nodes(p):
            if c is node:
                return p
    return None


def enclosing_stmt(fn, node):
    best = None
    for st in iter_stmts(fn.body):
        if any(x is node for x in ast.walk(st)):
            best = st
    return best


ONE_SHOT_CALLS = {'iter', 'map', 'filter', 'zip', 'reversed', 'enumerate', 'open'}


def check_one_shot(rep, unit):
    """OWN.one-shot-global: a module-level generator expression or iterator object is consumed by the first calls that
    read it and is empty afterwards: what a function returns then depends on how often it was called before."""
    file = unit.rel
    n = 0
    for st in unit.tree.body:
        if not (isinstance(st, ast.Assign) and len(st.targets) == 1 and isinstance(st.targets[0], ast.Name)):
            continue
        v = st.value
        one_shot = isinstance(v, ast.GeneratorExp) or (isinstance(v, ast.Call) and isinstance(v.func, ast.Name) and v.func.id in ONE_SHOT_CALLS)
        if not one_shot:
            continue
        name = st.targets[0].id
        for qual, fn, _cls in unit.funcs:
            if name in local_names(fn):
                continue
            for r in ast.walk(fn):
                if isinstance(r, ast.Name) and r.id == name and isinstance(r.ctx, ast.Load):
                    n += 1
                    rep.fail('OWN.one-shot-global', file, qual, src(enclosing_stmt(fn, r) or r)[:120], r.lineno,
                             'module-level %s = %s is an iterator: the first calls consume it, later calls of %s() see it empty (result depends on the call history)'
                             % (name, src(v)[:60], qual))
    return n


def check_inserting_lookup(rep, unit):
    """OWN.inserting-lookup: a module-level collections.defaultdict (with a factory) inserts the key on every failed `table[key]`:
    a lookup from a function grows the table, and later membership tests / lookups depend on the call history."""
    file = unit.rel
    for st in unit.tree.body:
        if not (isinstance(st, ast.Assign) and len(st.targets) == 1 and isinstance(st.targets[0], ast.Name)):
            continue
        v = st.value
        if not (isinstance(v, ast.Call) and src(v.func) in ('defaultdict', 'collections.defaultdict') and v.args
                and not (isinstance(v.args[0], ast.Constant) and v.args[0].value is None)):
            continue
        name = st.targets[0].id
        for qual, fn, _cls in unit.funcs:
            if name in local_names(fn):
                continue
            for r in ast.walk(fn):
                if isinstance(r, ast.Subscript) and isinstance(r.ctx, ast.Load) and isinstance(r.value, ast.Name) and r.value.id == name:
                    rep.fail('OWN.inserting-lookup', file, qual, src(enclosing_stmt(fn, r) or r)[:120], r.lineno,
                             'module-level %s is a defaultdict: `%s` stores the key it did not find, so membership tests and lookups in later calls '
                             'depend on which keys earlier calls asked for' % (name, src(r)[:60]))


def check_shared_exception(rep, unit):
    """`raise NAME` where NAME is bound at module level to an *instance* (a call): every failing call raises the same object, so
    what one caller does to it (args, attributes, the traceback attached by the interpreter) is seen by the next one and by other threads."""
    inst = {}
    for st in unit.tree.body:
        if isinstance(st, ast.Assign) and isinstance(st.value, ast.Call) and len(st.targets) == 1 and isinstance(st.targets[0], ast.Name):
            # a call of an exception class (by the library's and Python's naming), not of a class factory
            callee = src(st.value.func).split('.')[-1]
            if re.search(r'(Error|Exception|Warning|^Invalid\w*)$', callee):
                inst[st.targets[0].id] = st
    n = 0
    for qual, fn, _cls in unit.funcs:
        loc, _g = local_names(fn)
        for x in ast.walk(fn):
            if isinstance(x, ast.Raise) and x.exc is not None:
                n += 1
                shared = isinstance(x.exc, ast.Name) and x.exc.id in inst and x.exc.id not in loc
                rep.check(not shared, 'OWN.shared-exception', unit.rel, qual, src(x), x.lineno,
                          'raises the module-level instance %s (created once at import: %s): every failing call hands the same exception object to its '
                          'caller, so annotations, args and the traceback of one call show up in later calls and in other threads'
                          % (src(x.exc), src(inst[x.exc.id])[:80] if shared else ''), what='a fresh exception (or a class) is raised')
    return n


def check_unit(rep, unit, registry_owner=False):
    file = unit.rel
    check_one_shot(rep, unit)
    check_shared_exception(rep, unit)
    check_inserting_lookup(rep, unit)
    written = {}
    for qual, fn, cls in unit.funcs:
        for w in find_writes(unit, fn):
            written.setdefault(w[1], []).append((qual, fn, w))
    # W: writers follow the memo protocol; one owner per container
    for cname, lst in written.items():
        owners = sorted({q for q, _f, _w in lst})
        if len(owners) > 1:
            for q, fn, w in lst:
                rep.fail('OWN.single-owner', file, q, src(w[3])[:120], w[3].lineno, 'module-level %s is written by several functions %s' % (cname, owners))
            continue
        q, fn, _ = lst[0]
        if any(w[0] == 'attr' for _q, _f, w in lst):
            for _q, _f, w in lst:
                rep.fail('OWN.attr-write', file, q, src(w[3])[:120], w[3].lineno, 'attribute of module-level object %s is assigned from function scope' % cname)
            continue
        check_memo(rep, unit, q, fn, cname, [w for _q, _f, w in lst])
        # other functions must not read the container either
        last_write = max([w[3].lineno for _q, _f, w in lst] or [0])
        for q2, fn2, _c in unit.funcs:
            if fn2 is fn:
                continue
            # a private helper that only the owner calls, after the owner has filled the memo, reads what the owner would read
            if fn2.name.startswith('_') and _c is None:
                uses = [x for x in ast.walk(unit.tree) if isinstance(x, ast.Name) and x.id == fn2.name and isinstance(x.ctx, ast.Load)]
                inside = [x for x in ast.walk(fn) if isinstance(x, ast.Call) and isinstance(x.func, ast.Name) and x.func.id == fn2.name]
                if uses and len(uses) == len(inside) and all(c.lineno > last_write for c in inside):
                    continue
            loc, _g = local_names(fn2)
            for n in ast.walk(fn2):
                if isinstance(n, ast.Name) and n.id == cname and cname not in loc and isinstance(n.ctx, ast.Load):
                    st = enclosing_stmt(fn2, n)
                    rep.fail('OWN.memo-transparent', file, q2, src(st)[:120], st.lineno,
                             'memo container %s owned by %s() is read by another function: its content depends on the call history' % (cname, q))
    for qual, fn, cls in unit.funcs:
        loc, globs = local_names(fn)
        # M: mutable defaults
        for dflt in list(fn.args.defaults) + [k for k in fn.args.kw_defaults if k is not None]:
            rep.check(not is_mutable_init(dflt), 'OWN.mutable-default', file, qual, src(dflt)[:80], fn.lineno,
                      'mutable default argument is shared between calls', what='default %s' % src(dflt)[:40])
            # a default is evaluated once, when the module is imported: a clock read there is the date of the import for the life of the process
            clk = [c for c in ast.walk(dflt) if isinstance(c, ast.Call) and src(c.func).endswith(('.today', '.now', '.utcnow', 'time.time', 'time.localtime'))]
            if clk:
                rep.fail('OWN.default-clock', file, qual, '%s=%s' % ('default', src(dflt)[:60]), fn.lineno,
                         'the default argument %s reads the clock when the module is imported: every later call sees the date of the import, so the result '
                         'depends on how long the process has been running' % src(dflt)[:60])
        for n in ast.walk(fn):
            if isinstance(n, ast.Nonlocal):
                rep.fail('OWN.global', file, qual, src(n), n.lineno, 'nonlocal state shared between calls')
            if isinstance(n, ast.Global):
                for g in n.names:
                    if g not in written:
                        rep.ok('OWN.global', '%s:%d %s' % (file, n.lineno, qual), 'global %s declared but never assigned' % g)
        # decorators that memoise
        for dec in fn.decorator_list:
            ds = src(dec)
            if 'lru_cache' in ds or ds.endswith('cache') or 'cached_property' in ds:
                def mutable_value(v, depth=0):
                    if isinstance(v, MUT_LIT) or (isinstance(v, ast.Call) and src(v.func) in MUT_CALLS):
                        return True
                    if isinstance(v, ast.Name) and depth < 3:
                        # a local that is (also) bound to a container built in this function
                        return any(isinstance(a, ast.Assign) and any(isinstance(t, ast.Name) and t.id == v.id for t in a.targets) and mutable_value(a.value, depth + 1)
                                   for a in ast.walk(fn))
                    return False
                builds = any(mutable_value(r.value) for r in ast.walk(fn) if isinstance(r, ast.Return) and r.value is not None)
                clock = [c for c in ast.walk(fn) if isinstance(c, ast.Call) and src(c.func).endswith(('.today', '.now', '.utcnow', 'time.time', 'time.localtime'))]
                rep.check(not clock, 'OWN.func-cache', file, qual, ds + ' / ' + (src(clock[0]) if clock else 'no clock read'), fn.lineno,
                          'a memoised function reads the clock (%s): the cached answer of an earlier day is returned later' % (src(clock[0]) if clock else ''),
                          what='%s: no clock read under %s' % (qual, ds))
                rep.check(not builds, 'OWN.func-cache', file, qual, ds, fn.lineno,
                          'memoised function returns a container: every caller gets the same object, mutation by one changes the result for others')
        # methods: self.* only in __init__
        if cls is not None and fn.args.args and fn.name != '__init__':
            selfn = fn.args.args[0].arg
            for n in ast.walk(fn):
                if isinstance(n, (ast.Assign, ast.AugAssign, ast.Delete)):
                    for t in (n.targets if isinstance(n, (ast.Assign, ast.Delete)) else [n.target]):
                        base = t
                        while isinstance(base, ast.Subscript):
                            base = base.value
                        if isinstance(base, ast.Attribute) and isinstance(base.value, ast.Name) and base.value.id == selfn:
                            rep.fail('OWN.instance-state', file, qual, src(n)[:100], n.lineno, 'method changes instance state outside __init__: shared module-level instances change between calls')
                if isinstance(n, ast.Call) and isinstance(n.func, ast.Attribute) and n.func.attr in MUTATORS:
                    base = n.func.value
                    while isinstance(base, ast.Subscript):
                        base = base.value
                    if isinstance(base, ast.Attribute) and isinstance(base.value, ast.Name) and base.value.id == selfn:
                        rep.fail('OWN.instance-state', file, qual, src(n)[:100], n.lineno, 'method mutates instance state outside __init__: shared module-level instances change between calls')
        # E: escapes
        for n in ast.walk(fn):
            if isinstance(n, (ast.Return, ast.Yield)) and n.value is not None:
                v = n.value
                esc = None
                if isinstance(v, ast.Name) and v.id in unit.mutable and v.id not in loc and not (isinstance(unit.mutable[v.id], ast.Constant)):
                    esc = 'the module-level container %s itself' % v.id
                base = None
                if isinstance(v, ast.Subscript) and isinstance(v.value, ast.Name):
                    base = v.value.id
                if isinstance(v, ast.Call) and isinstance(v.func, ast.Attribute) and v.func.attr in ('get', 'setdefault', 'pop') and isinstance(v.func.value, ast.Name):
                    base = v.func.value.id
                if base and base in unit.mutable and base not in loc and has_mutable_values(unit.mutable[base]):
                    esc = 'a mutable element of the module-level container %s' % base
                if base and base in unit.mutable and base not in loc and not esc:
                    # a memo that starts empty: what the functions store into it decides whether its elements are mutable
                    for q3, fn3, _c3 in unit.funcs:
                        for a3 in ast.walk(fn3):
                            if isinstance(a3, ast.Assign) and any(isinstance(t3, ast.Subscript) and isinstance(t3.value, ast.Name) and t3.value.id == base
                                                                  for t3 in a3.targets) and is_mutable_init(a3.value):
                                esc = 'the mutable object (%s) that %s() stored in the module-level container %s' % (src(a3.value)[:30], q3, base)
                if esc:
                    rep.fail('OWN.escape', file, qual, src(n)[:120], n.lineno,
                             'returns %s: a caller that mutates the result changes what later calls return' % esc)
                elif any(isinstance(x, ast.Name) and x.id in unit.mutable and x.id not in loc for x in ast.walk(v)):
                    rep.ok('OWN.escape', '%s:%d %s' % (file, n.lineno, qual), 'result built from module-level data without handing out the container: ' + src(v)[:60])
        # R: environment reads
        for n in ast.walk(fn):
            if isinstance(n, (ast.Attribute, ast.Name)):
                s = src(n)
                if s == 'sys.modules' and isinstance(parent_of(fn, n), ast.Subscript):
                    # accepted idiom: __import__(X) immediately followed by sys.modules[X] (the import statement has completed, X is loaded)
                    key = src(parent_of(fn, n).slice)
                    prior = [c for c in ast.walk(fn) if isinstance(c, ast.Call) and isinstance(c.func, ast.Name) and c.func.id == '__import__'
                             and c.args and src(c.args[0]) == key and c.lineno <= n.lineno]
                    if prior:
                        rep.ok('OWN.environment', '%s:%d %s' % (file, n.lineno, qual), 'sys.modules[%s] right after __import__(%s)' % (key, key))
                        continue
                if any(s == e.rstrip('.') or s.startswith(e) for e in ENV_READS) and not isinstance(parent_of(fn, n), ast.Attribute):
                    rep.fail('OWN.environment', file, qual, s, n.lineno, 'reads process environment (%s): the result is not a function of the arguments and the date' % s)


def check(tier):
    rep = Report('C13', tier, level='other',
                 rule_text='effect/ownership analysis over every function of stdnum/ and online_check/stdnum.wsgi: writes to module state only '
                           'inside a transparent single-store memo whose value depends on the key alone and is published after construction; '
                           'no escape of module-level or registry-owned containers; no mutable defaults, shared instance state, function '
                           'caches of containers or environment reads',
                 trusted=['CPython ast', 'CPython dict get/set atomicity under the GIL', 'import of a module yields the same module object every time'],
                 assumptions=['callers do not assign attributes of stdnum modules', 'racing first calls store equal values (value is a function of the key)'])
    prog = Program()
    units = []
    for name, m in sorted(prog.mods.items()):
        units.append(Unit(m.path, rel(m.path), m.tree))
    wsgi = os.path.join(REPO, 'online_check', 'stdnum.wsgi')
    if os.path.exists(wsgi):
        with open(wsgi, encoding='utf-8') as fh:
            units.append(Unit(wsgi, 'online_check/stdnum.wsgi', ast.parse(fh.read())))
    else:
        raise AnalysisError('online_check/stdnum.wsgi vanished')
    nfun = 0
    for u in units:
        nfun += len(u.funcs)
        check_unit(rep, u)
    rep.unit('files', len(units))
    rep.unit('functions', nfun)
    # registry storage never escapes (decision of numdb._find, shared with C10)
    from . import c10
    tree, methods, funcs = c10.load()
    sub = Report('C13', tier)
    c10.check_find(sub, methods)
    for f in sub.findings:
        if f.rule == 'DT.no-alias' or 'reset' in f.detail or 'ALIAS' in f.detail:
            rep.fail('OWN.registry-no-alias', f.file, f.func, f.construct, f.line, f.detail)
    if not any(f.rule == 'DT.no-alias' for f in sub.findings):
        rep.ok('OWN.registry-no-alias', 'stdnum/numdb.py _find', 'returned property dicts and child lists are fresh containers in all 27 order types')
    # rules with no instance on a healthy tree must still recognise their construct
    probe = Report('C13', tier)
    check_one_shot(probe, Unit('probe.py', 'probe.py', ast.parse('_mods = (m for m in (1, 2))\ndef f(x):\n    for m in _mods:\n        return m\n')))
    if len(probe.findings) != 1:
        rep.error('OWN.one-shot-global no longer recognises its positive example')
    probe = Report('C13', tier)
    check_inserting_lookup(probe, Unit('probe.py', 'probe.py', ast.parse('from collections import defaultdict\n_t = defaultdict(int, {1: 2})\ndef f(x):\n    return _t[x]\n')))
    if len(probe.findings) != 1:
        rep.error('OWN.inserting-lookup no longer recognises its positive example')
    rep.expect_at_least('OWN.shared-exception', 700, 'raise statements')
    rep.expect_at_least('OWN.memo-key', 4, 'memo stores (numdb, iban, eu.vat, vatin, soap)')
    rep.expect_at_least('OWN.mutable-default', 100, 'default arguments')
    rep.not_decided = ['interleavings are not enumerated: the effect discipline makes every call a function of its arguments',
                       'interpreter-level faults (import errors, MemoryError)']
    return rep.finish()
