"""Driver: /venv/bin/python -m sa <property id> [--tier quick|thorough]
           /venv/bin/python -m sa replay <violation file>
           /venv/bin/python -m sa all [--tier ...]"""
import importlib
import json
import os
import sys

from .common import run_guarded

PROPS = ['C%02d' % i for i in range(1, 19)]


def run_one(pid, tier):
    try:
        mod = importlib.import_module('sa.props.%s' % pid.lower())
    except ImportError as e:
        print('ANALYSIS-ERROR property=%s no checker: %s' % (pid, e))
        return 2
    return run_guarded(pid, mod.check, tier)


def main(argv):
    tier = os.environ.get('VERIF_TIER', 'quick') or 'quick'
    if '--tier' in argv:
        i = argv.index('--tier')
        tier = argv[i + 1]
        del argv[i:i + 2]
    if tier not in ('quick', 'thorough'):
        tier = 'quick'
    if tier == 'thorough':
        # read by sa.strabs at import time: deeper inlining, more disjuncts, separate cache entries
        os.environ['SA_THOROUGH'] = '1'
    if not argv:
        print(__doc__)
        return 2
    if argv[0] == 'replay':
        with open(argv[1]) as fh:
            v = json.load(fh)
        pid, key = v['property'], v['finding']['key']
        os.environ['SA_REPLAY_KEY'] = key
        mod = importlib.import_module('sa.props.%s' % pid.lower())
        from . import common
        orig = common.Report.finish

        def finish(self):
            hit = [f for f in self.findings if f.key == key]
            for f in hit:
                print('REPLAY: still violated: %s:%s in %s [%s] %s' % (f.file, f.line, f.func, f.rule, f.detail))
            if not hit:
                print('REPLAY: construct no longer violates the rule: %s' % key)
            return 1 if hit else 0
        common.Report.finish = finish
        try:
            return run_guarded(pid, mod.check, tier)
        finally:
            common.Report.finish = orig
    if argv[0] == 'all':
        rc = 0
        for pid in PROPS:
            if os.path.exists(os.path.join(os.path.dirname(__file__), 'props', pid.lower() + '.py')):
                rc = max(rc, run_one(pid, tier))
        return rc
    return run_one(argv[0].upper(), tier)


if __name__ == '__main__':
    sys.stdout.reconfigure(errors='backslashreplace')
    sys.exit(main(sys.argv[1:]))
