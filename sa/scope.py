"""Constructs a rule cannot decide (one symbol + one reason each).  They are neither findings nor
passes: the evidence lists them as `undecided`."""

C03_UNDECIDED = {
    'stdnum.vatin': 'validate() and compact() are written as siblings (both dispatch on number[:2] after clean().strip()); whether '
                    'validate factors through compact depends on every country module and is not a dataflow fact',
    'stdnum.de.handelsregisternummer': 'validate() and compact() both consume _split(number); compact joins the parts with blanks, which is '
                                       'not shown to be injective on split results',
}

# the property itself excludes these formats (compact() deliberately drops what validate() inspects)
C03_EXCLUDED_BY_PROPERTY = ['stdnum.isan', 'stdnum.meid', 'stdnum.us.ssn', 'stdnum.us.itin', 'stdnum.us.ein', 'stdnum.us.atin', 'stdnum.us.tin']

# Sinks / results the STRABS interpreter cannot decide (key: module|function|construct).
_US = ('validate() matches its pattern on clean(number, \'\').strip() and returns compact(number): two different cleanings of the '
       'raw argument whose relation (both non-empty together) is not a character-class fact')
_STNR = 'de.stnr keeps its patterns in instances of a local class (_Format); instance methods are not modelled'
C01_UNDECIDED_SINKS = {
    "stdnum.de.handelsregisternummer|validate|' '.join((x for x in [court, registry, number, qualifier] if x))": 'free-text court name handled by _split(); tuple of optional parts is not modelled',
    "stdnum.de.handelsregisternummer|validate|returns empty-str": 'free-text court name handled by _split(); tuple of optional parts is not modelled',
    "stdnum.de.stnr|validate|(region_fmt.match(number) or country_fmt.match(number) for _region, region_fmt, country_fmt in _get_formats(region))": _STNR,
    "stdnum.de.stnr|validate|region_fmt.match": _STNR,
    "stdnum.de.stnr|validate|region_fmt.match(number)": _STNR,
    "stdnum.de.stnr|validate|country_fmt.match": _STNR,
    "stdnum.de.stnr|validate|country_fmt.match(number)": _STNR,
    "stdnum.mac|is_universally_administered|int(number[:2], 16)": 'compact() is re-applied to the already compact value and rebuilds it through split(\':\')/join; the per-position facts of the pattern gate are lost',
    "stdnum.ro.onrc|validate|county, serial, year = number[1:].split('/')": 'split(\'/\') of a string whose pattern has exactly two slashes: segment structure is not modelled',
    "stdnum.se.personnummer|get_birth_date|int('%d%s' % (century, number[0:2]))": 'compact() rebuilds the number around the sign character (replace on a slice); positions are lost',
    "stdnum.us.ein|get_campus|numdb.get('us/ein').info(number)[0]": _US,
    "stdnum.us.ein|validate|returns empty-str": _US,
    "stdnum.us.atin|validate|returns empty-str": _US,
    "stdnum.us.itin|validate|returns empty-str": _US,
    "stdnum.us.ssn|validate|returns empty-str": _US,
    "stdnum.us.tin|validate|returns empty-str": _US,
    "stdnum.isil|validate|returns empty-str": 'emptiness is excluded by the registry lookup of the agency prefix (an empty agency is unknown), not by a gate on the string',
}

# C15: formats whose own alphabet contains national letters (stated by the property)
C15_NATIONAL = {
    'stdnum.de.handelsregisternummer': 'ÄÖÜäöüßé',
    'stdnum.mx.rfc': 'Ñ',
    'stdnum.es.referenciacatastral': 'Ñ',
}
C15_GENERIC = ['stdnum.luhn', 'stdnum.verhoeff', 'stdnum.damm', 'stdnum.iso7064.mod_11_2', 'stdnum.iso7064.mod_11_10', 'stdnum.iso7064.mod_37_2',
               'stdnum.iso7064.mod_37_36', 'stdnum.iso7064.mod_97_10']
C15_UNDECIDED = {
    'stdnum.us.atin': _US, 'stdnum.us.ein': _US, 'stdnum.us.itin': _US, 'stdnum.us.ssn': _US, 'stdnum.us.tin': _US,
    'stdnum.eu.vat': 'the result is cc + module.validate(number) where the prefix cc comes from the cleaned input; that it equals the ASCII country code '
                     'follows from the member-state module accepting the remainder, which is not a character-class fact',
    'stdnum.eu.nace': 'single-letter codes pass isalpha() and are then looked up in the registry, whose entries are ASCII; the lookup is not modelled per character',
    'stdnum.de.handelsregisternummer': 'free-text court name matched against a table of court names (national letters allowed by the property)',
    'stdnum.gs1_128': 'values of application identifiers are re-encoded from decoded Python objects (dates, decimals); the element string is rebuilt',
}

_REBUILD = 'compact() rebuilds the number (split/join/zfill or re-encoding), so "same string" is not visible as "same cells"'
_DISPATCH = 'the result is assembled from the result of a dynamically selected module; identity of the string is lost at the dispatch'
C02_UNDECIDED = {
    'stdnum.cr.cpf': _REBUILD, 'stdnum.tn.mf': _REBUILD, 'stdnum.mac': _REBUILD, 'stdnum.isan': _REBUILD, 'stdnum.meid': _REBUILD,
    'stdnum.gs1_128': _REBUILD, 'stdnum.de.handelsregisternummer': _REBUILD,
    'stdnum.cz.bankaccount': _REBUILD, 'stdnum.nz.bankaccount': _REBUILD, 'stdnum.ro.onrc': _REBUILD,
    'stdnum.nl.postcode': 'the canonical form contains the blank that compact() deletes; validate() re-inserts it (fixed point of validate, not of compact)',
    'stdnum.eu.vat': _DISPATCH, 'stdnum.vatin': _DISPATCH, 'stdnum.us.tin': _DISPATCH,
}

# modules whose *edges* cannot be decided either (the interpreter's result for them may start or end with anything); for the
# other C02_UNDECIDED modules only the identity argument is out of reach, their first/last character classes are decided
C02_EDGES_UNDECIDED = {'stdnum.de.handelsregisternummer', 'stdnum.eu.vat', 'stdnum.gs1_128', 'stdnum.vatin'}

_NUMDB = 'hyphenation comes from a registry / range table lookup (numdb.split); the parts are not related to input positions by the interpreter'
C04_UNDECIDED = {
    'stdnum.isbn': _NUMDB, 'stdnum.ismn': _NUMDB + ' (the property documents the 13-digit presentation)',
    'stdnum.isan': 'format() adds check characters (documented by the property)', 'stdnum.meid': 'format() re-encodes hex/decimal and drops the check digit (documented by the property)',
    'stdnum.isil': 'agency prefix is upper-cased (documented by the property); the prefix boundary is found with split(\'-\')',
    'stdnum.iban': 'grouping in blocks of four over a number whose length depends on the registry entry (the national modules with fixed length are decided)',
    'stdnum.us.atin': _US, 'stdnum.us.ein': _US, 'stdnum.us.itin': _US, 'stdnum.us.ssn': _US, 'stdnum.us.tin': _US,
    'stdnum.cr.cpf': _REBUILD, 'stdnum.tn.mf': _REBUILD, 'stdnum.de.stnr': _STNR,
    'stdnum.ch.vat': 'the UID part is re-validated and re-formatted by another module after a second strip()',
    'stdnum.no.mva': 'consequence of the C02/C15 finding for no.mva (whitespace after the NO prefix survives compact)',
    'stdnum.no.kontonr': 'consequence of the C02 finding for no.kontonr (compact() strips 0000 repeatedly)',
    'stdnum.pt.cc': 'numbers of unbounded length (pattern [0-9]*): negative slices of a variable-length string',
    'stdnum.gs1_128': _REBUILD, 'stdnum.de.handelsregisternummer': _REBUILD,
    'stdnum.cz.bankaccount': _REBUILD, 'stdnum.nz.bankaccount': _REBUILD,
}
C12_UNDECIDED_SINKS = {
    "stdnum.se.personnummer|get_birth_date|int('%d%s' % (century, number[0:2]))": C01_UNDECIDED_SINKS["stdnum.se.personnummer|get_birth_date|int('%d%s' % (century, number[0:2]))"],
    "stdnum.us.ein|get_campus|numdb.get('us/ein').info(number)[0]": _US,
    "stdnum.eu.nace|get_label|info(number)['label']": 'info() accumulates registry properties in a dict(); the label key is decided by the registry check (C11: every entry chain has label=)',
    "stdnum.isan|to_binary|a2b_hex(compact(number, strip_check_digits=True))": _REBUILD,
}
C04_FLOW_UNDECIDED = {
    'stdnum.th.tin': 'the fallback `return number` is reached only when no sub-type accepts the number, i.e. for numbers validate() rejects',
    'stdnum.isan': C04_UNDECIDED['stdnum.isan'], 'stdnum.meid': C04_UNDECIDED['stdnum.meid'],
}


def sink_key(key):
    """Scope entries name module|function|construct; what identifies the undecided operation is the function and the operation
    it applies (the callee up to its argument list), not the spelling of the arguments: `int('%d%s' % (c, n[0:2]))` and
    `int(f'{c}{n[0:2]}')` are the same sink."""
    parts = key.split('|', 2)
    if len(parts) != 3:
        return key
    c = parts[2]
    i = c.find('(')
    return '%s|%s|%s' % (parts[0], parts[1], c[:i] if i > 0 else c)


class SinkScope(dict):
    """dict keyed by module|function|construct that also answers for another spelling of the same operation in the same function"""

    def _alt(self, key):
        k2 = sink_key(key)
        for k in dict.keys(self):
            if sink_key(k) == k2:
                return k
        return None

    def __contains__(self, key):
        return dict.__contains__(self, key) or self._alt(key) is not None

    def __getitem__(self, key):
        if dict.__contains__(self, key):
            return dict.__getitem__(self, key)
        k = self._alt(key)
        if k is None:
            raise KeyError(key)
        return dict.__getitem__(self, k)

    def get(self, key, default=None):
        return self[key] if key in self else default


C01_UNDECIDED_SINKS = SinkScope(C01_UNDECIDED_SINKS)
C12_UNDECIDED_SINKS = SinkScope(C12_UNDECIDED_SINKS)
