"""Constructs a rule cannot decide (one symbol + one reason each).  They are neither findings nor
passes: the evidence lists them as `undecided`."""

C03_UNDECIDED = {
    'stdnum.vatin': 'validate() and compact() are written as siblings (both dispatch on number[:2] after clean().strip()); whether '
                    'validate factors through compact depends on every country module and is not a dataflow fact',
    'stdnum.de.handelsregisternummer': 'validate() and compact() both consume _split(number); compact joins the parts with blanks, which is '
                                       'not shown to be injective on split results',
}

# the property itself excludes these formats (compact() deliberately drops what validate() inspects)
C03_EXCLUDED_BY_PROPERTY = ['stdnum.isan', 'stdnum.meid', 'stdnum.us.ssn', 'stdnum.us.itin', 'stdnum.us.ein', 'stdnum.us.atin', 'stdnum.us.tin']
