"""Small unifier over `ast` used by the shape rules.

Pattern language: ordinary Python source in which
  * a Name starting with `E_` is an expression metavariable (binds any expression; a second
    occurrence must be structurally equal),
  * a Name starting with `V_` is a variable metavariable (binds a Name only, i.e. a consistent
    renaming of a local variable),
  * a Name starting with `K_` binds a Constant only,
  * `+` and `*` are tried commutatively.
Everything else must match structurally (context fields, positions and type comments ignored).
"""
import ast


def parse_expr(src):
    return ast.parse(src, mode='eval').body


def parse_stmts(src):
    return ast.parse(src).body


def _dump(n):
    s = ast.dump(n)
    return s.replace(', ctx=Load()', '').replace(', ctx=Store()', '').replace(', ctx=Del()', '')


def same(a, b):
    return _dump(a) == _dump(b)


def unify(pat, node, b):
    """Returns True and extends the dict b when node matches pat."""
    if isinstance(pat, ast.Name) and pat.id[:2] in ('E_', 'V_', 'K_'):
        kind = pat.id[:2]
        if kind == 'V_' and not isinstance(node, ast.Name):
            return False
        if kind == 'K_' and not isinstance(node, ast.Constant):
            return False
        if not isinstance(node, ast.AST):
            return False
        if pat.id in b:
            return same(b[pat.id], node)
        b[pat.id] = node
        return True
    if isinstance(pat, ast.arg) and pat.arg[:2] == 'V_':
        if not isinstance(node, ast.arg):
            return False
        nm = ast.Name(id=node.arg, ctx=ast.Load())
        if pat.arg in b:
            return isinstance(b[pat.arg], ast.Name) and b[pat.arg].id == node.arg
        b[pat.arg] = nm
        return True
    if type(pat) is not type(node):
        return False
    if isinstance(pat, ast.Name):
        return pat.id == node.id
    if isinstance(pat, ast.BinOp) and isinstance(pat.op, (ast.Add, ast.Mult)) and type(pat.op) is type(node.op):
        for l, r in ((node.left, node.right), (node.right, node.left)):
            b2 = dict(b)
            if unify(pat.left, l, b2) and unify(pat.right, r, b2):
                b.clear()
                b.update(b2)
                return True
        return False
    if isinstance(pat, ast.AST):
        for f in pat._fields:
            if f in ('ctx', 'type_comment', 'kind', 'type_ignores'):
                continue
            pv, nv = getattr(pat, f, None), getattr(node, f, None)
            if isinstance(pv, list):
                if not isinstance(nv, list) or len(pv) != len(nv):
                    return False
                for x, y in zip(pv, nv):
                    if not unify(x, y, b):
                        return False
            elif isinstance(pv, ast.AST):
                if not isinstance(nv, ast.AST) or not unify(pv, nv, b):
                    return False
            else:
                if pv != nv:
                    return False
        return True
    return pat == node


def match_expr(pattern, node, b=None):
    b = {} if b is None else b
    p = parse_expr(pattern) if isinstance(pattern, str) else pattern
    b2 = dict(b)
    if unify(p, node, b2):
        return b2
    return None


def match_stmts(pattern, nodes, b=None):
    b = {} if b is None else b
    p = parse_stmts(pattern) if isinstance(pattern, str) else pattern
    if len(p) != len(nodes):
        return None
    b2 = dict(b)
    for x, y in zip(p, nodes):
        if not unify(x, y, b2):
            return None
    return b2


def strip_doc(body):
    if body and isinstance(body[0], ast.Expr) and isinstance(body[0].value, ast.Constant) and isinstance(body[0].value.value, str):
        return body[1:]
    return body
