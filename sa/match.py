"""Small unifier over `ast` used by the shape rules.

Pattern language: ordinary Python source in which
  * a Name starting with `E_` is an expression metavariable (binds any expression; a second
    occurrence must be structurally equal),
  * a Name starting with `V_` is a variable metavariable (binds a Name only, i.e. a consistent
    renaming of a local variable),
  * a Name starting with `K_` binds a Constant only,
  * `+` and `*` are tried commutatively.
Everything else must match structurally (context fields, positions and type comments ignored).
"""
import ast


def parse_expr(src):
    return ast.parse(src, mode='eval').body


def parse_stmts(src):
    return ast.parse(src).body


def _dump(n):
    s = ast.dump(n)
    return s.replace(', ctx=Load()', '').replace(', ctx=Store()', '').replace(', ctx=Del()', '')


def same(a, b):
    return _dump(a) == _dump(b)


def unify(pat, node, b):
    """Returns True and extends the dict b when node matches pat."""
    if isinstance(pat, ast.Name) and pat.id[:2] in ('E_', 'V_', 'K_'):
        kind = pat.id[:2]
        if kind == 'V_' and not isinstance(node, ast.Name):
            return False
        if kind == 'K_' and not isinstance(node, ast.Constant):
            return False
        if not isinstance(node, ast.AST):
            return False
        if pat.id in b:
            return same(b[pat.id], node)
        b[pat.id] = node
        return True
    if isinstance(pat, ast.arg) and pat.arg[:2] == 'V_':
        if not isinstance(node, ast.arg):
            return False
        nm = ast.Name(id=node.arg, ctx=ast.Load())
        if pat.arg in b:
            return isinstance(b[pat.arg], ast.Name) and b[pat.arg].id == node.arg
        b[pat.arg] = nm
        return True
    if type(pat) is not type(node):
        return False
    if isinstance(pat, ast.Name):
        return pat.id == node.id
    if isinstance(pat, ast.BinOp) and isinstance(pat.op, (ast.Add, ast.Mult)) and type(pat.op) is type(node.op):
        for l, r in ((node.left, node.right), (node.right, node.left)):
            b2 = dict(b)
            if unify(pat.left, l, b2) and unify(pat.right, r, b2):
                b.clear()
                b.update(b2)
                return True
        return False
    if isinstance(pat, ast.AST):
        for f in pat._fields:
            if f in ('ctx', 'type_comment', 'kind', 'type_ignores'):
                continue
            pv, nv = getattr(pat, f, None), getattr(node, f, None)
            if isinstance(pv, list):
                if not isinstance(nv, list) or len(pv) != len(nv):
                    return False
                for x, y in zip(pv, nv):
                    if not unify(x, y, b):
                        return False
            elif isinstance(pv, ast.AST):
                if not isinstance(nv, ast.AST) or not unify(pv, nv, b):
                    return False
            else:
                if pv != nv:
                    return False
        return True
    return pat == node


def match_expr(pattern, node, b=None):
    b = {} if b is None else b
    p = parse_expr(pattern) if isinstance(pattern, str) else pattern
    b2 = dict(b)
    if unify(p, node, b2):
        return b2
    return None


def match_stmts(pattern, nodes, b=None):
    b = {} if b is None else b
    p = parse_stmts(pattern) if isinstance(pattern, str) else pattern
    if len(p) != len(nodes):
        return None
    b2 = dict(b)
    for x, y in zip(p, nodes):
        if not unify(x, y, b2):
            return None
    return b2


def strip_doc(body):
    if body and isinstance(body[0], ast.Expr) and isinstance(body[0].value, ast.Constant) and isinstance(body[0].value.value, str):
        return body[1:]
    return body


# ---------------------------------------------------------------------------------- normalisation before matching
CONSUMERS = {'sum', 'tuple', 'list', 'any', 'all', 'min', 'max', 'sorted', 'set', 'frozenset', 'dict'}


class _Canon(ast.NodeTransformer):
    """Rewrites that never change what an expression computes, so that one pattern covers the spellings:
    list comprehension consumed by sum()/tuple()/''.join()/... -> generator expression; `X = [ ... for ...]` and
    `X = list(<gen>)` -> `X = tuple(<gen>)` (only indexed / iterated afterwards by the callers of this pass);
    `e[::-1]` -> reversed(e); `not bool(e)` -> `not e`; `x != y and x != z` is left alone (handled by the matchers)."""

    def visit_Call(self, node):
        self.generic_visit(node)
        f = node.func
        consumer = (isinstance(f, ast.Name) and f.id in CONSUMERS) or (isinstance(f, ast.Attribute) and f.attr == 'join')
        if consumer and len(node.args) == 1 and not node.keywords:
            a = node.args[0]
            if isinstance(a, ast.ListComp):
                node.args[0] = ast.copy_location(ast.GeneratorExp(elt=a.elt, generators=a.generators), a)
            elif isinstance(a, ast.Call) and isinstance(a.func, ast.Name) and a.func.id in ('tuple', 'list') and len(a.args) == 1 \
                    and isinstance(a.args[0], ast.GeneratorExp) and not (isinstance(f, ast.Name) and f.id in ('tuple', 'list')):
                node.args[0] = a.args[0]
        if isinstance(f, ast.Name) and f.id == 'list' and len(node.args) == 1 and isinstance(node.args[0], ast.GeneratorExp) and not node.keywords:
            node.func = ast.copy_location(ast.Name(id='tuple', ctx=ast.Load()), f)
        return node

    def visit_ListComp(self, node):
        self.generic_visit(node)
        g = ast.copy_location(ast.GeneratorExp(elt=node.elt, generators=node.generators), node)
        return ast.copy_location(ast.Call(func=ast.Name(id='tuple', ctx=ast.Load()), args=[g], keywords=[]), node)

    def visit_Subscript(self, node):
        self.generic_visit(node)
        s = node.slice
        if isinstance(s, ast.Slice) and s.lower is None and s.upper is None and isinstance(s.step, ast.UnaryOp) and isinstance(s.step.op, ast.USub) \
                and isinstance(s.step.operand, ast.Constant) and s.step.operand.value == 1 and isinstance(node.ctx, ast.Load):
            return ast.copy_location(ast.Call(func=ast.Name(id='reversed', ctx=ast.Load()), args=[node.value], keywords=[]), node)
        return node

    def visit_UnaryOp(self, node):
        self.generic_visit(node)
        if isinstance(node.op, ast.Not) and isinstance(node.operand, ast.Call) and isinstance(node.operand.func, ast.Name) \
                and node.operand.func.id == 'bool' and len(node.operand.args) == 1 and not node.operand.keywords:
            node.operand = node.operand.args[0]
        return node


def canonical(tree):
    """A normalised deep copy of the tree (see _Canon)."""
    import copy
    t = _Canon().visit(copy.deepcopy(tree))
    # a ListComp consumed directly was turned into tuple(<gen>) by visit_ListComp before visit_Call saw it: unwrap once more
    t = _Canon().visit(t)
    ast.fix_missing_locations(t)
    return t


class _Subst(ast.NodeTransformer):
    def __init__(self, env):
        self.env = env

    def visit_Name(self, node):
        if isinstance(node.ctx, ast.Load) and node.id in self.env:
            import copy
            return copy.deepcopy(self.env[node.id])
        return node


def inline_temps(body, keep=()):
    """Statement list with local temporaries substituted into their uses: `t = e1; c = f(t)` -> `c = f(e1)`.
    Only for a run of plain `Name = expr` statements in which t is assigned once, is not in `keep`, and is not used after the
    run; expressions here are pure (table lookups, arithmetic, int(), .index()), so evaluating them at the use is the same."""
    import copy
    out = []
    i = 0
    body = list(body)
    while i < len(body):
        st = body[i]
        if isinstance(st, ast.Assign) and len(st.targets) == 1 and isinstance(st.targets[0], ast.Name) and st.targets[0].id not in keep:
            t = st.targets[0].id
            rest = body[i + 1:]
            stores = [n for s_ in body for n in ast.walk(s_) if isinstance(n, ast.Name) and n.id == t and isinstance(n.ctx, ast.Store)]
            uses_in_value = any(isinstance(n, ast.Name) and n.id == t for n in ast.walk(st.value))
            later_simple = rest and all(isinstance(s_, ast.Assign) and len(s_.targets) == 1 and isinstance(s_.targets[0], ast.Name) for s_ in rest)
            used_later = any(isinstance(n, ast.Name) and n.id == t for s_ in rest for n in ast.walk(s_))
            if len(stores) == 1 and not uses_in_value and later_simple and used_later:
                sub = _Subst({t: st.value})
                body = body[:i] + [ast.fix_missing_locations(sub.visit(copy.deepcopy(s_))) for s_ in rest]
                continue
        out.append(st)
        i += 1
    return body


def resolve_locals(fn, node, depth=4):
    """`node` (an expression inside fn) with every local that is assigned exactly once by a plain `name = expr` replaced by
    that expression, when the names the expression reads are not assigned again afterwards; the first parameter of fn is
    renamed to `number`.  Lets rules compare what is computed instead of how the intermediate results are named."""
    import copy
    stores = {}
    # targets of comprehensions live in their own scope: they are not assignments to the function's locals
    comp_targets = set()
    for n in ast.walk(fn):
        if isinstance(n, ast.comprehension):
            comp_targets |= {id(x) for x in ast.walk(n.target)}
    shadowed = {x.id for n in ast.walk(fn) if isinstance(n, ast.comprehension) for x in ast.walk(n.target) if isinstance(x, ast.Name)}
    for n in ast.walk(fn):
        if isinstance(n, ast.Name) and isinstance(n.ctx, ast.Store) and id(n) not in comp_targets:
            stores.setdefault(n.id, []).append(n)
    params = [a.arg for a in fn.args.args]
    single = {}
    pairs = []
    for st in ast.walk(fn):
        if isinstance(st, ast.Assign) and len(st.targets) == 1 and isinstance(st.targets[0], ast.Name):
            pairs.append((st, st.targets[0].id, st.value))
        elif isinstance(st, ast.Assign) and len(st.targets) == 1 and isinstance(st.targets[0], ast.Tuple) and isinstance(st.value, ast.Tuple) \
                and len(st.targets[0].elts) == len(st.value.elts) and all(isinstance(e, ast.Name) for e in st.targets[0].elts):
            # a, b = x, y (the right-hand sides must not read the names bound by the same statement)
            bound = {e.id for e in st.targets[0].elts}
            if not any(isinstance(x, ast.Name) and x.id in bound for v_ in st.value.elts for x in ast.walk(v_)):
                pairs.extend((st, e.id, v_) for e, v_ in zip(st.targets[0].elts, st.value.elts))
    for st, t, value in pairs:
        if len(stores.get(t, [])) == 1 and t not in params:
            reads = {x.id for x in ast.walk(value) if isinstance(x, ast.Name)}
            # the names read must not be assigned later than this statement
            if all(all(s_.lineno <= st.lineno for s_ in stores.get(r, [])) for r in reads) and t not in reads:
                single[t] = value
    inner = {x.id for n in ast.walk(node) if isinstance(n, ast.comprehension) for x in ast.walk(n.target) if isinstance(x, ast.Name)}
    single = {k: v for k, v in single.items() if k not in inner}
    out = copy.deepcopy(node)
    for _ in range(depth):
        names = {x.id for x in ast.walk(out) if isinstance(x, ast.Name) and isinstance(x.ctx, ast.Load)}
        if not names & set(single):
            break
        out = _Subst({k: v for k, v in single.items()}).visit(out)
    if params and params[0] != 'number':
        for x in ast.walk(out):
            if isinstance(x, ast.Name) and x.id == params[0]:
                x.id = 'number'
    return ast.fix_missing_locations(out)


def reach_private(tree, fn, depth=3):
    """fn and the private module-level functions (names starting with `_`) it calls, transitively: code that a refactoring moved
    into a helper is still "in" the function for rules that ask what a function does."""
    mods = {n.name: n for n in tree.body if isinstance(n, ast.FunctionDef)}
    out = [fn]
    seen = {fn.name}
    frontier = [fn]
    for _ in range(depth):
        nxt = []
        for f in frontier:
            for c in ast.walk(f):
                if isinstance(c, ast.Call) and isinstance(c.func, ast.Name) and c.func.id.startswith('_') and c.func.id in mods and c.func.id not in seen:
                    seen.add(c.func.id)
                    out.append(mods[c.func.id])
                    nxt.append(mods[c.func.id])
        frontier = nxt
    return out


def inline_statement_helpers(tree, fn, exclude=()):
    """A copy of fn's body in which `x = helper(a, ...)` / `return helper(a, ...)` with a private module-level helper whose body
    is `return <expr>` or `try: return <expr> except ...: raise ...` is replaced by the helper's statement(s) with the
    parameters substituted, `try/except-that-raises/else` is flattened to the try followed by the else body, and a temporary
    assigned from a call and used once in the following statement is substituted.  For rules that read a pipeline statement by
    statement."""
    import copy
    mods = {n.name: n for n in tree.body if isinstance(n, ast.FunctionDef)}

    def expand(st):
        tgt = None
        call = None
        if isinstance(st, ast.Assign) and len(st.targets) == 1 and isinstance(st.value, ast.Call):
            tgt, call = st.targets[0], st.value
        elif isinstance(st, ast.Return) and isinstance(st.value, ast.Call):
            call = st.value
        if call is None or not isinstance(call.func, ast.Name) or not call.func.id.startswith('_') or call.func.id not in mods or call.keywords \
                or call.func.id in exclude:
            return [st]
        h = mods[call.func.id]
        hb = strip_doc(h.body)
        params = [a.arg for a in h.args.args]
        if len(params) != len(call.args) or h.args.defaults or h.args.vararg or h.args.kwarg:
            return [st]
        sub = _Subst(dict(zip(params, call.args)))

        def finish(expr):
            e = sub.visit(copy.deepcopy(expr))
            new = ast.Assign(targets=[copy.deepcopy(tgt)], value=e) if tgt is not None else ast.Return(value=e)
            return ast.fix_missing_locations(ast.copy_location(new, st))
        if len(hb) == 1 and isinstance(hb[0], ast.Return) and hb[0].value is not None:
            # only when no parameter is used twice with a non-trivial argument (evaluation count) - arguments here are names
            if all(isinstance(a, (ast.Name, ast.Constant)) for a in call.args):
                return [finish(hb[0].value)]
            return [st]
        if len(hb) == 1 and isinstance(hb[0], ast.Try) and len(hb[0].body) == 1 and isinstance(hb[0].body[0], ast.Return) \
                and not hb[0].orelse and not hb[0].finalbody and all(isinstance(a, (ast.Name, ast.Constant)) for a in call.args):
            t = copy.deepcopy(hb[0])
            t.body = [finish(hb[0].body[0].value)]
            t.handlers = [sub.visit(x) for x in t.handlers]
            return [ast.fix_missing_locations(ast.copy_location(t, st))]
        return [st]
    body = []
    for st in strip_doc(fn.body):
        # try / except (raises) / else  ->  try ; else-body
        if isinstance(st, ast.Try) and st.orelse and not st.finalbody and all(h.body and isinstance(h.body[-1], ast.Raise) for h in st.handlers):
            t = copy.deepcopy(st)
            rest = t.orelse
            t.orelse = []
            body.append(t)
            body.extend(rest)
        else:
            body.append(st)
    # x = f(g(x)) with x a plain name: the two steps one after the other
    flat = []
    for st in body:
        if isinstance(st, ast.Assign) and len(st.targets) == 1 and isinstance(st.targets[0], ast.Name) and isinstance(st.value, ast.Call) \
                and len(st.value.args) == 1 and not st.value.keywords and isinstance(st.value.args[0], ast.Call) and len(st.value.args[0].args) == 1 \
                and isinstance(st.value.args[0].args[0], ast.Name) and st.value.args[0].args[0].id == st.targets[0].id and not st.value.args[0].keywords:
            t = st.targets[0].id
            first = ast.copy_location(ast.Assign(targets=[ast.Name(id=t, ctx=ast.Store())], value=copy.deepcopy(st.value.args[0])), st)
            second = copy.deepcopy(st)
            second.value.args[0] = ast.Name(id=t, ctx=ast.Load())
            flat.extend([ast.fix_missing_locations(first), ast.fix_missing_locations(second)])
        else:
            flat.append(st)
    out = []
    for st in flat:
        out.extend(expand(st))
    return out


def inline_expr_helpers(tree, fn, depth=3):
    """A copy of fn in which calls of private module-level helpers of one expression (`def _h(a, b): return <expr>`, positional
    arguments only, every parameter used at most through plain names) are replaced by that expression with the arguments
    substituted.  Rules that follow a value through one function then see what the helper computes."""
    import copy
    helpers = {}
    for n in tree.body:
        if isinstance(n, ast.FunctionDef) and n.name.startswith('_') and n is not fn:
            body = strip_doc(n.body)
            a = n.args
            if len(body) == 1 and isinstance(body[0], ast.Return) and body[0].value is not None and not (a.vararg or a.kwarg or a.kwonlyargs or a.defaults) \
                    and not any(isinstance(x, (ast.Lambda, ast.GeneratorExp, ast.ListComp, ast.SetComp, ast.DictComp)) and
                                any(isinstance(y, ast.Name) and y.id in {p.arg for p in a.args} and isinstance(y.ctx, ast.Store) for y in ast.walk(x))
                                for x in ast.walk(body[0].value)):
                helpers[n.name] = ([p.arg for p in a.args], body[0].value)

    class T(ast.NodeTransformer):
        def visit_Call(self, node):
            self.generic_visit(node)
            if isinstance(node.func, ast.Name) and node.func.id in helpers and not node.keywords and len(node.args) == len(helpers[node.func.id][0]) \
                    and not any(isinstance(x, ast.Starred) for x in node.args):
                params, expr = helpers[node.func.id]
                return ast.copy_location(_Subst(dict(zip(params, node.args))).visit(copy.deepcopy(expr)), node)
            return node
    out = copy.deepcopy(fn)
    for _ in range(depth):
        before = ast.dump(out)
        out = T().visit(out)
        if ast.dump(out) == before:
            break
    return ast.fix_missing_locations(out)
