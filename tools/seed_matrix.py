#!/venv/bin/python
"""Run every check against every seeded change and record which checks report it.

  tools/seed_matrix.py [seed dir ...]        (default: /verif/seeded/*; SM_MERGE=1 merges the named rows into MATRIX.json)

Each seeded change is applied to its own scratch worktree of /repo under /tmp/sm (removed afterwards);
the checks read that tree through SA_REPO and write under SA_OUT, so /repo and /verif/evidence are
not touched.  The result is written to /verif/seeded/MATRIX.json and printed as a table."""
import concurrent.futures
import glob
import json
import os
import re
import shutil
import subprocess
import sys

VERIF = os.path.dirname(os.path.dirname(os.path.abspath(__file__)))
SCRATCH = os.environ.get('SM_SCRATCH', '/tmp/sm')
PROPS = os.environ.get('SM_PROPS', '').split() or ['C%02d' % i for i in range(1, 19)]  # SM_PROPS='C05 C06' runs only those checks (do not merge such rows)


def sh(cmd, **kw):
    return subprocess.run(cmd, shell=True, capture_output=True, text=True, **kw)


def run_seed(sdir):
    parts = sdir.rstrip('/').split('/')
    name = parts[-1] if not parts[-1].isdigit() else '%s-r%s' % (parts[-2], parts[-1])
    wt = os.path.join(SCRATCH, 'wt-' + name)
    out = os.path.join(SCRATCH, 'out-' + name)
    sh('git -C /repo worktree remove --force %s' % wt)
    r = sh('git -C /repo worktree add --detach %s HEAD' % wt)
    res = {'seed': name, 'applies': False, 'checks': {}}
    try:
        r = sh('git -C %s apply %s' % (wt, os.path.join(sdir, 'patch.diff')))
        if r.returncode != 0:
            res['error'] = 'patch does not apply to HEAD: ' + r.stderr.strip()[:200]
            return res
        res['applies'] = True
        env = dict(os.environ, SA_REPO=wt, SA_OUT=out, SA_CACHE=os.path.join(out, 'cache'), PYTHONPATH=VERIF)
        for pid in PROPS:
            r = subprocess.run(['/venv/bin/python', '-m', 'sa', pid, '--tier', 'quick'], cwd=VERIF, env=env, capture_output=True, text=True)
            rules = sorted(set(re.findall(r'\[(C\d\d\.[^\]]+)\]', '\n'.join(l for l in r.stdout.splitlines() if not l.startswith('KNOWN-FINDING')))))
            viol = [l for l in r.stdout.splitlines() if l.startswith('VIOLATION')]
            if r.returncode == 1 and viol:
                # rules named in the lines that follow VIOLATION lines
                named = []
                lines = r.stdout.splitlines()
                for i, l in enumerate(lines):
                    if l.startswith('VIOLATION') and i + 1 < len(lines):
                        named += re.findall(r'\[([A-Za-z0-9]+\.[^\]]+)\]', lines[i + 1])
                res['checks'][pid] = {'exit': 1, 'violations': len(viol), 'rules': sorted(set(named))}
            elif r.returncode != 0:
                res['checks'][pid] = {'exit': r.returncode, 'note': (r.stdout + r.stderr).strip().splitlines()[-1][:200] if (r.stdout + r.stderr).strip() else ''}
    finally:
        sh('git -C /repo worktree remove --force %s' % wt)
        shutil.rmtree(out, ignore_errors=True)
    return res


def main(argv):
    seeds = argv or sorted(glob.glob(os.path.join(VERIF, 'seeded', 'C*')))
    seeds = [s for s in seeds if os.path.exists(os.path.join(s, 'patch.diff'))]
    os.makedirs(SCRATCH, exist_ok=True)
    results = []
    with concurrent.futures.ThreadPoolExecutor(max_workers=int(os.environ.get('SM_WORKERS', '6'))) as ex:
        for res in ex.map(run_seed, seeds):
            results.append(res)
            own = res['seed'][:3]
            hit = sorted(p for p, c in res['checks'].items() if c.get('exit') == 1)
            err = sorted(p for p, c in res['checks'].items() if c.get('exit') not in (1, None))
            print('%-8s %s caught by: %s%s%s' % (res['seed'], 'OK  ' if own in hit else ('any ' if hit else 'MISS'), ', '.join(
                '%s(%s)' % (p, ' '.join(res['checks'][p]['rules'])) for p in hit) or '-', ('  analysis-error: ' + ', '.join(err)) if err else '',
                ('  ' + res.get('error', '')) if res.get('error') else ''), flush=True)
    sh('git -C /repo worktree prune')
    shutil.rmtree(SCRATCH, ignore_errors=True)
    mpath = os.path.join(VERIF, 'seeded', 'MATRIX.json')
    if argv and os.environ.get('SM_MERGE'):
        # results for the named changes replace their rows in the existing table
        with open(mpath) as fh:
            old = json.load(fh)
        names = {r['seed'] for r in results}
        results = [r for r in old['results'] if r['seed'] not in names] + results
    if not argv or os.environ.get('SM_MERGE'):
        with open(mpath, 'w') as fh:
            json.dump({'head': sh('git -C /repo rev-parse --short HEAD').stdout.strip(), 'results': results}, fh, indent=1, sort_keys=True)
    return 0


if __name__ == '__main__':
    sys.exit(main(sys.argv[1:]))
