#!/bin/bash
# Usage: tools/twin.sh <seed dir> <check id>...   - run checks against a scratch copy of /repo with the seed's patch applied
d=$(realpath "$1"); shift
t=/tmp/twin-$(basename "$d")
rm -rf "$t"; mkdir -p "$t"; cp -r /repo/stdnum /repo/online_check "$t"/
( cd "$t" && patch -p1 -s < "$d/patch.diff" ) || { echo "patch failed"; exit 2; }
cd /verif
for p in "$@"; do
  SA_REPO="$t" SA_OUT="$t/out" SA_CACHE="$t/cache" /venv/bin/python -m sa "$p" --tier quick 2>&1 | grep -v "^KNOWN-FINDING\|^    construct" | cut -c1-"${COLS:-260}" | tail -"${TAIL:-6}"
done
rm -rf "$t"
