#!/bin/bash
# Usage: tools/rule_probe.sh '<python expr over rep, prog>' <seed dir>...   e.g. tools/rule_probe.sh 'c12.thresholds(rep, prog)' seeded/benign/C*
# Runs one AST-level rule function (not a whole check) against scratch copies of /repo with each seeded change applied and prints the
# findings per change; used to test a single new rule against all behaviour-preserving changes in a minute instead of a full matrix run.
expr="$1"; shift
for d in "$@"; do
  d=$(realpath "$d"); t=/tmp/probe-$(basename "$d")-$$
  rm -rf "$t"; mkdir -p "$t"; cp -r /repo/stdnum /repo/online_check "$t"/
  ( cd "$t" && patch -p1 -s < "$d/patch.diff" >/dev/null 2>&1 ) || { echo "$(basename $d) PATCH-FAILED"; rm -rf "$t"; continue; }
  ( cd /verif && SA_REPO="$t" SA_OUT="$t/out" /venv/bin/python - "$expr" "$(basename $d)" <<'PY'
import sys
from sa.common import Report
from sa.strabs.model import Program
from sa.props import c01, c05, c09, c11, c12, c13, c17, c18
import ast, os
from sa import common
def wsgi_gc():
    t = ast.parse(open(os.path.join(common.REPO, "online_check", "stdnum.wsgi"), encoding="utf-8").read())
    return [n for n in ast.walk(t) if isinstance(n, ast.FunctionDef) and n.name == "get_conversions"][0]
ALGS = ("stdnum.luhn", "stdnum.verhoeff", "stdnum.damm", "stdnum.iso7064.mod_11_10", "stdnum.iso7064.mod_11_2", "stdnum.iso7064.mod_37_2",
        "stdnum.iso7064.mod_37_36", "stdnum.iso7064.mod_97_10")
rep = Report('probe', 'quick'); prog = Program()
try:
    eval(sys.argv[1])
    print(sys.argv[2], 'findings=%d' % len(rep.findings), ' | '.join('%s %s:%s' % (f.rule, f.file, f.func) for f in rep.findings)[:300])
except Exception as e:
    print(sys.argv[2], 'ERROR', type(e).__name__, str(e)[:200])
PY
  )
  rm -rf "$t"
done
