#!/venv/bin/python
"""Regenerates /verif/MANIFEST.json from the table below (kept in one place so that the
manifest always validates).  Run: /venv/bin/python tools/mkmanifest.py"""
import json
import os

HERE = os.path.dirname(os.path.dirname(os.path.abspath(__file__)))

CLAIMED = {
    # id: (level category, level text, level note, technique, design ref)
    'C14': ('proof',
            'Every entry of the look-alike table literal is checked against the Unicode database and the derived transformer '
            'x -> table.get(x, x) is tabulated over all 1,114,112 code points; clean() is read as the '
            'conversion / 1:1 map / delete-last pipeline. Finite obligations, all discharged on every run, hence proof level '
            'for the clause "clean-up never changes the value"; that every module calls clean() first is C03.',
            'Trusted: CPython ast, unicodedata of /venv (the interpreter the repository runs on), semantics of dict(generator) '
            'and str.join; assumed: no run-time patching of stdnum.util.',
            'AST extraction of the table literal + Unicode database lookup per entry + interpretation of clean() over a stream-of-characters domain',
            'DESIGN.md section C14'),
}

CLAIMED['C06'] = ('proof',
    'The fold (initial state, step, accepted residue) and the generator of each of the 8 generic modules are extracted from the '
    'syntax tree and the step is tabulated over its finite state x alphabet x position-class domain; single-substitution, '
    'propagation, generator-uniqueness and adjacent-transposition facts are checked on every cell of the resulting machine '
    '(Luhn: the undetected swaps must be exactly {0, n-1}). Lemmas 1-6 of sa/alg/LEMMAS.md lift the tabulated facts to strings '
    'of every length by induction, which is the unbounded quantifier the tests cannot reach.',
    'Trusted: CPython ast; sa/minieval.py (whitelisted expression evaluator used only to tabulate extracted expressions on finite '
    'domains); the six lemmas. Alphabets covered: those used or documented in the repository; Luhn N in {2,10,16,36,40} quick, '
    'all even N in 2..40 thorough.',
    'algebraic model extraction from the AST + exhaustive tabulation of the extracted finite state machine',
    'DESIGN.md section C06')

CLAIMED['C10'] = ('proof',
    'NumDB._find touches its data only through comparisons, so one loop iteration is a finite decision table: the loop body is '
    'abstractly executed in each of the 27 order types and the action sequence compared with the prefix rules; base case, '
    'initialisation, result expression, fresh-container (no-alias) rule and the entry layout shared by _parse/read/_find are '
    'dataflow facts. sa/dt/LEMMA.md lifts this by induction to every registry and every query string, which no finite set of '
    'sample queries can do.',
    'Trusted: CPython ast; the induction in sa/dt/LEMMA.md; total order on str. Assumed: entries have equal-length endpoints '
    '(C11 checks the shipped files), registries are built only by read() (C13).',
    'decision-table extraction by abstract execution of the loop body over all order types + dataflow rules',
    'DESIGN.md section C10')

CLAIMED['C11'] = ('other',
    'Exhaustive over the finite registry contents: every non-comment line of the 17 registry files is re-read with the grammar '
    'extracted from numdb.py (complete consumption of the properties text, equal-length ordered ranges, nesting, duplicates, '
    'reader returns every written property), every entry must be reachable by a lookup, and every entry must satisfy the contract '
    'of its consumer (required keys under numdb\'s merge semantics, IBAN structure grammar and length gates, ISBN levels, GS1 format '
    'grammar, CFI levels). Contracts are anchored in the consumer ASTs so that a changed consumer is noticed. This is a static '
    'reader/writer agreement check, not a proof about the external sources.',
    'Trusted: CPython ast/re; the reader model sa/reg.py (its agreement with numdb.read/_find is what C10 checks). Known findings: '
    'imsi.dat quoting and shadowed MNC entries, five GS1 formats that gs1_128 does not understand.',
    'strict registry parser driven by the grammar extracted from numdb.py + consumer contracts extracted/anchored in the ASTs',
    'DESIGN.md section C11')

CLAIMED['C03'] = ('other',
    'Dependency (information-flow) rule over all 219 modules exposing compact(): while validate()\'s parameter holds the caller\'s '
    'value, every read of it must be - transitively through resolved callees, delegates and dispatch tuples - the argument of a '
    'compact() whose normal form (delete set, strip/case operations, ordered operations, prefix rules, constant-prefix wrapper) equals '
    'that of the module\'s own compact(). When the rule holds validate(x) is a function of compact(x) by construction, for all pairs '
    'of inputs at once; a read that bypasses compact() is reported at the expression that performs it.',
    'Trusted: CPython ast; callee resolution of sa/strabs/model.py; the compact normal form treats strip() and upper() as commuting. '
    'Not decided (listed in evidence): vatin and de.handelsregisternummer (sibling structure), formats excluded by the property.',
    'information-flow (taint) rule on the raw parameter + normal-form comparison of compact() functions',
    'DESIGN.md section C03')

CLAIMED['C13'] = ('other',
    'Effect and ownership analysis of every function in stdnum/ and the WSGI script: each write to module-level state must be a '
    'transparent single-store memo (guarded by `K not in C`, read back only as C[K] after the guard, value depending on the key '
    'variables alone, stored object complete before it is published and untouched afterwards, one owner function per container); '
    'no function hands out a module-level or registry-owned container; no mutable defaults, instance state outside __init__, '
    'container-returning function caches or environment reads. Histories and interleavings are not enumerated: the discipline makes '
    'every call a function of its arguments and the date, which is the statement for all sequences and schedules at once.',
    'Trusted: CPython ast; atomic dict get/set under the GIL; importing a module twice yields the same object. Not covered: '
    'interpreter-level faults. The registry no-alias clause is the decision table of numdb._find (shared with C10).',
    'effect / ownership / escape analysis over the ASTs with a memo-protocol typestate per module-level container',
    'DESIGN.md section C13')

CLAIMED['C01'] = ('other',
    'Abstract interpretation (STRABS: strings as cells of character classes over a partition of all 1,114,112 code points, length '
    'intervals, path-sensitive refinement by the gates the code applies) of all 234 validate() functions from number = any object and '
    'every option value: each partial operation reached (int(), .index(), subscripts, unpacking, division, date construction, '
    'attribute access on None, foreign raise) is proven safe under the dominating facts or absorbed by a handler; every return path '
    'yields a non-empty str; registry keys demanded are decided on the registry data; the summary of util.clean() is re-derived on '
    'every run; is_valid() must have the forwarding try/except shape. This covers every input at once, including exotic Unicode, '
    'very long strings and non-strings, which the doctests never try.',
    'Trusted: the hand-written models of ~25 builtins/str methods in sa/strabs; CPython ast, re._parser, unicodedata; the 4300-digit int '
    'conversion limit. Constructs the interpreter cannot follow are listed as undecided in sa/scope.py (24 today) and in the evidence; '
    'known findings: generic checksum modules return non-strings unchanged, gs1_128.validate(\'\') returns \'\'.',
    'abstract interpretation of the string dialect (dataflow of character classes and lengths) + shape rule for is_valid()',
    'DESIGN.md sections 2.2 and C01')

CLAIMED['C15'] = ('other',
    'Same abstract interpretation as C01: on every return path of every identifier module\'s validate() each character class of the '
    'returned string must be a subset of ASCII (plus the national letters the property names). Classes are exact sets of blocks of a '
    'partition of all code points that separates ASCII, Nd, isdigit/isalpha/isalnum, \\w, whitespace and case-mapping behaviour, so '
    '"\\d matched" or "int() succeeded" does not count as an ASCII gate. 19 modules fail today and are listed, each with a concrete '
    'accepted non-ASCII input, in known_findings.json; any other module that loses its ASCII gate is reported.',
    'Trusted: as C01. Undecided (sa/scope.py): the US TIN family, eu.vat, eu.nace, de.handelsregisternummer, gs1_128.',
    'abstract interpretation: character-class dataflow to every return of validate()',
    'DESIGN.md section C15')

CLAIMED['C02'] = ('other',
    'Abstract interpretation in two passes: validate() is applied to each of its own abstract results (per assignment of the boolean '
    'options, restricted to ASCII spellings): compact() must be the identity on them and every return path of the second application '
    'must hand back the identical string (identity of cells, not equality of shapes), with at least one returning path; the first and '
    'last character class of every result exclude whitespace. Because validate is deterministic this is validate(validate(x)) == '
    'validate(x) for every accepted x, including presentations no test lists. 4 modules fail today (ch.ssn, fr.tva, no.kontonr, '
    'no.mva) and are listed with their inputs. Two structural clauses for modules the identity analysis cannot follow: where validate() '
    'replaces a part by a table lookup through a key function every table value is a fixed point of that lookup '
    '(de.handelsregisternummer), and beside a module\'s own calc_check_digit(s)() no other function attaches a check character computed '
    'by a generic algorithm in another way (sibling rule with an inline positive example).',
    'Trusted: as C01; determinism from C13. Undecided (sa/scope.py): modules whose compact() rebuilds the string (cr.cpf, tn.mf, mac, '
    'isan, meid, gs1_128, de.handelsregisternummer, cz.bankaccount, nz.bankaccount, ro.onrc, nl.postcode) and the dispatching aggregates (eu.vat, vatin, us.tin). Non-ASCII '
    'results are left to C15.',
    'abstract interpretation with string-identity tracking (validate re-applied to its abstract results)',
    'DESIGN.md section C02')

CLAIMED['C18'] = ('other',
    'Rules over the syntax tree of online_check/stdnum.wsgi and the text of template.html: a taint rule (everything that reaches the '
    'page is safe markup: constants, direct html.escape() results with quote escaping in the attribute context, constant-pattern '
    'replace/re.sub, concatenation, %-formatting of constant templates, joins over local functions that only return safe markup); '
    'html.escape() arguments are strings; both start_response() calls carry the literal 200 OK with the content type of their mode and '
    'no raise lies on the request path; the query is read with defaults, parse_qs() without limits that raise, the first value only '
    'under its membership guard; the result list is exactly get_number_modules() filtered by is_valid(); conversions run inside '
    '`except Exception`; the template uses exactly the keys passed; since is_valid() of every module is called without a handler, '
    'the C01 obligations (no foreign exception escapes validate()/is_valid()) are re-decided on the library source and any failure that '
    'is not a known finding of C01 is reported as a server error of the page. These hold for every query string, mode and request '
    'sequence (state: C13 covers the script as well).',
    'Trusted: html.escape and parse_qs semantics; template.html as markup. Availability of format/compact on accepted numbers is '
    'C04. A genuine defect found by this rule (html.escape() of non-string conversions) was repaired in /repo (44a32d5).',
    'taint / typestate rules over the WSGI script AST',
    'DESIGN.md section C18')

CLAIMED['C04'] = ('other',
    'Two clauses. (1) Information flow: format()\'s raw parameter is read only through the module\'s compact() (or one with the same '
    'normal form), so the formatted text is a function of the compact form. (2) Abstract interpretation: for every accepted shape v of '
    'validate() (every return path; bounded variable lengths specialised per length) compact(format(v)) is computed abstractly and '
    'must consist of the cells of v, position by position (constants by value) - separators inserted by format() are exactly what '
    'compact() deletes and no digit is lost, duplicated or reordered; no partial operation of format() may fail on an accepted number. '
    'With C03 this yields validate(format(x)) == validate(x) for all valid x in all presentations. 103 of 119 format functions are '
    'decided today; the others (documented normalisations ISMN/ISAN/ISIL/MEID, registry-driven hyphenation, rebuilt strings, the US TIN '
    'family) are listed as undecided.',
    'Trusted: as C01, plus C03. Options of format() take their defaults. Known finding: pt.cc.format(\'000\') IndexError.',
    'information-flow rule + abstract interpretation with positional provenance (cells) through format and compact',
    'DESIGN.md section C04')
CLAIMED['C12'] = ('other',
    'Abstract interpretation of every public get_*/info/split function with one required parameter, started from each return path of '
    'the module\'s validate() (the accepted language): only ValidationError may escape (partial operations proven safe, absorbed, or '
    'decided on the registry data), get_birth_date returns a date (or None), get_gender only the constants M/F (or None), birth '
    'year/month an int (or None), and the parts of split() are the positions of the canonical number in order. Relational facts '
    '(day <= monthrange(year, month)) are tracked so that unguarded date() constructions are proven or reported.',
    'Trusted: as C01. Not decided: that the returned date is the one the digits encode; getters of de.stnr, gs1_128 and four named sinks. '
    'Known finding: imsi.info() on numbers with an unregistered MNC.',
    'abstract interpretation under validate()\'s post-condition',
    'DESIGN.md section C12')

CLAIMED['C16'] = ('other',
    'Decided part of the property: sibling agreement of the GS1-128 encoder, decoder, length and padding rules over every distinct '
    '(format, type) pair of gs1_ai.dat (type branches in both codecs, date formats named by the encoder, pair formats decoded as '
    'pairs, decimal format shape, _max_length() defined - its extracted expression is evaluated per pair -, zero padding only where '
    'the decoder ignores leading zeros and blank padding only where it strips), the framing rule of encode() (every non-last '
    'variable-length value unconditionally followed by the separator or padded to maximum length, fixed values first, same fnc1 test '
    'as info()), the value handed to the decoder is a slice of the element string, validate() is encode(info(x, sep), sep) in the '
    'catch-all. These are necessary conditions of the round trip; equality of the decoded mapping itself is not decided.',
    'Trusted: CPython ast, sa/minieval.py. Known findings: formats N6+[-] (AIs 4330-4333) and Z..90 (8030) are not understood by '
    '_max_length().',
    'sibling cross-check of codec functions over the registry\'s (format, type) pairs + dataflow/shape rules',
    'DESIGN.md section C16')

CLAIMED['C09'] = ('other',
    'Decided part: (1) the three dispatch functions are evaluated by constant propagation in the abstract interpreter for every '
    'country code of an independent list (27 member states, EL/XI aliases, EU/IM, non-members, every country of iban.dat, with cache '
    'membership treated as unknown) and compared with the expected module; vatin must agree with eu.vat on every EU code; (2) all 84 '
    'package aliases resolve to modules with validate(); (3) for every (wrapper, constituent) relation the wrapper\'s validate() is '
    'run abstractly on every accepted shape of the constituent (first-letter classes split per letter, country prefix attached) and '
    'must have a returning path, eu.vat results carrying the prefix; (4) shape rules: wrappers return only what a constituent returned, '
    'sub-type tables equal the ones the property names, guess_* filter the same table with is_valid(argument), national IBAN '
    'validators start with the generic rules, iban.validate dispatches under check_country. The full equivalence for every string is '
    'not decided.',
    'Trusted: specs/aggregates.json (written from the EU member list and the property statement); sa/strabs models. Known finding: '
    'vatin rejects IM-prefixed One Stop Shop numbers that eu.vat accepts.',
    'constant propagation through dispatch functions + abstract interpretation of wrappers on constituent languages + shape rules',
    'DESIGN.md section C09')

CLAIMED['C05'] = ('other',
    'Decided part, for the 90 modules with a public generator and the 8 generic algorithms: (1) call-graph rule: validate() reaches the '
    'generator through resolved calls, so there is one formula, not two (iban / eu.at_02: both sides go through mod_97_10 over the '
    'same rearrangement); (2) every use of a generator on the validation path is a compare-and-raise (`gen(payload) != number[k]` -> '
    'InvalidChecksum, `not in` for the documented alternatives) whose payload slice is disjoint from the compared position (interval '
    'reasoning on slice bounds) or whose generator slices the position away itself; (3) must-pass-through: every path of validate() '
    'to a return is dominated by a checksum gate, with a frozen list of documented exceptions; (4) for the generic algorithms the '
    'GEN clause of the ALG engine (generated character is the unique accepted one for every state, placeholder is the zero symbol '
    'of every alphabet). From (1)-(3) the character present in a valid number is the generated one and any other is rejected, for '
    'every valid number at once.',
    'Trusted: callee resolution; CPython ast. Not decided: the arithmetic where validate() uses checksum(number) == constant beside a '
    'separately written generator; MEID; payload/position pairs measured from different ends (lu.tva).',
    'call-graph + dominance (must-pass-through) + slice-interval rules, ALG tabulation for the generic modules',
    'DESIGN.md section C05')

CLAIMED['C17'] = ('other',
    'Decided part: (1) coverage - the abstract interpreter records which characters of the canonical input are handed to a check digit '
    'algorithm, a generator or a check comparison; on every accepting path of the formats the property names and of every national '
    'module that uses Luhn/Verhoeff/Damm/ISO 7064, every input character must be covered (a frozen, documented list of partially '
    'protected formats bounds what may stay uncovered), and no check may compare a generated character with a generated character; '
    '(2) the algorithm a module delegates to must pass the tabulated ALG obligations of C06 (substitution for all, transposition for '
    'Verhoeff, Damm, Mod 11-2, Mod 97-10); (3) for the inline generators of ISBN-10, ISSN and EAN the weighted-sum normal form '
    '(modulus, weights, residue table) is extracted by the interpreter and must satisfy M/gcd(w, M) > 9 per position, an injective '
    'table and - ISBN-10, ISSN - a prime modulus with different adjacent weights including the check position; (4) rearranged '
    'Mod 97-10 inputs stay shorter than the order of 10 modulo 97. Together with C05 (compare-and-raise) this gives rejection of every '
    'single substitution and the stated transpositions for all valid numbers at once.',
    'Trusted: sa/alg/LEMMAS.md, elementary number theory, sa/strabs models. IBAN is evaluated with check_country=False.',
    'abstract interpretation with coverage facts + weighted-sum normal form extraction + ALG tabulation',
    'DESIGN.md section C17')

CLAIMED['C07'] = ('other',
    'Decided part, against a hand-transcribed table of the 19 standards (specs/international.json, written from the standards, not '
    'from the code): (1) the accept envelope of validate() computed by the abstract interpreter - the set of accepted lengths and the '
    'exact character set of every position for every length - equals the transcribed shape in both directions; (2) the normal form of '
    'compact() (deleted separators, case folding, stripping, literal prefixes) equals the transcribed presentation rules; (3) inline '
    'check digit generators (ISBN-10, EAN/GTIN 8/12/13/14, ISSN, IMO, CAS, SEDOL) are reduced to weighted-sum normal form (modulus, '
    'weights with the check weight normalised to 1, residue table, character values) and compared with the transcribed scheme; '
    'delegating formats (ISBN-13, ISMN, IMEI, ISNI, LEI, IBAN, ISO 11649, GRid) hand every position to the named algorithm in the '
    'transcribed rearrangement, and the algorithm module itself passes the C06 obligations; (4) value alphabets (ISIN, CUSIP, Base58, Bech32) equal the transcribed order. Equality of the full '
    'accept sets, the digit-sum arithmetic of ISIN/CUSIP/FIGI and Bitcoin hashing are not decided.',
    'Trusted: the transcription; sa/strabs models; C06 for the generic algorithms. Known findings: LEI has no length/alphabet gate, '
    'ISNI and ISO 11649 admit non-ASCII digits.',
    'abstract interpretation (accept envelope) + normal-form comparison against a transcribed table',
    'DESIGN.md section C07 and appendix A')

CLAIMED['C08'] = ('other',
    'Decided part, for the 19 conversions the property names (specs/conversions.json, written from the property and the module '
    'documentation): each conversion is interpreted abstractly on every accepted shape of its source format, in compact form and as '
    'printed by the source\'s format(); (1) no partial operation fails with a foreign exception; (2) the compact result has the length, '
    'literal prefix and position classes of the target; (3) the result embeds the cells of the source number, each once and in the order '
    'the relation prescribes (provenance of cells, not values); (4) new check characters are cells produced by the target format\'s own '
    'generator applied to the payload they are attached to; (5) the target validate() has an accepting path on the result; (6) the raw '
    'argument is read only through compact()/validate() before any length- or position-dependent operation; (7) for ISAN the option '
    'relations of validate() (add / strip check characters) give only the allowed lengths. Inverse round trips as value equality '
    '(to_x(from_x(n)) == n), AIC base-32, MEID hex/decimal and German tax number re-encodings are not decided.',
    'Trusted: specs/conversions.json; sa/strabs models; C06 for the generic generators. Known finding: cusip.to_isin on CUSIPs with *, @, #.',
    'abstract interpretation with positional provenance (source cells / generated cells / literals) + raw-argument information flow',
    'DESIGN.md section C08')

# Rules added while working through the seeded changes (DESIGN.md 10.7): appended to the level text of the claim they extend.
ADDENDA = {
    'C01': ' validate() reads its raw argument once on every path before rebinding it (a second read only as the argument of another validate()/is_valid()): an argument that can be read only once is otherwise gated on one reading and used on another (C01.reuse; not for the generic algorithm modules).'
           ' Registry reads: a key demanded from the properties of a registry entry must be present in every entry that can reach the read '
           '(entries without any property count unless a truth test of the properties dominates the read). An is_valid() that does not call '
           'validate() at all is reported (a second copy of the rules).',
    'C03': ' For the modules whose validate() and compact() are siblings over a private splitter, every normalisation compact() applies to a part '
           'must also be applied by validate().',
    'C04': ' Further structural rules: every path of format() returns a string; validate() must not rewrite the compact form once more before '
           'checking it, nor apply a case mapping on top of compact() that compact() does not do (format() starts from compact(x)); an attribute '
           'looked up on a dispatched sub-module must exist in every candidate.',
    'C05': ' With a fixed length gate, no slice the generator takes of the whole number (nor int() of all of it) may reach into the compared position; a checksum '
           'comparison guarded by `part of the number not in <constant list>` is an exemption list and is reported; a check position compared with '
           'several generators, or tested for membership in a generated string that is not built from single-character pieces, is reported. A generator documented to take the number without its check digit(s) must not - itself or through the generator it delegates to - cut trailing characters off its argument (C05.documented-payload).',
    'C06': ' Generators are evaluated with checksum() standing for each state and may read the payload only through checksum(); the Damm step '
           'is evaluated per (state, digit) whatever its form; the Luhn sum is read symbolically (generator sums, accumulation loops, helpers); '
           'checksum() must consume the number character by character (no int() of the whole argument); gates and further conjuncts of '
           'validate() must let every string of a payload plus check characters through.',
    'C07': ' The IBAN envelope relies on util.get_cc_module loading the named submodule (from-list or dotted path), which is checked.',
    'C08': ' A conversion that is a pure projection of its source has to validate the source first.',
    'C09': ' util.get_cc_module must import the named submodule (from-list or dotted path): otherwise the dispatch silently returns None. '
           'In a wrapper `try: return A.validate(n) except X: return B.validate(n)` every gate of A.validate() that raises another class than X is a gate of B.validate() too (C09.fallback).',
    'C10': ' Guards on the emptiness of an accumulator fork the abstract execution; temporaries of one iteration are atoms with the order type '
           'they had when assigned; what get() hands to read() and read() to _parse() must be the opened file itself (DT.source); the property '
           'name class must contain [0-9a-zA-Z-_].',
    'C11': ' A constant table against which a consumer tests a prefix of the number (reject / strict subscript / gate of the lookup) must contain '
           'every top-level prefix of the registry it reads; characters at which the line reader splits a line and range endpoints outside '
           'printable ASCII are reported; the format gates of isil.validate() are evaluated on a witness for every registered agency. numdb decodes every registry stream as UTF-8 explicitly (REG.encoding); the key cz.bankaccount.validate() demands of a bank entry is read from its gate and must be present in every entry.',
    'C12': ' A lookup of a field in a constant (length, low, high) table by string comparison must cut the field to the width of the bounds; '
           'getter thresholds must be thresholds of validate(). No getter subscripts its raw parameter before rebinding it to the compact / validated form (C12.compact-first: validate() also accepts non-canonical spellings).',
    'C13': ' Module-level defaultdicts that functions subscript (inserting lookups), function-level caches, one-shot module iterators and clock '
           'reads in default arguments are reported; a memo must not hand out a mutable object it stored. No raise of a module-level exception instance (OWN.shared-exception); no memo keyed on id() of an argument (OWN.memo-identity-key).',
    'C14': ' clean() is interpreted over a small stream domain (helpers followed, generator expressions and joins composed): the result must be '
           'conversion inside the catch-all, one pass through table.get(x, x), deletion last; the table builder may be any one-expression '
           'function that evaluates to the name-list map; module-level digit tables of other modules are checked against the Unicode decimal values; '
           'a regular expression applied to the raw argument before clean() is a read of the raw text; no module other than stdnum.util may '
           'refer to the table.',
    'C16': ' _max_length() must equal the sum of the component widths of the format; an encoder branch that drops trailing 00 fields may only '
           'serve formats with an optional part; the fixed/variable choice in encode() may depend on the fnc1 flag only; the separator is '
           'never used as a character set (strip family); compact() deletes only the parentheses and clean() leaves the 82 GS1 value characters alone. In a sequence-value branch of _encode_value() every return depends on every component the branch reads (C16.pair).',
    'C17': ' Paths of validate() that return without any check are limited to two documented modules. Prefixes that compact()/validate() '
           'recognise and cut off before the check (startswith / slice comparison / membership, then number[k:]) must be pairwise more than one '
           'substitution apart when they have the same length (C17.discard). The documented exemption of fr.siret (La Poste) stays delimited by exactly its prefix (C17.exempt).',
    'C18': ' Availability: the C01 obligations and the result kind / attribute totality of every format() the page calls are re-decided; '
           'util.get_number_modules() must yield every module that has validate(); the scan of the formats is guarded only by the presence of '
           'the parameter; the two responses are read path by path. The functions get_conversions() selects return no bytes / set / complex value, which json.dumps() of the AJAX answer would refuse (C18.json-kind).',
}
for _pid, _txt in ADDENDA.items():
    _c = CLAIMED[_pid]
    CLAIMED[_pid] = (_c[0], _c[1] + _txt) + tuple(_c[2:])

NOT_APPLICABLE = {
}

PENDING = 'checker for this property is not built yet in this revision of /verif (see DESIGN.md section 7 for the build order)'


def main():
    props = [json.loads(l) for l in open(os.path.join(HERE, 'properties.jsonl'))]
    checks = []
    na = []
    for p in props:
        pid = p['id']
        if pid in CLAIMED:
            cat, text, note, tech, ref = CLAIMED[pid]
            checks.append({
                'property_id': pid,
                'quick_cmd': '/venv/bin/python -m sa %s --tier quick' % pid,
                'thorough_cmd': '/venv/bin/python -m sa %s --tier thorough' % pid,
                'evidence_file': '/verif/evidence/%s.json' % pid,
                'replay_cmd_template': '/venv/bin/python -m sa replay {path}',
                'engine': 'sa',
                'level_claimed': {'category': cat, 'text': text, 'design_ref': ref},
                'level_note': note,
                'technique': 'static analysis: ' + tech,
            })
        else:
            na.append({'property_id': pid, 'reason': NOT_APPLICABLE.get(pid, PENDING)})
    man = {
        'version': 1,
        'setup_cmd': 'mkdir -p /verif/.cache /verif/out /verif/evidence && /venv/bin/python -m sa.setup',
        'hooks': {
            'guard': 'PYTHON_STDNUM_VERIF',
            'enable': 'no hooks are needed: every check parses /repo\'s working tree and never imports or runs it',
            'baseline_off_cmd': 'cd /repo && /venv/bin/python -m pytest -ra -q -p no:cacheprovider --timeout=900 --continue-on-collection-errors',
            'source_commits': [],
            'add_only': True,
        },
        'engines': [
            {'name': 'sa', 'path': '/verif/sa', 'serves_properties': sorted(CLAIMED),
             'kind_free_text': 'repository-specific static analysers over Python ast / re._parser / the registry files: '
                               'shape and dataflow rules, an abstract interpreter for the string dialect (STRABS), '
                               'algebraic model extraction for the checksum modules, decision-table extraction for numdb'},
        ],
        'checks': checks,
        'not_applicable': na,
        'notes': 'All checks are static: they read /repo/stdnum, /repo/online_check and the .dat registries as text/AST on every run. '
                 'Exit 0 = holds (KNOWN-FINDING lines for entries of known_findings.json), 1 = VIOLATION, 2 = ANALYSIS-ERROR '
                 '(anchor vanished or construct outside the decidable dialect).',
    }
    with open(os.path.join(HERE, 'MANIFEST.json'), 'w') as fh:
        json.dump(man, fh, indent=1)
    print('MANIFEST.json: %d checks, %d not applicable' % (len(checks), len(na)))


if __name__ == '__main__':
    main()
