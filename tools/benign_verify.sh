#!/bin/bash
# Usage: tools/benign_verify.sh <dir with patch.diff and demo.py>
# A behaviour-preserving change: the pinned suite passes with it (coverage message 100%) and demo.py exits 0 with and without it.
set -u
d=$(realpath "$1")
name=$(echo "$d" | tr '/' '_')
wt=/tmp/wtv/$name
mkdir -p /tmp/wtv
git -C /repo worktree remove --force "$wt" >/dev/null 2>&1
git -C /repo worktree add -q --detach "$wt" HEAD || { echo "$d WORKTREE-FAIL"; exit 2; }
cd "$wt"
res=""
if ! git apply "$d/patch.diff" 2>/dev/null; then res="APPLY-FAIL"; else
  /venv/bin/python -m pytest -q -p no:cacheprovider --timeout=900 -x >"$d/pytest.log" 2>&1; rc_t=$?
  failed=$(grep -cE "^(FAILED|ERROR) " "$d/pytest.log")
  passed=$(grep -oE "[0-9]+ passed" "$d/pytest.log" | tail -1)
  timeout 600 /venv/bin/python "$d/demo.py" >"$d/demo_with.log" 2>&1; rc_with=$?
  git checkout -q -- . && git clean -fdq
  timeout 600 /venv/bin/python "$d/demo.py" >"$d/demo_without.log" 2>&1; rc_without=$?
  res="tests:[$passed failed=$failed exit=$rc_t] demo_with=$rc_with demo_without=$rc_without"
fi
cd /
git -C /repo worktree remove --force "$wt" >/dev/null 2>&1
echo "$d $res"
