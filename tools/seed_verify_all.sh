#!/bin/bash
# verifies every /tmp/seed/C*/k that is not verified yet; results in <dir>/verify.txt
ls -d /tmp/seed/C*/[0-9] 2>/dev/null | while read d; do
  [ -f "$d/patch.diff" ] && [ -f "$d/demo.py" ] && [ ! -f "$d/verify.txt" ] && echo "$d"
done | xargs -P 6 -I{} sh -c '/verif/tools/seed_verify.sh {} > {}/verify.txt.tmp 2>&1; mv {}/verify.txt.tmp {}/verify.txt'
cat /tmp/seed/C*/[0-9]/verify.txt 2>/dev/null
