#!/venv/bin/python
"""Manual tool (never run by a check): add the violations currently reported under out/<pid>/ whose
key matches a regex to known_findings.json.
Usage: tools/kf_add.py <pid> <key regex> <what: text, may use {construct} {func} {file}> [<input shown against the real code>]"""
import glob, json, os, re, sys
HERE = os.path.dirname(os.path.dirname(os.path.abspath(__file__)))
pid, rx, what = sys.argv[1:4]
inp = sys.argv[4] if len(sys.argv) > 4 else ''
path = os.path.join(HERE, 'known_findings.json')
data = json.load(open(path))
have = {(e['property'], e['key']) for e in data['findings']}
n = 0
for f in sorted(glob.glob(os.path.join(HERE, 'out', pid, 'v*.json'))):
    v = json.load(open(f))['finding']
    if not re.search(rx, v['key']) or (pid, v['key']) in have:
        continue
    data['findings'].append({'property': pid, 'status': 'known', 'key': v['key'],
                             'what': what.format(construct=v['construct'], func=v['function'], file=v['file']),
                             'input': inp, 'detail': v['detail']})
    n += 1
json.dump(data, open(path, 'w'), indent=1, ensure_ascii=False)
print('added', n)
