#!/bin/bash
# runs every claimed check on the current /repo tree and validates manifest + evidence
cd /verif
git -C /repo status --short | grep -q . && echo "WARNING: /repo working tree is dirty"
rc=0
for p in $(python3 -c "import json; print(' '.join(c['property_id'] for c in json.load(open('MANIFEST.json'))['checks']))"); do
  out=$(/venv/bin/python -m sa $p --tier ${1:-quick} 2>&1 | tail -1)
  code=$?
  echo "$out"
  echo "$out" | grep -q "violations=0 .* errors=0" || rc=1
done
python3-vt - <<'PY'
import json, jsonschema, glob
jsonschema.validate(json.load(open('MANIFEST.json')), json.load(open('/root/.vp/MANIFEST.schema.json')))
sch=json.load(open('/root/.vp/EVIDENCE.schema.json'))
m=json.load(open('MANIFEST.json'))
for c in m['checks']:
    e=json.load(open(c['evidence_file']))
    jsonschema.validate(e, sch)
    if e['level']=='proof' and e['coverage']['obligations']!=e['coverage']['discharged']: print('PROOF-LEVEL MISMATCH', c['property_id'])
    if e.get('violations'): print('EVIDENCE HAS VIOLATIONS', c['property_id'])
print('manifest and evidence valid')
PY
exit $rc
